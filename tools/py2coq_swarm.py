#!/usr/bin/env python3
"""py2coq_swarm - front-end of the fail-closed translator for the WHOLE methods of artap/algorithm_swarm.py (C18):
`update_velocity` (a loop over particle objects that writes one field of each), `update_global_best`, and the `run`
methods (the generation loop `it = 0; while it < N: ...; it += 1` around operator calls).

    tools/py2coq_swarm.py --repo /repo --spec coq/theories/GenProofs/specs/SwarmWholeGen.json --out X.v

Same spec format and entry points as tools/py2coq.py (a spec with `"frontend": "swarm"` is routed here).  The
translator proper is py2coq_eff.EffTranslator (effects as oracles of the typed event log, see its docstring); this module
adds three source-to-source passes on the function's AST, each designated by the spec and each FAIL CLOSED (every
side condition is checked syntactically, anything else is `Unsupported`), and one expression form:

* `"element_writes": {"loop": "for individual in individuals", "field": "features[\\"velocity\\"]", "type": "list T"}`
  WRITE LOG of a field of the loop's elements.  The designated `for x in xs` loop must be the only top-level statement
  of the method (docstring aside); the field is reached ONLY as `x.<field>` with x the loop variable, only inside the
  loop body; the first statement of the body is the plain assignment `x.<field> = E` (E does not mention the field);
  the body does not rebind x and has no `return` / `break` / `continue` of the designated loop.  Then every value the
  field of the current element takes during its iteration is determined inside that iteration (whatever objects the
  elements share), and the method is translated as the function that returns, per element and in order, the FINAL
  value of the field at the end of its iteration: `x.<field>` becomes a local, `<out>.append(<local>)` ends the body,
  `return <out>` ends the method.  (Two elements sharing the written object see the later value afterwards: the
  result is the sequence of values written, not the heap.)
* `"counting_while": true`   `v = 0` immediately followed by `while v < E: BODY; v += 1` where E is built from names /
  attribute / string-subscript reads only, BODY does not assign v, E's names or attribute targets otherwise, contains
  no `break` / `continue` / `return`, and v is not read after the loop: rewritten to `for v in range(E): BODY` (same
  iterations, same values of v, E read once — an attribute that the function does not write does not change: assumption
  6 of notes/TRANSLATOR.md).
* `"stores": {"population_id": ["ind", "nat"]}`   an attribute store `x.population_id = e` on a record-typed local is the
  OBSERVABLE EFFECT `store_population_id(x, e)` (an event `ev_store_population_id x e` in the log, in program order);
  the attribute may not be read in the function.
* `"object_iadd": ["self.leaders"]` (`x += e` on an object is the call `x.__iadd__(e)`), `"inplace": ["crowding_distance"]` (a
  statement `f(xs)` of a callee that reorders its list argument in place is read as `xs = f(xs)`), `"string_args": true` (a
  string literal argument is folded into the callee's name: `truncate(n, 'crowding_distance')` = `truncate__crowding_distance(n)`).
* `"alias_copies": true` (or a list of statement texts)   an `x = y` between two list names, a top-level statement of the body
  of a top-level loop, is translated as `x = list(y)`; checked: from there on x is never modified in place and y only after the loop body has rebound it.
* `"unpack_pairs": true`   `a, b = f(...)` is `pair_k = f(...); a = pair_k[0]; b = pair_k[1]`.
* `"fresh_effects": ["self.offspring_selector.select"]`   DECLARED (trusted, not checked here): the effect returns a new
  list object, so the local it is bound to may be modified in place (CopySelector.select builds its result list).
* the expression `[c] * len(e)` (c a numeric literal): `repeat c (length e)`; `range(0, e)` is read as `range(e)`.

Stdlib only.  Nothing of the existing translator files is modified.
"""
import ast
import copy
import hashlib
import importlib.util
import json
import os
import re
import sys

HERE = os.path.dirname(os.path.abspath(__file__))


def _load(name, probe):
    path = os.path.join(HERE, name + ".py")
    for m in list(sys.modules.values()):
        f = getattr(m, "__file__", None)
        if f and os.path.abspath(f) == path and hasattr(m, probe):
            return m
    spec = importlib.util.spec_from_file_location(name + "_for_swarm", path)
    m = importlib.util.module_from_spec(spec)
    sys.modules[name + "_for_swarm"] = m
    spec.loader.exec_module(m)
    return m


_b = _load("py2coq", "FnTranslator")          # so that py2coq_eff finds the same base module (one `Unsupported` class)
eff = _load("py2coq_eff", "EffTranslator")
base = eff.base
Unsupported = base.Unsupported


def header_of(nd):
    return "for %s in %s" % (ast.unparse(nd.target), ast.unparse(nd.iter))


def strip_doc(body):
    return [st for st in body if not (isinstance(st, ast.Expr) and isinstance(st.value, ast.Constant)
                                      and isinstance(st.value.value, str))]


def names_in(node):
    return {n.id for n in ast.walk(node) if isinstance(n, ast.Name)} | {n.arg for n in ast.walk(node) if isinstance(n, ast.arg)}


def fix(node, at):
    for n in ast.walk(node):
        if not hasattr(n, "lineno"):
            ast.copy_location(n, at)
    return node


# -- pass 1: write log of a field of the loop's elements ------------------------------------------------------------
def element_writes(fn, d, qual):
    if set(d) != {"loop", "field", "type"}:
        raise Unsupported("element_writes: keys %s" % sorted(d), fn, qual)
    body = strip_doc(fn.body)
    if body and isinstance(body[-1], ast.Return) and body[-1].value is None:
        body = body[:-1]
    if len(body) != 1 or not isinstance(body[0], ast.For) or header_of(body[0]) != d["loop"] or body[0].orelse \
            or not isinstance(body[0].target, ast.Name):
        raise Unsupported("element_writes: the loop `%s` is not the whole body of the method" % d["loop"], fn, qual)
    loop = body[0]
    x = loop.target.id
    field = d["field"]

    def is_field(n):
        return isinstance(n, (ast.Attribute, ast.Subscript)) and ast.unparse(n).replace("'", '"') == "%s.%s" % (x, field)

    def mentions(n):
        """any access to the last component of the field (through whatever expression)"""
        last = re.findall(r"\w+", field)[-1]
        for m in ast.walk(n):
            if isinstance(m, ast.Attribute) and m.attr == last:
                return True
            if isinstance(m, ast.Constant) and m.value == last:
                return True
        return False
    if mentions(loop.iter) or mentions(fn.args):
        raise Unsupported("element_writes: the field is mentioned outside the loop body", fn, qual)
    for st in loop.body:
        for m in ast.walk(st):
            if isinstance(m, (ast.Return, ast.FunctionDef, ast.Lambda, ast.ClassDef, ast.Global, ast.Nonlocal)):
                raise Unsupported("element_writes: %s inside the designated loop" % type(m).__name__, m, qual)
            if isinstance(m, ast.Name) and m.id == x and isinstance(m.ctx, (ast.Store, ast.Del)):
                raise Unsupported("element_writes: the loop variable is rebound in the body", m, qual)

    def own_jumps(stmts):
        for st in stmts:
            if isinstance(st, (ast.Break, ast.Continue)):
                raise Unsupported("element_writes: break / continue of the designated loop", st, qual)
            if isinstance(st, (ast.For, ast.While)):
                own_jumps(st.orelse)
                continue
            for fld in ("body", "orelse", "finalbody"):
                own_jumps(getattr(st, fld, []) or [])
            for h in getattr(st, "handlers", []) or []:
                own_jumps(h.body)
    own_jumps(loop.body)
    first = loop.body[0] if loop.body else None
    if not (isinstance(first, ast.Assign) and len(first.targets) == 1 and is_field(first.targets[0]) and not mentions(first.value)):
        raise Unsupported("element_writes: the first statement of the loop body is not `%s.%s = <expression without the field>`"
                          % (x, field), first or loop, qual)
    used = names_in(fn)
    local, out = "w_" + re.findall(r"\w+", field)[-1], "written"
    if local in used or out in used:
        raise Unsupported("element_writes: the names %s / %s are used by the method" % (local, out), fn, qual)

    class Tr(ast.NodeTransformer):
        def generic_visit(self, n):
            if is_field(n):
                return ast.copy_location(ast.Name(id=local, ctx=n.ctx), n)
            return super().generic_visit(n)
    new_body = [Tr().visit(copy.deepcopy(st)) for st in loop.body]
    for st in new_body:
        if mentions(st):
            raise Unsupported("element_writes: the field is reached other than as `%s.%s`" % (x, field), st, qual)
    new_body.append(ast.Expr(value=ast.Call(func=ast.Attribute(value=ast.Name(id=out, ctx=ast.Load()), attr="append", ctx=ast.Load()),
                                            args=[ast.Name(id=local, ctx=ast.Load())], keywords=[])))
    endl = max(getattr(m, "end_lineno", 0) or 0 for m in ast.walk(loop))
    for m in ast.walk(new_body[-1]):                 # the append stands after the last line of the body
        m.lineno, m.end_lineno, m.col_offset, m.end_col_offset = endl, endl, loop.body[0].col_offset, loop.body[0].col_offset
    new_loop = ast.For(target=loop.target, iter=loop.iter, body=new_body, orelse=[], type_comment=None)
    ast.copy_location(new_loop, loop)
    init = ast.Assign(targets=[ast.Name(id=out, ctx=ast.Store())], value=ast.List(elts=[], ctx=ast.Load()), type_comment=None)
    ret = ast.Return(value=ast.Name(id=out, ctx=ast.Load()))
    for m in ast.walk(ret):
        m.lineno, m.end_lineno, m.col_offset, m.end_col_offset = endl, endl, loop.col_offset, loop.col_offset
    fn2 = copy.copy(fn)
    fn2.body = [init, new_loop, ret]
    fix(fn2, loop)
    return fn2, {out: "list " + d["type"], local: d["type"]}


# -- pass 2: the counting while loop --------------------------------------------------------------------------------
def counting_while(fn, qual):
    found = []

    def pure_read(n):
        return all(isinstance(m, (ast.Name, ast.Attribute, ast.Subscript, ast.Constant, ast.Load)) for m in ast.walk(n)) and \
            all(isinstance(m.slice, ast.Constant) and isinstance(m.slice.value, str) for m in ast.walk(n) if isinstance(m, ast.Subscript))

    def rewrite(stmts, after_fn):
        out, i = [], 0
        while i < len(stmts):
            st = stmts[i]
            if isinstance(st, ast.While):
                prev = out[-1] if out else None
                t = st.test
                if not (isinstance(prev, ast.Assign) and len(prev.targets) == 1 and isinstance(prev.targets[0], ast.Name)
                        and isinstance(prev.value, ast.Constant) and prev.value.value == 0 and type(prev.value.value) is int):
                    raise Unsupported("counting_while: the while loop is not preceded by `v = 0`", st, qual)
                v = prev.targets[0].id
                if not (isinstance(t, ast.Compare) and len(t.ops) == 1 and isinstance(t.ops[0], ast.Lt) and isinstance(t.left, ast.Name)
                        and t.left.id == v and pure_read(t.comparators[0]) and v not in names_in(t.comparators[0])) or st.orelse:
                    raise Unsupported("counting_while: the test is not `%s < <attribute reads>`" % v, st, qual)
                last = st.body[-1] if st.body else None
                if not (isinstance(last, ast.AugAssign) and isinstance(last.op, ast.Add) and isinstance(last.target, ast.Name)
                        and last.target.id == v and isinstance(last.value, ast.Constant) and last.value.value == 1
                        and type(last.value.value) is int):
                    raise Unsupported("counting_while: the body does not end with `%s += 1`" % v, st, qual)
                inner = st.body[:-1]
                bound_txt = ast.unparse(t.comparators[0])
                for b in inner:
                    for m in ast.walk(b):
                        if isinstance(m, (ast.Break, ast.Continue, ast.Return, ast.While, ast.FunctionDef, ast.Lambda, ast.Global, ast.Nonlocal)):
                            raise Unsupported("counting_while: %s inside the loop" % type(m).__name__, m, qual)
                        if isinstance(m, ast.Name) and isinstance(m.ctx, (ast.Store, ast.Del)) and (m.id == v or m.id in names_in(t.comparators[0])):
                            raise Unsupported("counting_while: the body assigns %s" % m.id, m, qual)
                        if isinstance(m, (ast.Attribute, ast.Subscript)) and isinstance(m.ctx, (ast.Store, ast.Del)) \
                                and ast.unparse(m) in bound_txt:
                            raise Unsupported("counting_while: the body assigns the bound %s" % bound_txt, m, qual)
                for later in stmts[i + 1:] + after_fn:
                    if v in names_in(later):
                        raise Unsupported("counting_while: the counter %s is used after the loop" % v, later, qual)
                rng = ast.Call(func=ast.Name(id="range", ctx=ast.Load()), args=[t.comparators[0]], keywords=[])
                f = ast.For(target=ast.Name(id=v, ctx=ast.Store()), iter=rng, body=inner or [ast.Pass()], orelse=[], type_comment=None)
                ast.copy_location(f, st)
                out.pop()                               # `v = 0`
                out.append(f)
                found.append(st)
            else:
                for m in ast.walk(st):
                    if isinstance(m, ast.While):
                        raise Unsupported("counting_while: a while loop below the top level of the method", m, qual)
                out.append(st)
            i += 1
        return out
    fn2 = copy.copy(fn)
    fn2.body = rewrite([copy.deepcopy(s) for s in fn.body], [])
    if len(found) != 1:
        raise Unsupported("counting_while: %d while loops at the top level of the method (one expected)" % len(found), fn, qual)
    fix(fn2, fn)
    return fn2


# -- pass 3: attribute stores on objects as observable effects --------------------------------------------------------
def stores(fn, d, qual, module_names):
    effects = []
    for attr, (rec, ty) in d.items():
        name = "store_" + attr
        if name in module_names or name in names_in(fn):
            raise Unsupported("stores: the name %s is used in the module" % name, fn, qual)
        effects.append({"call": name, "args": [rec, ty], "event": True})
    hit = set()

    class Tr(ast.NodeTransformer):
        def visit_Assign(self, n):
            if len(n.targets) == 1 and isinstance(n.targets[0], ast.Attribute) and n.targets[0].attr in d \
                    and isinstance(n.targets[0].value, ast.Name) and n.targets[0].value.id != "self":
                hit.add(n.targets[0].attr)
                call = ast.Call(func=ast.Name(id="store_" + n.targets[0].attr, ctx=ast.Load()),
                                args=[ast.Name(id=n.targets[0].value.id, ctx=ast.Load()), n.value], keywords=[])
                return fix(ast.copy_location(ast.Expr(value=call), n), n)
            return n
    fn2 = Tr().visit(copy.deepcopy(fn))
    for m in ast.walk(fn2):
        if isinstance(m, ast.Attribute) and m.attr in d:
            raise Unsupported("stores: the attribute %s is reached other than by `<local>.%s = e`" % (m.attr, m.attr), m, qual)
    for attr in d:
        if attr not in hit:
            raise Unsupported("stores: no store to the attribute %s" % attr, fn, qual)
    return fn2, effects


def range_from_zero(fn, shadowed):
    """range(0, e) is range(e) (the builtin: not shadowed in the module, not a local of the function)"""
    if "range" in shadowed or "range" in {m.id for m in ast.walk(fn) if isinstance(m, ast.Name) and isinstance(m.ctx, ast.Store)} \
            or "range" in {a.arg for a in ast.walk(fn) if isinstance(a, ast.arg)}:
        return fn

    class Tr(ast.NodeTransformer):
        def visit_Call(self, n):
            self.generic_visit(n)
            if isinstance(n.func, ast.Name) and n.func.id == "range" and len(n.args) == 2 and not n.keywords \
                    and isinstance(n.args[0], ast.Constant) and type(n.args[0].value) is int and n.args[0].value == 0:
                return ast.copy_location(ast.Call(func=n.func, args=[n.args[1]], keywords=[]), n)
            return n
    return Tr().visit(copy.deepcopy(fn))


# -- pass 4: small normalisations of calls with effects ---------------------------------------------------------------
def object_iadd(fn, targets, qual):
    """`self.leaders += e` on an object attribute (not a list the function owns): the statement is the observable call
    `self.leaders.__iadd__(e)` (Python assigns its result - the object itself for artap's Archive - back to the attribute)"""
    hit = set()

    class Tr(ast.NodeTransformer):
        def visit_AugAssign(self, n):
            if isinstance(n.op, ast.Add) and base.dotted(n.target) in targets:
                hit.add(base.dotted(n.target))
                call = ast.Call(func=ast.Attribute(value=fix(ast.copy_location(copy.deepcopy(n.target), n), n), attr="__iadd__", ctx=ast.Load()),
                                args=[n.value], keywords=[])
                for m in ast.walk(call.func):
                    if hasattr(m, "ctx"):
                        m.ctx = ast.Load()
                return fix(ast.copy_location(ast.Expr(value=call), n), n)
            return n
    fn2 = Tr().visit(copy.deepcopy(fn))
    for t in targets:
        if t not in hit:
            raise Unsupported("object_iadd: no statement `%s += ...`" % t, fn, qual)
    return fn2


def inplace_calls(fn, d, qual):
    """`f(xs)` as a statement, for a callee f the spec declares to reorder / modify the list object xs it is given
    (crowding_distance sorts its argument in place): read as `xs = f(xs)`, the effect answers the list as it is afterwards.
    xs must be a plain parameter / local name of the function."""
    hit = set()

    class Tr(ast.NodeTransformer):
        def visit_Expr(self, n):
            c = n.value
            if isinstance(c, ast.Call) and base.dotted(c.func) in d:
                if c.keywords or len(c.args) != 1 or not isinstance(c.args[0], ast.Name):
                    raise Unsupported("inplace: call shape of %s" % base.dotted(c.func), n, qual)
                hit.add(base.dotted(c.func))
                return fix(ast.copy_location(ast.Assign(targets=[ast.Name(id=c.args[0].id, ctx=ast.Store())], value=c, type_comment=None), n), n)
            return n
    fn2 = Tr().visit(copy.deepcopy(fn))
    for m in ast.walk(fn2):
        if isinstance(m, ast.Call) and base.dotted(m.func) in d:
            pass
    for t in d:
        if t not in hit:
            raise Unsupported("inplace: no statement `%s(xs)`" % t, fn, qual)
    # every other call of such a callee (inside an expression) is rejected: only the statement form is read this way
    cnt = sum(1 for m in ast.walk(fn2) if isinstance(m, ast.Call) and base.dotted(m.func) in d)
    stm = sum(1 for m in ast.walk(fn2) if isinstance(m, ast.Assign) and isinstance(m.value, ast.Call) and base.dotted(m.value.func) in d)
    if cnt != stm:
        raise Unsupported("inplace: a call of %s inside an expression" % sorted(d), fn, qual)
    return fn2


def string_args(fn, qual):
    """a string literal argument of a call is folded into the callee's name: `a.truncate(n, 'crowding_distance')` is the
    call `a.truncate__crowding_distance(n)` (the spec declares that effect: another string is another, undeclared, callee)"""
    class Tr(ast.NodeTransformer):
        def visit_Call(self, n):
            self.generic_visit(n)
            strs = [a for a in n.args if isinstance(a, ast.Constant) and isinstance(a.value, str)]
            if strs and base.dotted(n.func) and isinstance(n.func, ast.Attribute) and not n.keywords \
                    and all(re.fullmatch(r"\w+", a.value) for a in strs) and n.func.attr not in ("format", "info"):
                f = copy.deepcopy(n.func)
                f.attr = f.attr + "".join("__" + a.value for a in strs)
                return ast.copy_location(ast.Call(func=f, args=[a for a in n.args if a not in strs], keywords=[]), n)
            return n
    return Tr().visit(copy.deepcopy(fn))


# -- pass 5: an alias that is never seen to differ from a copy --------------------------------------------------------
MUTATORS = {"append", "extend", "remove", "reverse", "sort", "insert", "pop", "clear", "__iadd__", "__setitem__", "__delitem__"}


def mutates(node, name):
    for m in ast.walk(node):
        if isinstance(m, ast.Call) and isinstance(m.func, ast.Attribute) and isinstance(m.func.value, ast.Name) \
                and m.func.value.id == name and m.func.attr in MUTATORS:
            return True
        if isinstance(m, ast.Subscript) and isinstance(m.value, ast.Name) and m.value.id == name and isinstance(m.ctx, (ast.Store, ast.Del)):
            return True
        if isinstance(m, ast.AugAssign) and isinstance(m.target, ast.Name) and m.target.id == name:
            return True
    return False


def alias_copies(fn, texts, qual, shadowed):
    """`x = y` (two local names of lists), a top-level statement of the body of a top-level loop of the method, designated by
    its text: translated as `x = list(y)`.  The base translator has value semantics and (name-based, flow-insensitive)
    rejects binding a name that is modified in place anywhere to a shared list.  Here the alias cannot be told from a
    copy, checked syntactically: from the statement on - the rest of the loop body, the body again from its top (back
    edge), everything after the loop - x is never modified in place, and y is modified in place only after a top-level
    `y = <expression>` of the loop body has rebound it (the alias is broken first).  (What CALLEES do to a list object
    they are given is outside the translation as before: effects do nothing to the locals.)"""
    if "list" in shadowed or "list" in names_in(fn):
        raise Unsupported("alias_copies: the name `list` is rebound", fn, qual)
    fn2 = copy.deepcopy(fn)
    done = set()
    if texts is True:
        # every `x = y` between two names of which one is modified in place somewhere in the method (what the base
        # translator would reject), at the top level of the body of a top-level loop
        texts = []
        for loop in fn2.body:
            if isinstance(loop, (ast.For, ast.While)):
                for st in loop.body:
                    if isinstance(st, ast.Assign) and len(st.targets) == 1 and isinstance(st.targets[0], ast.Name) \
                            and isinstance(st.value, ast.Name) and (mutates(fn2, st.targets[0].id) or mutates(fn2, st.value.id)):
                        texts.append(ast.unparse(st))
        if not texts:
            raise Unsupported("alias_copies: no `x = y` of a modified list in the body of a top-level loop", fn, qual)
    for k, loop in enumerate(fn2.body):
        if not isinstance(loop, (ast.For, ast.While)):
            continue
        for j, st in enumerate(loop.body):
            if isinstance(st, ast.Assign) and ast.unparse(st) in texts:
                if not (len(st.targets) == 1 and isinstance(st.targets[0], ast.Name) and isinstance(st.value, ast.Name)):
                    raise Unsupported("alias_copies: `%s` is not `x = y`" % ast.unparse(st), st, qual)
                x, y = st.targets[0].id, st.value.id
                later = loop.body[j + 1:] + fn2.body[k + 1:]
                if any(mutates(b, x) for b in loop.body + fn2.body[k + 1:]) or any(mutates(b, y) for b in later):
                    raise Unsupported("alias_copies: %s / %s is modified in place while the alias is live" % (x, y), st, qual)
                rebound = False
                for b in loop.body[:j]:
                    if not rebound and mutates(b, y):
                        raise Unsupported("alias_copies: %s is modified in place before the loop body rebinds it" % y, b, qual)
                    if isinstance(b, ast.Assign) and len(b.targets) == 1 and isinstance(b.targets[0], ast.Name) and b.targets[0].id == y:
                        rebound = True
                if not rebound:
                    raise Unsupported("alias_copies: the loop body does not rebind %s before `%s`" % (y, ast.unparse(st)), st, qual)
                st.value = fix(ast.copy_location(ast.Call(func=ast.Name(id="list", ctx=ast.Load()), args=[st.value], keywords=[]), st), st)
                done.add(ast.unparse(ast.Assign(targets=st.targets, value=ast.Name(id=y, ctx=ast.Load()), lineno=0)))
    for t in texts:
        if t not in done:
            raise Unsupported("alias_copies: no top-level statement `%s` in the body of a top-level loop" % t, fn, qual)
    return fn2


# -- pass 6: unpacking the pair a call returns ------------------------------------------------------------------------
def unpack_pairs(fn, qual):
    """`a, b = f(...)` (a statement; f a call, a and b names): `pair_k = f(...); a = pair_k[0]; b = pair_k[1]` - the result is a
    sequence of which the first two items are taken (Python also requires that there are exactly two: a ValueError
    otherwise, outside the translation like every other exception of a callee)"""
    used = names_in(fn)
    cnt = [0]

    class Tr(ast.NodeTransformer):
        def visit_Assign(self, n):
            t = n.targets[0] if len(n.targets) == 1 else None
            if isinstance(t, ast.Tuple) and len(t.elts) == 2 and all(isinstance(e, ast.Name) for e in t.elts) and isinstance(n.value, ast.Call):
                cnt[0] += 1
                tmp = "pair_%d" % cnt[0]
                if tmp in used:
                    raise Unsupported("unpack_pairs: the name %s is used by the method" % tmp, n, qual)
                out = [ast.Assign(targets=[ast.Name(id=tmp, ctx=ast.Store())], value=n.value, type_comment=None)]
                for k, e in enumerate(t.elts):
                    out.append(ast.Assign(targets=[ast.Name(id=e.id, ctx=ast.Store())],
                                          value=ast.Subscript(value=ast.Name(id=tmp, ctx=ast.Load()), slice=ast.Constant(value=k), ctx=ast.Load()),
                                          type_comment=None))
                return [fix(ast.copy_location(o, n), n) for o in out]
            return n
    return Tr().visit(copy.deepcopy(fn))


def is_repeat(n):
    return isinstance(n, ast.BinOp) and isinstance(n.op, ast.Mult) and isinstance(n.left, ast.List) and len(n.left.elts) == 1 \
        and isinstance(n.left.elts[0], ast.Constant) and type(n.left.elts[0].value) in (int, float) \
        and isinstance(n.right, ast.Call) and base.dotted(n.right.func) == "len"


class SwarmTranslator(eff.EffTranslator):
    def fresh_list_expr(self, v):
        return is_repeat(v) or super().fresh_list_expr(v)

    def _expr(self, n, env, want):
        if is_repeat(n) and "len" not in env and "len" not in getattr(self, "shadowed_builtins", ()):
            # [c] * len(e): a new list of len(e) copies of the number c
            c, _ = self.coerce(str(n.left.elts[0].value), ("lit", n.left.elts[0].value), "T", n)
            k, tk = self.expr(n.right, env)
            if tk != "nat":
                raise self.err("list repetition by a value of type %s" % (tk,), n)
            return "(repeat %s %s)" % (c, k), ("list", "T")
        return super()._expr(n, env, want)


function_infos = base.function_infos
LAST_TRANSLATORS = {}


def translate_spec(repo, spec):
    """-> (coq text, [{"function", "sha1", "source"}]); raises Unsupported."""
    path = os.path.join(repo, spec["source"])
    src = open(path).read()
    tree = ast.parse(src, filename=path)
    lines = src.splitlines(keepends=True)
    module_names = {n.id for n in ast.walk(tree) if isinstance(n, ast.Name)} | \
                   {n.name for n in ast.walk(tree) if isinstance(n, (ast.FunctionDef, ast.ClassDef))}
    done, parts, info, helpers = {}, [], [], set()
    for item in spec["functions"]:
        cls, name = item[0], item[1]
        qual = (cls + "." if cls else "") + name
        key = qual + ("#" + item[2] if len(item) > 2 else "")
        node = base.find_function(tree, cls or None, name, spec["source"])
        fs = base.function_source(lines, node)
        if qual not in [i["function"] for i in info]:
            info.append({"function": qual, "sha1": hashlib.sha1(fs.encode()).hexdigest(), "source": fs})
        fspec = spec.get("types", {}).get(key)
        if fspec is None:
            raise Unsupported("no typing for %s in the spec" % key)
        if fspec.get("mode") in ("guard", "body"):
            raise Unsupported("guard / body mode belongs to tools/py2coq.py (spec %s)" % key)
        fspec = copy.deepcopy(fspec)
        passes = []
        fn = range_from_zero(node, base.module_shadows(tree, cls))
        if fspec.get("counting_while"):
            fn = counting_while(fn, qual)
            passes.append("counting while -> for range")
        if fspec.get("unpack_pairs"):
            fn = unpack_pairs(fn, qual)
            passes.append("`a, b = f(...)` read through a local for the pair")
        if "alias_copies" in fspec:
            ac = fspec["alias_copies"]
            fn = alias_copies(fn, True if ac is True else list(ac), qual, base.module_shadows(tree, cls))
            passes.append("aliases read as copies (never modified while live)" + ("" if ac is True else ": " + ", ".join(ac)))
        if "stores" in fspec:
            fn, effs = stores(fn, fspec["stores"], qual, module_names)
            fspec["effects"] = list(fspec.get("effects", [])) + effs
            passes.append("attribute stores as events: " + ", ".join(sorted(fspec["stores"])))
        if "object_iadd" in fspec:
            fn = object_iadd(fn, list(fspec["object_iadd"]), qual)
            passes.append("`x += e` on the objects %s as the call x.__iadd__(e)" % ", ".join(fspec["object_iadd"]))
        if "inplace" in fspec:
            fn = inplace_calls(fn, list(fspec["inplace"]), qual)
            passes.append("`f(xs)` read as `xs = f(xs)` for the in-place callees %s" % ", ".join(fspec["inplace"]))
        if fspec.get("string_args"):
            fn = string_args(fn, qual)
            passes.append("string literal arguments folded into the callee's name")
        if "element_writes" in fspec:
            fn, lts = element_writes(fn, fspec["element_writes"], qual)
            fspec["local_types"] = dict(fspec.get("local_types", {}), **lts)
            fspec["returns"] = "list " + fspec["element_writes"]["type"]
            passes.append("write log of %s in `%s`" % (fspec["element_writes"]["field"], fspec["element_writes"]["loop"]))
        fresh_effects = list(fspec.pop("fresh_effects", []))
        for k in ("counting_while", "stores", "element_writes", "object_iadd", "inplace", "string_args", "alias_copies", "unpack_pairs"):
            fspec.pop(k, None)
        ft = SwarmTranslator(spec["module"], cls or None, name, fspec, fn, done)
        ft.shadowed_builtins = base.module_shadows(tree, cls)
        ft.shadowed_extra = eff.module_shadows_extra(tree, cls)
        for f in fresh_effects:                 # declared: the callee returns a NEW list object (it may be modified in place)
            if f not in ft.effects or ft.effects[f].ret is None or not base.is_list(ft.effects[f].ret):
                raise Unsupported("fresh_effects: %s is not a declared effect that returns a list" % f, node, qual)
            ft.fresh_oracles.add(f)
        if fresh_effects:
            passes.append("declared to return a new list object: " + ", ".join(fresh_effects))
        code = ft.translate()
        note = ""
        if passes:
            note += "\n(* source-to-source passes of tools/py2coq_swarm.py: %s *)" % "; ".join(passes).replace("*)", "* )")
        if ft.skipped:
            note += "\n(* NOT translated (designated by the spec; effects outside the result): %s *)" % "; ".join(
                "`%s` x%d" % (t.replace("*)", "* )"), c) for t, c in sorted(ft.skipped.items()))
        if ft.untracked_targets:
            note += "\n(* NOT translated: assignments of %s() to / appends to the untracked targets %s; print() *)" % (
                ", ".join(ft.untracked_sources) or "-", ", ".join(t.replace("*)", "* )") for t in ft.untracked_targets))
        parts.append("(* %s.%s, lines %d-%d of %s, sha1 %s *)%s\n%s" % (
            cls or "<module>", name, node.lineno, node.end_lineno, spec["source"], hashlib.sha1(fs.encode()).hexdigest(), note, code))
        helpers |= ft.ghelpers
        done[key] = ft
        LAST_TRANSLATORS[key] = ft
    head = ("(* GENERATED by tools/py2coq_swarm.py (front-end of tools/py2coq.py / py2coq_eff.py) from %s - never edit, never commit.\n"
            "   Shallow Gallina definitions of: %s. *)\n"
            "From Coq Require Import String.\nFrom Coq Require Import List ZArith Bool Arith Floats.\nImport ListNotations.\n\n"
            % (spec["source"], ", ".join(i["function"] for i in info)))
    head += eff.EFF_HELPERS["py_outcome"] + "\n\n"
    head += "".join(base.GLOBAL_HELPERS[h] + "\n\n" for h in sorted(helpers))
    return head + "\n\n".join(parts) + "\n", info


def main(argv):
    import argparse
    ap = argparse.ArgumentParser(description=__doc__.split("\n")[0])
    ap.add_argument("--repo", default=os.environ.get("VERIF_REPO", "/repo"))
    ap.add_argument("--spec", required=True)
    ap.add_argument("--out", default="-")
    ap.add_argument("--write-reference", metavar="DIR", default=None)
    a = ap.parse_args(argv)
    spec = json.load(open(a.spec))
    if a.write_reference:
        for i in function_infos(a.repo, spec):
            open(os.path.join(a.write_reference, i["function"] + ".py.txt"), "w").write(i["source"])
        return 0
    try:
        text, info = translate_spec(a.repo, spec)
    except Unsupported as e:
        sys.stderr.write("py2coq_swarm: %s\n" % e)
        return 2
    except SyntaxError as e:
        sys.stderr.write("py2coq_swarm: the source does not parse: %s\n" % e)
        return 2
    if a.out == "-":
        sys.stdout.write(text)
    else:
        open(a.out, "w").write(text)
    return 0


if __name__ == "__main__":
    sys.exit(main(sys.argv[1:]))
