#!/usr/bin/env python3
"""Differential self-test of the effects front-end tools/py2coq_eff.py (trusted: this is what backs it).

Synthetic functions that exercise every construct the front-end adds - try / except as a match on the outcome
of a raising effect (several handlers, tuples of classes, bare except, nested try, handlers that fall through to
the rest of the function), raise of a new exception / bare re-raise / `raise e`, exceptions that leave the function,
history-dependent effects, observable effects with a typed event log (also inside loops and branches), enumeration
constants, all() / any(), new objects with field assignments, method effects that set attributes, object arguments
passed by their current fields, volatile fields, untracked targets, print, abstracted loops - are run by CPython
against a SCRIPTED world (the k-th call of an effect answers / raises what the script says; every observable call
is logged); the generated definition is evaluated by Coq (`vm_compute`) with the same scripts as oracle functions
of the event log, and results (value or exception class, final values of the written attributes, event log) are
compared exactly (floats bit for bit).  A second list (REJECT) holds sources that MUST be rejected.

    /venv/bin/python tools/py2coq_eff_selftest.py      (exit 0 = all agree; needs coqc and /verif/coq built)
"""
import importlib.util
import math
import os
import random
import subprocess
import sys
import tempfile
from types import SimpleNamespace

HERE = os.path.dirname(os.path.abspath(__file__))
VERIF = os.path.dirname(HERE)


def _load(name):
    sp = importlib.util.spec_from_file_location(name, os.path.join(HERE, name + ".py"))
    m = importlib.util.module_from_spec(sp)
    sys.modules[name] = m
    sp.loader.exec_module(m)
    return m


py2coq = _load("py2coq")
eff = py2coq._frontend("eff")

SRC = '''
import sys
import time


class St:
    A = 0
    B = 1
    C = 2


class Obj:
    def __init__(self, vec):
        self.id, self.state, self.vec, self.flag, self.costs = -1, St.A, list(vec), False, []
        self.features = {"t0": 0.0}


def retry(p, world, n):
    if p.state == St.C:
        return
    for i in range(n):
        p.features["t0"] = time.time()
        t_s = time.time()
        p.state = St.B
        lim = 0.5
        if len(p.vec) > 1:
            p.flag = all(v < lim for (v) in p.vec)
        try:
            ys = world.compute(p)
            p.vec = ys
            if world is not None:
                p.digest(world.k)
            p.state = St.C
            world.store(p)
            return
        except (TimeoutError, RuntimeError) as e:
            print("failed:", e)
            q = Obj(p.vec)
            q.state = St.A
            q.flag = True
            world.failed.append(q)
            p.vec = world.draw(world.box)
            continue
        except KeyError:
            p.flag = False
            print("unexpected", sys.exc_info()[0])
            raise
    raise ValueError("too many failures")


def guarded(x, world):
    total = x
    try:
        a = world.f(x)
        total = total + a
        b = world.g(total)
        total = total + b
    except LookupError:
        total = -1.0
    except ValueError as err:
        raise
    total = total * 2.0
    return total


def nested(x, world):
    try:
        try:
            a = world.f(x)
        except KeyError:
            a = 0.5
            raise RuntimeError("inner")
        except TimeoutError as t:
            raise t
        return a
    except RuntimeError:
        return -2.0


def leaves(x, world, up):
    y = world.f(x)
    if up:
        if y > 1.0:
            raise OverflowError
        z = world.g(y)
        return z
    world.note(y)
    return y


def quant(xs, lo, hi):
    if all(lo < v for v in xs):
        return any(v > hi for v in xs)
    return any([v == lo for v in xs])


def scan(ps, world):
    for p in ps:
        if p.state == St.A:
            p.costs.append(world.job(p))


class Box:
    def whole(self, ps):
        self.pre(ps)
        for p in ps:
            s = 0.0
            for c in p.vec:
                s += c
            p.total = s
        self.items = []
        self.count = self.count + len(ps)


class Base:
    def prepare(self, ps):
        self.log.append((6, [], [p.id for p in ps]))


class Box2(Base):
    def flow(self, ps):
        t0 = time.time()
        super().prepare(ps)
        conn = self.open()
        cur = conn.cursor()
        for p in ps:
            cur.put(self.tag, [p.id, dumps(p.vec)])
        conn.close()
        t = time.time() - t0
        self.logger.info("took {} s for {}".format(t, self.tag))
        if self.mode == 'w' or self.mode == 'rw':
            self.count = self.count + 1

    def submit_all(self, items):
        Parallel(n_jobs=self.n, verbose=1)(delayed(self.job)(x) for x in items if x.state == St.A if x.flag)


def branchy(x, world, flag):
    out = 0.0
    if flag:
        world.note(x)
        out = world.h(x)
    else:
        out = x
    for k in range(2):
        if out > 1.0:
            world.note(out)
            out = out - 1.0
    if flag and world.h(out) > 0.5:
        out = out + 0.25
    return out
'''

REJECT = {
    "finally": "def f(x, world):\n    try:\n        a = world.f(x)\n    except KeyError:\n        a = 0.0\n    finally:\n        world.note(x)\n    return a\n",
    "try_else": "def f(x, world):\n    try:\n        a = world.f(x)\n    except KeyError:\n        a = 0.0\n    else:\n        a = 1.0\n    return a\n",
    "loop_raises_in_try": "def f(x, world):\n    a = 0.0\n    try:\n        for k in range(3):\n            a = world.f(a)\n    except KeyError:\n        a = 0.0\n    return a\n",
    "index_in_try": "def f(x, world, xs):\n    try:\n        a = world.f(xs[2])\n    except KeyError:\n        a = 0.0\n    return a\n",
    "effect_in_or": "def f(x, world):\n    if x > 0.0 or world.f(x) > 1.0:\n        return 1.0\n    return 0.0\n",
    "effect_in_lambda": "def f(x, world, xs):\n    ys = [world.h(v) for v in xs]\n    return x\n",
    "effect_in_ifexp": "def f(x, world):\n    return world.h(x) if x > 0.0 else x\n",
    "break_under_try": "def f(x, world):\n    for k in range(3):\n        try:\n            x = world.f(x)\n        except KeyError:\n            break\n    return x\n",
    "event_in_while": "def f(x, world):\n    while x > 0.0:\n        world.note(x)\n        x = x - 1.0\n    return x\n",
    "bare_raise_outside": "def f(x, world):\n    if x > 0.0:\n        raise\n    return x\n",
    "raise_computed": "def f(x, world):\n    raise ValueError(x)\n",
    "raise_from": "def f(x, world):\n    try:\n        a = world.f(x)\n    except KeyError as e:\n        raise ValueError('x') from e\n    return a\n",
    "print_call": "def f(x, world):\n    print(world.h(x))\n    return x\n",
    "except_computed_class": "def f(x, world):\n    try:\n        a = world.f(x)\n    except world.errors:\n        a = 0.0\n    return a\n",
    "bare_except_first": "def f(x, world):\n    try:\n        a = world.f(x)\n    except:\n        a = 0.0\n    return a\ndef g(x, world):\n    pass\n",
    "uncaught_without_raises": "NORAISE\ndef f(x, world):\n    a = world.f(x)\n    return a\n",
    "owned_after_escape": "def f(x, world):\n    q = Obj(world.box)\n    world.failed.append(q)\n    q.flag = True\n    return x\n",
    "untracked_read": "def f(x, world):\n    t_s = time.time()\n    return x + t_s\n",
    "untracked_other_source": "def f(x, world):\n    t_s = x\n    return x\n",
    "sets_effect_as_value": "def f(x, world, p):\n    y = p.digest(x)\n    return x\n",
    "with_in_try": "def f(x, world):\n    try:\n        with world.lock:\n            a = world.f(x)\n    except KeyError:\n        a = 0.0\n    return a\n",
    "try_in_loop_in_try": "def f(x, world):\n    try:\n        for k in range(2):\n            try:\n                x = world.f(x)\n            except KeyError:\n                x = 0.0\n    except ValueError:\n        x = 1.0\n    return x\n",
    "all_with_condition": "def f(x, world, xs):\n    return all(v > x for v in xs if v > 0.0)\n",
    "keyword_to_effect": "def f(x, world):\n    return world.h(x=x)\n",
    "untracked_mixed_expr": "def f(x, world):\n    t_s = time.time() - x\n    return x\n",
    "silent_with_effect_arg": "SILENT\ndef f(x, world):\n    world.log(world.h(x))\n    return x\n",
    "super_rebound": "def f(x, world):\n    super = world\n    return world.h(x)\n",
}
del REJECT["bare_except_first"]          # (a bare except as the only handler is legal; kept out of the list)

OBJ_REC = {"ob": {"id": "nat", "state": "nat", "vec": "list T", "flag": "bool", "total": "T"}}
CONSTS = {"St.A": "nat", "St.B": "nat", "St.C": "nat"}
WORLD_EFFECTS = [
    {"call": "world.f", "args": ["T"], "returns": "T", "raises": True, "history": True, "event": True},
    {"call": "world.g", "args": ["T"], "returns": "T", "raises": True, "history": True, "event": True},
    {"call": "world.h", "args": ["T"], "returns": "T", "history": True, "event": True},
    {"call": "world.note", "args": ["T"], "event": True},
]
TYPES = {
    "retry": {"returns": "none", "raises": True, "records": OBJ_REC, "opaque": ["B"],
              "params": {"p": "ob", "world": "obj", "n": "nat"}, "constants": CONSTS,
              "attrs": [["world.k", "T"], ["world.box", "B"], ["world.failed", "list ob"]],
              "writes": [["p.state", "nat"], ["p.vec", "list T"], ["p.flag", "bool"], ["p.total", "T"], ["world.failed", "list ob"]],
              "fixed": {"world": "not None"},
              "untracked": {"targets": ["p.features[\"t0\"]", "t_s"], "sources": ["time.time"]},
              "effects": [
                  {"call": "world.compute", "args": [{"fields_of": "ob", "fields": ["vec"]}], "returns": "list T",
                   "raises": True, "history": True, "event": True},
                  {"call": "p.digest", "args": ["T"], "self_fields": ["vec", "flag"], "sets": ["p.total"]},
                  {"call": "world.store", "args": [{"fields_of": "ob", "fields": ["vec", "state", "flag", "total"]}], "event": True},
                  {"call": "Obj", "args": ["list T"], "returns": "ob", "new": True},
                  {"call": "world.draw", "args": ["B"], "returns": "list T", "history": True}]},
    "guarded": {"returns": "T", "raises": True, "params": {"x": "T", "world": "obj"}, "effects": WORLD_EFFECTS},
    "nested": {"returns": "T", "raises": True, "params": {"x": "T", "world": "obj"}, "effects": WORLD_EFFECTS},
    "leaves": {"returns": "T", "raises": True, "params": {"x": "T", "world": "obj", "up": "bool"}, "effects": WORLD_EFFECTS},
    "quant": {"returns": "bool", "params": {"xs": "list T", "lo": "T", "hi": "T"}},
    "scan": {"returns": "none", "raises": True, "records": OBJ_REC, "params": {"ps": "list ob", "world": "obj"},
             "constants": CONSTS, "volatile": {"ob": ["state"]}, "untracked": {"targets": ["p.costs"], "sources": []},
             "effects": [{"call": "world.job", "args": [{"fields_of": "ob", "fields": ["id"]}], "raises": True,
                          "history": True, "event": True}]},
    "whole": {"returns": "none", "records": OBJ_REC, "params": {"ps": "list ob"},
              "attrs": [["self.count", "nat"]], "writes": [["self.items", "list ob"], ["self.count", "nat"]],
              "abstract_loops": {"for p in ps": "sum"},
              "effects": [{"call": "self.pre", "args": ["list ob"], "event": True}]},
    "branchy": {"returns": "T", "params": {"x": "T", "world": "obj", "flag": "bool"}, "effects": WORLD_EFFECTS},
    "flow": {"returns": "none", "raises": True, "records": OBJ_REC, "opaque": ["CONN", "CUR", "ROW"],
             "params": {"ps": "list ob"}, "attrs": [["self.tag", "T"], ["self.count", "nat"]], "writes": [["self.count", "nat"]],
             "flags": {"self.mode == 'w' or self.mode == 'rw'": "writable"},
             "terms": {"[p.id, dumps(p.vec)]": {"name": "row", "args": ["p"], "type": "ROW"}},
             "untracked": {"targets": ["t0", "t"], "sources": ["time.time"]}, "silent": ["self.logger.info"],
             "effects": [{"call": "super().prepare", "args": ["list ob"], "event": True},
                         {"call": "self.open", "args": [], "returns": "CONN", "history": True, "event": True},
                         {"call": "<CONN>.cursor", "receiver": "CONN", "args": [], "returns": "CUR"},
                         {"call": "<CUR>.put", "receiver": "CUR", "args": ["T", "ROW"], "raises": True, "history": True, "event": True},
                         {"call": "<CONN>.close", "receiver": "CONN", "args": [], "event": True}]},
    "submit_all": {"returns": "none", "records": OBJ_REC, "params": {"items": "list ob"}, "constants": CONSTS,
                   "submit": {"pool": "Parallel", "wrap": "delayed", "call": "self.job", "config": "n_jobs=self.n, verbose=1"}},
}
CLS = {"whole": "Box", "flow": "Box2", "submit_all": "Box2"}

GRID = [0.0, -0.0, 1.0, 2.0, 0.5, 1.5, -1.0, 3.0, 0.25, 0.1, 2.5, -2.5]
EXC_CODE = {"TimeoutError": 1, "RuntimeError": 2, "KeyError": 3, "ValueError": 4, "IndexError": 5, "OverflowError": 6}
EXC_CLS = {1: TimeoutError, 2: RuntimeError, 3: KeyError, 4: ValueError, 5: IndexError, 6: OverflowError}
# isinstance(e, <class named c>) for the codes above (LookupError: KeyError, IndexError; Exception: all)
ISINST = ("(fun (e : nat) (c : String.string) => "
          "if String.eqb c \"TimeoutError\" then Nat.eqb e 1 else if String.eqb c \"RuntimeError\" then Nat.eqb e 2 else "
          "if String.eqb c \"KeyError\" then Nat.eqb e 3 else if String.eqb c \"ValueError\" then Nat.eqb e 4 else "
          "if String.eqb c \"IndexError\" then Nat.eqb e 5 else if String.eqb c \"OverflowError\" then Nat.eqb e 6 else "
          "if String.eqb c \"LookupError\" then orb (Nat.eqb e 3) (Nat.eqb e 5) else String.eqb c \"Exception\")")
NEW_EXC = ("(fun c : String.string => if String.eqb c \"TimeoutError\" then 1 else if String.eqb c \"RuntimeError\" then 2 else "
           "if String.eqb c \"KeyError\" then 3 else if String.eqb c \"ValueError\" then 4 else if String.eqb c \"IndexError\" then 5 "
           "else if String.eqb c \"OverflowError\" then 6 else 0)%nat")


def fl(x):
    h = float(x).hex()
    return "(%s)" % h if h.startswith("-") else h


def lf(xs):
    return "[" + "; ".join(fl(x) for x in xs) + "]"


def ln(xs):
    return "[" + "; ".join("%d%%nat" % x for x in xs) + "]"


def bl(b):
    return "true" if b else "false"


def obj_term(o):
    return "(%d%%nat, %d%%nat, %s, %s, %s)" % (o.id, o.state, lf(o.vec), bl(o.flag), fl(getattr(o, "total", 0.0)))


def ev_term(e):
    return "(%d%%nat, %s, %s)" % (e[0], lf(e[1]), ln(e[2]))


def out_script(s):
    """[('v', x) | ('e', code)] -> Coq list of py_outcome float nat"""
    return "[" + "; ".join("PyVal %s" % (fl(x) if not isinstance(x, list) else lf(x)) if k == "v" else "(PyExc %d%%nat)" % x
                           for k, x in s) + "]"


PRELUDE = [
    "From Coq Require Import String.", "From Coq Require Import List ZArith Bool Arith Floats.",
    "From Artap Require Import Base.FloatInst.", "From ArtapGen Require Import EffSelf.", "Import ListNotations.",
    "Open Scope float_scope.",
    "Fixpoint leqb {A} (e : A -> A -> bool) (a b : list A) : bool := match a, b with [] , [] => true "
    "| x :: a', y :: b' => e x y && leqb e a' b' | _, _ => false end.",
    "Definition peqb {A B} (ea : A -> A -> bool) (eb : B -> B -> bool) (a b : A * B) : bool := ea (fst a) (fst b) && eb (snd a) (snd b).",
    "Definition outeqb {A} (ea : A -> A -> bool) (a b : py_outcome A nat) : bool := match a, b with PyVal x, PyVal y => ea x y "
    "| PyExc x, PyExc y => Nat.eqb x y | _, _ => false end.",
    "Definition ueqb (a b : unit) := true.",
    "Definition EV := (nat * list float * list nat)%type.",
    "Definition ev_eqb : EV -> EV -> bool := peqb (peqb Nat.eqb (leqb fbits_eqb)) (leqb Nat.eqb).",
    "Definition OBJ := (nat * nat * list float * bool * float)%type.",
    "Definition obj_eqb : OBJ -> OBJ -> bool := peqb (peqb (peqb (peqb Nat.eqb Nat.eqb) (leqb fbits_eqb)) Bool.eqb) fbits_eqb.",
    "Definition o_id (o : OBJ) := fst (fst (fst (fst o))).", "Definition o_state (o : OBJ) := snd (fst (fst (fst o))).",
    "Definition o_vec (o : OBJ) := snd (fst (fst o)).", "Definition o_flag (o : OBJ) := snd (fst o).",
    "Definition o_total (o : OBJ) := snd o.",
    "Definition count (tag : nat) (log : list EV) : nat := length (filter (fun e => Nat.eqb (fst (fst e)) tag) log).",
    "Definition script {A} (s : list A) (d : A) (k : nat) : A := nth k s d.",
    "Definition b2n (b : bool) : nat := if b then 1 else 0.",
]


class World:
    """the scripted outside world of one case: every effect answers by its script, indexed by the number of
    earlier calls of the same effect; observable calls are logged as (tag, floats, naturals)"""

    def __init__(self, rng):
        self.rng, self.log, self.n = rng, [], {}

    def nth(self, name, script, default):
        k = self.n.get(name, 0)
        self.n[name] = k + 1
        return script[k] if k < len(script) else default

    def answer(self, item):
        if item[0] == "e":
            raise EXC_CLS[item[1]]()
        return item[1]


def rnd_script(rng, codes, length, vec=False):
    out = []
    for _ in range(length):
        if rng.random() < 0.45:
            out.append(("e", rng.choice(codes)))
        else:
            out.append(("v", [rng.choice(GRID) for _ in range(rng.randrange(3))] if vec else rng.choice(GRID)))
    return out


def case_retry(ns, rng):
    w = World(rng)
    sc = rnd_script(rng, [1, 2, 2, 3, 4], 4, vec=True)
    draws = [[rng.choice(GRID) for _ in range(rng.randrange(3))] for _ in range(4)]
    k = rng.choice(GRID)
    p = ns["Obj"]([rng.choice(GRID) for _ in range(rng.randrange(4))])
    p.id, p.state, p.flag, p.total = 7, rng.choice([0, 0, 1, 2]), rng.random() < 0.5, rng.choice(GRID)
    p0 = obj_term(p)
    n = rng.choice([0, 1, 2, 3, 5])
    failed0 = [ns["Obj"]([1.0])]
    failed0[0].id, failed0[0].total = 3, 0.0
    ncomp = [0]

    def compute(q):
        w.log.append((1, list(q.vec), []))
        ncomp[0] += 1
        return w.answer(w.nth("compute", sc, ("v", [9.0])))

    def store(q):
        w.log.append((2, list(q.vec) + [q.total], [q.state, int(q.flag)]))

    def digest(kk):
        p.total = (p.vec[0] if p.vec else 0.0) * kk + (1.0 if p.flag else 0.0)
    p.digest = digest
    world = SimpleNamespace(compute=compute, store=store, k=k, box="box", failed=list(failed0),
                            draw=lambda box: draws[ncomp[0] - 1] if ncomp[0] - 1 < len(draws) else [])
    new_objs = []
    real_obj = ns["Obj"]

    def mk(v):
        o = real_obj(v)
        o.total = 0.0
        new_objs.append(o)
        return o
    ns["Obj_saved"] = real_obj
    ns["Obj"] = mk
    try:
        try:
            ns["retry"](p, world, n)
            out = "(PyVal tt)"
        except tuple(EXC_CLS.values()) as e:
            out = "(PyExc %d%%nat)" % EXC_CODE[type(e).__name__]
    finally:
        ns["Obj"] = real_obj
    for o in world.failed:
        if o.id == -1:
            o.id = 0
    iface = {
        "o_world_compute": "(fun (log : list EV) (v : list float) => script %s (PyVal [0x1.2p+3]) (pred (count 1 log)))" % out_script(sc),
        "o_world_draw": "(fun (log : list EV) (_ : unit) => script %s [] (pred (count 1 log)))" % ("[" + "; ".join(lf(d) for d in draws) + "]"),
        "o_p_digest": "(fun (kk : float) (v : list float) (f : bool) => (match v with a :: _ => a | [] => 0 end) * kk + (if f then 1 else 0))",
        "o_Obj": "(fun v : list float => (0%nat, 0%nat, v, false, 0))",
        "ev_world_compute": "(fun v : list float => (1%nat, v, @nil nat))",
        "ev_world_store": "(fun (v : list float) (s : nat) (f : bool) (t : float) => (2%nat, v ++ [t], [s; b2n f]))",
        "s_ob_state": "(fun (o : OBJ) (s : nat) => (o_id o, s, o_vec o, o_flag o, o_total o))",
        "s_ob_flag": "(fun (o : OBJ) (f : bool) => (o_id o, o_state o, o_vec o, f, o_total o))",
    }
    exp = "(%s, %d%%nat, %s, %s, %s, [%s], [%s])" % (out, p.state, lf(p.vec), bl(p.flag), fl(p.total),
                                                      "; ".join(obj_term(o) for o in world.failed),
                                                      "; ".join(ev_term(e) for e in w.log))
    eq = "(peqb (peqb (peqb (peqb (peqb (peqb (outeqb ueqb) Nat.eqb) (leqb fbits_eqb)) Bool.eqb) fbits_eqb) (leqb obj_eqb)) (leqb ev_eqb))"
    args = [p0, "%d%%nat" % n, fl(k), "tt", "[%s]" % "; ".join(obj_term(o) for o in failed0)]
    return iface, args, exp, eq, {"B": "unit"}


def world_fgh(rng):
    w = World(rng)
    sf, sg = rnd_script(rng, [1, 2, 3, 4, 5], 2), rnd_script(rng, [3, 4, 5, 6], 2)
    sh = [rng.choice(GRID) for _ in range(3)]

    def f(x):
        w.log.append((1, [x], []))
        return w.answer(w.nth("f", sf, ("v", 0.0)))

    def g(x):
        w.log.append((2, [x], []))
        return w.answer(w.nth("g", sg, ("v", 0.0)))

    def h(x):
        w.log.append((3, [x], []))
        return w.nth("h", sh, 0.0)

    def note(x):
        w.log.append((4, [x], []))
    iface = {
        "o_world_f": "(fun (log : list EV) (x : float) => script %s (PyVal 0) (pred (count 1 log)))" % out_script(sf),
        "o_world_g": "(fun (log : list EV) (x : float) => script %s (PyVal 0) (pred (count 2 log)))" % out_script(sg),
        "o_world_h": "(fun (log : list EV) (x : float) => script %s 0 (pred (count 3 log)))" % lf(sh),
        "ev_world_f": "(fun x : float => (1%nat, [x], @nil nat))", "ev_world_g": "(fun x : float => (2%nat, [x], @nil nat))",
        "ev_world_h": "(fun x : float => (3%nat, [x], @nil nat))", "ev_world_note": "(fun x : float => (4%nat, [x], @nil nat))",
    }
    return w, SimpleNamespace(f=f, g=g, h=h, note=note), iface


def run_value(fn, args, w, total=False):
    try:
        r = fn(*args)
        out = fl(r) if total else "(PyVal %s)" % fl(r)
    except tuple(EXC_CLS.values()) as e:
        out = "(PyExc %d%%nat)" % EXC_CODE[type(e).__name__]
    return "(%s, [%s])" % (out, "; ".join(ev_term(e) for e in w.log))


def case_guarded(ns, rng):
    w, world, iface = world_fgh(rng)
    x = rng.choice(GRID)
    return iface, [fl(x)], run_value(ns["guarded"], (x, world), w), "(peqb (outeqb fbits_eqb) (leqb ev_eqb))", {}


def case_nested(ns, rng):
    w, world, iface = world_fgh(rng)
    x = rng.choice(GRID)
    return iface, [fl(x)], run_value(ns["nested"], (x, world), w), "(peqb (outeqb fbits_eqb) (leqb ev_eqb))", {}


def case_leaves(ns, rng):
    w, world, iface = world_fgh(rng)
    x, up = rng.choice(GRID), rng.random() < 0.6
    return iface, [fl(x), bl(up)], run_value(ns["leaves"], (x, world, up), w), "(peqb (outeqb fbits_eqb) (leqb ev_eqb))", {}


def case_branchy(ns, rng):
    w, world, iface = world_fgh(rng)
    x, flag = rng.choice(GRID), rng.random() < 0.5
    return iface, [fl(x), bl(flag)], run_value(ns["branchy"], (x, world, flag), w, total=True), "(peqb fbits_eqb (leqb ev_eqb))", {}


def case_quant(ns, rng):
    xs = [rng.choice(GRID) for _ in range(rng.randrange(4))]
    lo, hi = rng.choice(GRID), rng.choice(GRID)
    return {}, [lf(xs), fl(lo), fl(hi)], bl(ns["quant"](xs, lo, hi)), "Bool.eqb", {}


def case_scan(ns, rng):
    w = World(rng)
    objs = []
    for i in range(rng.randrange(1, 4)):
        o = ns["Obj"]([])
        o.id, o.state, o.total = i, rng.choice([0, 0, 1, 2]), 0.0
        objs.append(o)
    ps = [rng.choice(objs) for _ in range(rng.randrange(5))]      # the same object may occur twice
    sj = [("e", rng.choice([2, 4])) if rng.random() < 0.2 else ("v", 0.0) for _ in range(5)]
    init = {o.id: o.state for o in objs}
    terms = "[%s]" % "; ".join(obj_term(o) for o in ps)

    def job(q):
        w.log.append((1, [], [q.id]))
        r = w.nth("job", sj, ("v", 0.0))
        if r[0] == "e":
            q.state = 1
            raise EXC_CLS[r[1]]()
        q.state = 2
        return None
    world = SimpleNamespace(job=job)
    try:
        ns["scan"](ps, world)
        out = "(PyVal tt)"
    except tuple(EXC_CLS.values()) as e:
        out = "(PyExc %d%%nat)" % EXC_CODE[type(e).__name__]
    # the state of an object after the events so far: its initial state unless a job ran on it
    iface = {
        "f_ob_state": "(fun (log : list EV) (o : OBJ) => if existsb (fun e => Nat.eqb (hd 99%nat (snd e)) (o_id o)) log then 2%nat else o_state o)",
        "ev_world_job": "(fun i : nat => (1%nat, @nil float, [i]))",
        "o_world_job": "(fun (log : list EV) (i : nat) => script %s (PyVal tt) (pred (count 1 log)))"
                       % ("[" + "; ".join("PyVal tt" if k == "v" else "(PyExc %d%%nat)" % x for k, x in sj) + "]"),
    }
    exp = "(%s, [%s])" % (out, "; ".join(ev_term(e) for e in w.log))
    return iface, [terms], exp, "(peqb (outeqb ueqb) (leqb ev_eqb))", {}


def case_whole(ns, rng):
    ps = []
    for i in range(rng.randrange(4)):
        o = ns["Obj"]([rng.choice(GRID) for _ in range(rng.randrange(3))])
        o.id, o.total = i, 0.0
        ps.append(o)
    terms = "[%s]" % "; ".join(obj_term(o) for o in ps)
    log = []
    me = SimpleNamespace(pre=lambda qs: log.append((1, [], [q.id for q in qs])), items=list(ps), count=rng.randrange(3))
    c0 = me.count
    ns["Box"].whole(me, ps)
    # the abstracted loop: one event per element, in order
    exp_log = log + [(2, [], [q.id]) for q in ps]
    iface = {"ev_self_pre": "(fun qs : list OBJ => (1%nat, @nil float, map o_id qs))",
             "ev_loop_sum": "(fun q : OBJ => (2%nat, @nil float, [o_id q]))"}
    exp = "([%s], %d%%nat, [%s])" % ("; ".join(obj_term(o) for o in me.items), me.count, "; ".join(ev_term(e) for e in exp_log))
    return iface, [terms, "%d%%nat" % c0], exp, "(peqb (peqb (leqb obj_eqb) Nat.eqb) (leqb ev_eqb))", {}


def case_flow(ns, rng):
    ps = []
    for i in range(rng.randrange(4)):
        o = ns["Obj"]([rng.choice(GRID) for _ in range(rng.randrange(3))])
        o.id, o.total = i, 0.0
        ps.append(o)
    terms = "[%s]" % "; ".join(obj_term(o) for o in ps)
    log, nput = [], [0]
    sp = [("e", rng.choice([2, 4])) if rng.random() < 0.25 else ("v", 0.0) for _ in range(4)]
    cid = rng.randrange(5)
    tag, mode, c0 = rng.choice(GRID), rng.choice(["w", "rw", "r"]), rng.randrange(3)

    class Cur:
        def put(self, tg, row):
            log.append((7, [tg] + list(ns["loads"](row[1])), [cid + 100, row[0]]))
            r = sp[nput[0]] if nput[0] < len(sp) else ("v", 0.0)
            nput[0] += 1
            if r[0] == "e":
                raise EXC_CLS[r[1]]()
    conn = SimpleNamespace(cursor=lambda: Cur(), close=lambda: log.append((8, [], [cid])))
    me = ns["Box2"]()
    me.log, me.tag, me.mode, me.count = log, tag, mode, c0
    me.open = lambda: (log.append((9, [], [])), conn)[1]
    me.logger = SimpleNamespace(info=lambda *a: None)
    try:
        me.flow(ps)
        out = "(PyVal tt)"
    except tuple(EXC_CLS.values()) as e:
        out = "(PyExc %d%%nat)" % EXC_CODE[type(e).__name__]
    iface = {
        "t_row": "(fun (log : list EV) (p : OBJ) => (o_id p, o_vec p))",
        "ev_super_prepare": "(fun qs : list OBJ => (6%nat, @nil float, map o_id qs))",
        "ev_self_open": "(9%nat, @nil float, @nil nat)",
        "ev_CUR_put": "(fun (c : nat) (tg : float) (r : nat * list float) => (7%nat, tg :: snd r, [c; fst r]))",
        "ev_CONN_close": "(fun c : nat => (8%nat, @nil float, [c]))",
        "o_self_open": "(fun log : list EV => %d%%nat)" % cid,
        "o_CONN_cursor": "(fun c : nat => (c + 100)%nat)",
        "o_CUR_put": "(fun (log : list EV) (c : nat) (tg : float) (r : nat * list float) => script %s (PyVal tt) (pred (count 7 log)))"
                     % ("[" + "; ".join("PyVal tt" if k == "v" else "(PyExc %d%%nat)" % x for k, x in sp) + "]"),
    }
    exp = "(%s, %d%%nat, [%s])" % (out, me.count, "; ".join(ev_term(e) for e in log))
    return iface, [terms, fl(tag), "%d%%nat" % c0, bl(mode in ("w", "rw"))], exp, "(peqb (peqb (outeqb ueqb) Nat.eqb) (leqb ev_eqb))", \
        {"CONN": "nat", "CUR": "nat", "ROW": "(nat * list float)%type"}


def case_submit(ns, rng):
    items = []
    for i in range(rng.randrange(5)):
        o = ns["Obj"]([])
        o.id, o.state, o.flag, o.total = i, rng.choice([0, 0, 1, 2]), rng.random() < 0.7, 0.0
        items.append(o)
    terms = "[%s]" % "; ".join(obj_term(o) for o in items)
    got = []
    ns["Parallel"] = lambda **kw: (lambda gen: got.append([a[0].id for (f, a) in gen]))
    ns["delayed"] = lambda f: (lambda *a: (f, a))
    me = ns["Box2"]()
    me.n, me.job = 2, (lambda x: None)
    me.submit_all(items)
    iface = {"ev_submit": "(fun qs : list OBJ => (5%nat, @nil float, map o_id qs))"}
    exp = "[%s]" % "; ".join(ev_term((5, [], g)) for g in got)
    return iface, [terms], exp, "(leqb ev_eqb)", {}


CASES = {"flow": case_flow, "submit_all": case_submit, "retry": case_retry, "guarded": case_guarded, "nested": case_nested, "leaves": case_leaves, "quant": case_quant,
         "scan": case_scan, "whole": case_whole, "branchy": case_branchy}
BASE_IFACE = {"ltb": "PrimFloat.ltb", "leb": "PrimFloat.leb", "eqb": "PrimFloat.eqb", "add": "PrimFloat.add",
              "sub": "PrimFloat.sub", "mul": "PrimFloat.mul", "div": "PrimFloat.div", "neg": "PrimFloat.opp",
              "absT": "PrimFloat.abs", "isinst": ISINST, "new_exc": NEW_EXC,
              "f_ob_id": "o_id", "f_ob_state": "o_state", "f_ob_vec": "o_vec", "f_ob_flag": "o_flag", "f_ob_total": "o_total",
              "k_St_A": "0%nat", "k_St_B": "1%nat", "k_St_C": "2%nat"}
TVARS = {"ob": "OBJ", "exc": "nat", "ev": "EV"}


def main():
    rng = random.Random(0)
    work = tempfile.mkdtemp(prefix="py2coq_eff_selftest_")
    os.makedirs(os.path.join(work, "pkg"))
    src = SRC
    open(os.path.join(work, "pkg", "m.py"), "w").write(src)
    functions, types = [], {}
    for f, ty in TYPES.items():
        functions.append([CLS.get(f, ""), f])
        types[(CLS[f] + "." if f in CLS else "") + f] = dict(ty, **{"as": f + "_gen"})
    spec = {"source": "pkg/m.py", "module": "EffSelf", "frontend": "eff", "functions": functions, "types": types}
    text, _ = eff.translate_spec(work, spec)
    open(os.path.join(work, "EffSelf.v"), "w").write(text)
    import json as _json
    ns = {"sys": sys, "print": lambda *a, **k: None, "dumps": _json.dumps, "loads": _json.loads}
    if os.environ.get("EFF_SELFTEST_FAULT"):
        # fault injection: CPython runs a slightly different source than the one translated; the comparison must notice
        for old, new in [("            continue\n", "            p.flag = not p.flag\n            continue\n"), ("total * 2.0", "total * 2.5"),
                         ("a = 0.5", "a = 0.75"), ("if y > 1.0:", "if y >= 1.0:"), ("lo < v for v", "lo <= v for v"),
                         ("if p.state == St.A:", "if p.state != St.C:"), ("self.items = []", "self.items = ps[:1]"),
                         ("out = out - 1.0", "out = out - 1.5"), ("if x.state == St.A if x.flag", "if x.state == St.A"),
                         ("        conn.close()\n", "        conn.close()\n        conn.close()\n")]:
            assert old in src
            src = src.replace(old, new)
    exec(compile(src, "m.py", "exec"), ns)
    lines = list(PRELUDE)
    n_cases, n_exc = 0, 0
    for f, drive in CASES.items():
        tr = eff.LAST_TRANSLATORS[(CLS[f] + "." if f in CLS else "") + f]
        for _ in range(150):
            iface, args, exp, eq, tv = drive(ns, rng)
            if "nan" in exp:
                continue
            terms = (["float"] if tr.uses_T else []) + [dict(TVARS, **tv)[nm] for nm in tr.tvars]
            for nm, _ty in tr.iface():
                if nm in iface:
                    terms.append(iface[nm])
                elif nm in BASE_IFACE:
                    terms.append(BASE_IFACE[nm])
                elif nm.startswith("c_"):
                    terms.append("(%s)" % float(dict(tr.consts)[nm]).hex())
                else:
                    raise SystemExit("no term for the interface member %s of %s" % (nm, f))
            n_exc += "PyExc" in exp
            lines.append("Eval vm_compute in (%s (@%s_gen %s) %s). (* %s *)" % (eq, f, " ".join(terms + args), exp, f))
            n_cases += 1
    open(os.path.join(work, "cases.v"), "w").write("\n".join(lines) + "\n")
    flags = ["-Q", os.path.join(VERIF, "coq", "theories"), "Artap", "-Q", work, "ArtapGen", "-w", "-inexact-float,-notation-overridden"]
    for fn in ("EffSelf.v", "cases.v"):
        pr = subprocess.run(["coqc"] + flags + [os.path.join(work, fn)], capture_output=True, text=True, timeout=900)
        if pr.returncode != 0:
            print("coqc failed on", fn, pr.stderr[-3000:])
            return 1
    outs = [l.strip() for l in pr.stdout.split("\n") if l.strip().startswith("= ")]
    bad = [i for i, o in enumerate(outs) if o != "= true"]
    print("positive: %d cases on %d functions (%d end with an exception), %d disagreements" % (n_cases, len(CASES), n_exc, len(bad)))
    evals = [l for l in lines if l.startswith("Eval")]
    for i in bad[:6]:
        print("  DISAGREE:", evals[i][-900:])
    if len(outs) != n_cases:
        print("  expected %d results, got %d" % (n_cases, len(outs)))
        return 1
    missed = []
    for name, s in REJECT.items():
        d = tempfile.mkdtemp(prefix="py2coq_eff_rej_")
        os.makedirs(os.path.join(d, "pkg"))
        raises = not s.startswith("NORAISE\n")
        silent = s.startswith("SILENT\n")
        s = s.replace("NORAISE\n", "").replace("SILENT\n", "")
        open(os.path.join(d, "pkg", "m.py"), "w").write("import time\n" + s)
        import ast as _ast
        fn = [n for n in _ast.parse(s).body if isinstance(n, _ast.FunctionDef)][0]
        ptypes = {"x": "T", "world": "obj", "xs": "list T", "p": "obj2"}
        ty = {"returns": "T", "raises": raises, "records": {"obj2": {"flag": "bool", "total": "T"}}, "opaque": ["B"],
              "params": {a.arg: ptypes[a.arg] for a in fn.args.args},
              "attrs": [["world.box", "list T"], ["world.failed", "list obj2"]], "writes": [["world.failed", "list obj2"], ["p.total", "T"]],
              "untracked": {"targets": ["t_s"], "sources": ["time.time"]}, "silent": ["world.log"] if silent else [],
              "effects": WORLD_EFFECTS + [{"call": "Obj", "args": ["list T"], "returns": "obj2", "new": True},
                                          {"call": "p.digest", "args": ["T"], "self_fields": ["flag"], "sets": ["p.total"]}]}
        if "p" not in ty["params"]:
            ty["writes"] = [["world.failed", "list obj2"]]
            ty["effects"] = ty["effects"][:-1]
        try:
            py2coq.translate_spec(d, {"source": "pkg/m.py", "module": "R", "frontend": "eff", "functions": [["", "f"]], "types": {"f": ty}})
            missed.append(name)
        except py2coq.Unsupported:
            pass
    print("negative: %d sources, %d wrongly accepted %s" % (len(REJECT), len(missed), missed))
    return 1 if bad or missed else 0


if __name__ == "__main__":
    sys.exit(main())
