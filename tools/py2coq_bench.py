#!/usr/bin/env python3
"""py2coq_bench - front-end of the fail-closed translator for pure NUMERIC code (the benchmark
functions of artap/benchmark_functions.py, benchmark_robust.py, benchmark_pareto.py; C15, C16).

    tools/py2coq_bench.py --repo /repo --spec coq/theories/GenProofs/specs/BenchGenA.json --out X.v

Same spec format and entry points as tools/py2coq.py (`translate_spec`, `function_infos`; a spec
with `"frontend": "bench"` is routed here by py2coq.translate_spec).  What differs from py2coq.py:

* the code is arithmetic over floats with transcendental functions; the generated definitions are
  generic in a number type T with ONE interface record `ops T` (add sub mul div neg abs, powN : T ->
  nat -> T, exp sin cos sqrt, pi, e, comparisons, ofNat : nat -> T, literals `int z`, `dec n d` =
  the decimal n / d) and are instantiated at Coq's real numbers (`R_ops`: Rplus ... exp sin cos sqrt
  PI (exp 1) INR IZR, `dec n d` = IZR n / IZR d): `<f>_gen_R`.  A float literal is read as the decimal
  Python prints for it (418.9828872724339 = 4189828872724339 / 10^13, 1e-9 = 1 / 10^9), the way
  Model/Bench.v writes them;
* integers (loop indices, dimensions, `len`) are `nat`; mixed int/float arithmetic embeds the integer
  exactly (`ofNat`, and `a - b` as `ofNat a - ofNat b`); where an integer difference is used AS an
  integer (index, range bound, exponent) it is the truncated `Nat.sub` - Python's would go negative and
  wrap / empty the range: the models make the same assumption (dimension hypotheses of the theorems);
* `xs[i]` is the total `nth i xs 0` (index in range is the same assumption; no negative indices);
* loops are `fold_left <f>_l<k>_body <iterated list> <tuple of the loop-carried locals>`; no `return`,
  `break`, `continue` inside loops;
* a small explicit set of numpy / builtin idioms (see IDIOMS below); anything else is `Unsupported`
  naming the construct;
* `"mode": "set"`: the declared data of a benchmark class's `set()` (box, criteria, documented optimum
  and coordinates) as `option (list (T * T) * list bool * option T * option (list T))`.

Trusted assumptions on top of those of py2coq.py (notes/TRANSLATOR.md): coordinates are floats (numpy
functions on them are the scalar functions), float operations are read as the real operations they
round, `np.sum / np.prod / sum` as left folds (order is immaterial over R), `x ** n` for a literal /
integer n as `powN x n`, `x ** 0.5` as `sqrt x`, `np.isclose(a, b, rtol=0., atol=t)` as
`|a - b| <= t`, `self.set_dimension(**kwargs)` sets `self.dimension` to the constructor's `dimension`,
`self.generate_paramlist(self.dimension, lb=A, ub=B)` is `dimension` copies of the box [A, B].

Stdlib only.
"""
import ast
import hashlib
import importlib.util
import json
import os
import re
import sys
import textwrap
from decimal import Decimal
from fractions import Fraction

HERE = os.path.dirname(os.path.abspath(__file__))


def _load_base():
    """tools/py2coq.py: the copy that is already loaded when this front-end is reached through it (so that
    `Unsupported` is one class), else a private copy"""
    path = os.path.join(HERE, "py2coq.py")
    for m in list(sys.modules.values()):
        f = getattr(m, "__file__", None)
        if f and os.path.abspath(f) == path and hasattr(m, "Unsupported") and hasattr(m, "find_function"):
            return m
    spec = importlib.util.spec_from_file_location("py2coq_base_for_bench", path)
    m = importlib.util.module_from_spec(spec)
    spec.loader.exec_module(m)
    return m


B = _load_base()
Unsupported = B.Unsupported
dotted, attr_key, attr_var = B.dotted, B.attr_key, B.attr_var
find_function, function_source, function_infos = B.find_function, B.function_source, B.function_infos
assigned_names, tokens = B.assigned_names, B.tokens

OPS = ["ltb", "leb", "eqb", "add", "sub", "mul", "div", "neg", "absT", "powN", "expT", "sinT", "cosT", "sqrtT",
       "piT", "eT", "ofNat", "int", "dec"]
RESERVED = set(OPS) | set("""
T Z N R O S nat bool list option Some None true false fst snd pair unit tt if then else let in match with end fun forall
exists as at return Type Prop Set fix cofix struct where using Definition Record Section End Variable Context Fixpoint
ops R_ops nth skipn firstn repeat length fold_left map seq combine app rev e_ st el dim draws draws_k Nat Bool List
INR IZR PI exp sin cos sqrt pow Rplus Rminus Rmult Rdiv Ropp Rabs negb andb orb
""".split())


def mangle(name):
    """Coq identifier of a Python local / parameter / attribute variable"""
    if name in RESERVED or name.startswith("o_") or name.endswith(("_gen", "_gen_R", "_body")) or "__" in name:
        return name.replace("__", "_u_") + "_v"
    return name


PRELUDE = '''From Coq Require Import Reals List ZArith Bool Arith.
Import ListNotations.

(* the numeric interface of the generated definitions *)
Record ops (T : Type) : Type := {
  o_ltb : T -> T -> bool; o_leb : T -> T -> bool; o_eqb : T -> T -> bool;
  o_add : T -> T -> T; o_sub : T -> T -> T; o_mul : T -> T -> T; o_div : T -> T -> T;
  o_neg : T -> T; o_abs : T -> T; o_pow : T -> nat -> T;
  o_exp : T -> T; o_sin : T -> T; o_cos : T -> T; o_sqrt : T -> T;
  o_pi : T; o_e : T; o_nat : nat -> T; o_int : Z -> T; o_dec : Z -> Z -> T }.
Arguments o_ltb {T}. Arguments o_leb {T}. Arguments o_eqb {T}. Arguments o_add {T}. Arguments o_sub {T}.
Arguments o_mul {T}. Arguments o_div {T}. Arguments o_neg {T}. Arguments o_abs {T}. Arguments o_pow {T}.
Arguments o_exp {T}. Arguments o_sin {T}. Arguments o_cos {T}. Arguments o_sqrt {T}. Arguments o_pi {T}.
Arguments o_e {T}. Arguments o_nat {T}. Arguments o_int {T}. Arguments o_dec {T}.

(* the instance at Coq's real numbers: float operations are read as the real operations they round,
   a float literal as the decimal it is written as (dec n d = n / d, d a power of ten) *)
Definition R_ops : ops R := {|
  o_ltb := fun a b => if Rlt_dec a b then true else false;
  o_leb := fun a b => if Rle_dec a b then true else false;
  o_eqb := fun a b => if Req_EM_T a b then true else false;
  o_add := Rplus; o_sub := Rminus; o_mul := Rmult; o_div := Rdiv; o_neg := Ropp; o_abs := Rabs; o_pow := pow;
  o_exp := exp; o_sin := sin; o_cos := cos; o_sqrt := sqrt; o_pi := PI; o_e := exp (IZR 1);
  o_nat := INR; o_int := IZR; o_dec := fun n d => Rdiv (IZR n) (IZR d) |}.
'''

SECTION_HEAD = '''Section Gen.
  Context {T : Type} (O : ops T).
  Local Notation ltb := (o_ltb O). Local Notation leb := (o_leb O). Local Notation eqb := (o_eqb O).
  Local Notation add := (o_add O). Local Notation sub := (o_sub O). Local Notation mul := (o_mul O).
  Local Notation div := (o_div O). Local Notation neg := (o_neg O). Local Notation absT := (o_abs O).
  Local Notation powN := (o_pow O). Local Notation expT := (o_exp O). Local Notation sinT := (o_sin O).
  Local Notation cosT := (o_cos O). Local Notation sqrtT := (o_sqrt O). Local Notation piT := (o_pi O).
  Local Notation eT := (o_e O). Local Notation ofNat := (o_nat O). Local Notation int := (o_int O).
  Local Notation dec := (o_dec O).
'''

# IDIOMS: qualified names (after resolving the module's imports) the translator gives a meaning to
UNARY = {"math.cos": "cosT", "numpy.cos": "cosT", "math.sin": "sinT", "numpy.sin": "sinT",
         "math.exp": "expT", "numpy.exp": "expT", "math.sqrt": "sqrtT", "numpy.sqrt": "sqrtT",
         "math.fabs": "absT", "numpy.fabs": "absT", "numpy.abs": "absT", "numpy.absolute": "absT", "abs": "absT"}
CONSTS = {"math.pi": "piT", "numpy.pi": "piT", "math.e": "eT", "numpy.e": "eT"}
REDUCE = {"sum": "sum", "numpy.sum": "sum", "math.fsum": "sum", "numpy.prod": "prod", "math.prod": "prod",
          "numpy.mean": "mean"}
BUILTINS = ("len", "abs", "float", "sum", "range", "enumerate", "zip", "pow", "min", "max", "int", "list", "tuple")


def plain_assigned(stmts):
    """names bound by assignment / augmented assignment / append anywhere in stmts, NOT the targets of nested
    for loops (a nested loop may re-use the name of an enclosing loop variable: Python's outer iteration is not
    affected; the name is dead after the nested loop)"""
    targets = set()
    for s in stmts:
        for nd in ast.walk(s):
            if isinstance(nd, ast.For):
                for m in ast.walk(nd.target):
                    if isinstance(m, ast.Name):
                        targets.add(m.id)
    plain = []
    for s in stmts:
        for nd in ast.walk(s):
            names = []
            if isinstance(nd, ast.Assign):
                names = [m.id for t in nd.targets for m in ast.walk(t) if isinstance(m, ast.Name) and isinstance(m.ctx, ast.Store)]
            elif isinstance(nd, ast.AugAssign) and isinstance(nd.target, ast.Name):
                names = [nd.target.id]
            elif B.append_target(nd) and isinstance(B.append_target(nd)[0], ast.Name):
                names = [B.append_target(nd)[0].id]
            for v in names:
                if v not in plain:
                    plain.append(v)
    return plain


class Val:
    """a translated expression: type t in T nat bool listT lit obj sized; code c; for lit the exact value q and
    whether a float literal took part (fl); for nat the code of its exact embedding into T (emb) when that is
    not simply `ofNat c`; for listT a pending elementwise map (src, elt over the variable e_)"""

    def __init__(self, t, c=None, q=None, fl=False, emb=None, src=None, elt=None):
        self.t, self.c, self.q, self.fl, self.emb, self.src, self.elt = t, c, q, fl, emb, src, elt


def lit_of(v):
    if isinstance(v, bool):
        return None
    if isinstance(v, int):
        return Val("lit", q=Fraction(v), fl=False)
    if isinstance(v, float):
        if v != v or v in (float("inf"), float("-inf")):
            return None
        return Val("lit", q=Fraction(Decimal(repr(v))), fl=True)
    return None


class ModuleInfo:
    """imports and module-level bindings of the source file (to resolve np.cos, pi, exp ...)"""

    def __init__(self, tree):
        self.imports, self.bound, self.star = {}, {}, []

        def bind(name, what):
            self.bound.setdefault(name, set()).add(what)

        def scan(body):
            for n in body:
                if isinstance(n, (ast.FunctionDef, ast.AsyncFunctionDef, ast.ClassDef)):
                    bind(n.name, "def")
                elif isinstance(n, ast.Import):
                    for a in n.names:
                        if a.asname:
                            bind(a.asname, "import " + a.name)
                            self.imports[a.asname] = a.name
                        else:
                            bind(a.name.split(".")[0], "import " + a.name.split(".")[0])
                            self.imports[a.name.split(".")[0]] = a.name.split(".")[0]
                elif isinstance(n, ast.ImportFrom):
                    for a in n.names:
                        if a.name == "*":
                            self.star.append(n.module or "")
                        else:
                            q = "%s%s.%s" % ("." * n.level, n.module or "", a.name)
                            bind(a.asname or a.name, "from " + q)
                            self.imports[a.asname or a.name] = q
                elif isinstance(n, (ast.Assign, ast.AugAssign, ast.AnnAssign)):
                    for t in (n.targets if isinstance(n, ast.Assign) else [n.target]):
                        for m in ast.walk(t):
                            if isinstance(m, ast.Name):
                                bind(m.id, "assign")
                elif isinstance(n, (ast.If, ast.Try, ast.With, ast.For, ast.While)):
                    for fld in ("body", "orelse", "finalbody"):
                        scan(getattr(n, fld, []) or [])
                    for h in getattr(n, "handlers", []) or []:
                        scan(h.body)
        scan(tree.body)

    def resolve(self, name, err):
        """dotted name as written -> qualified name (numpy.cos, math.pi, a builtin's own name) or None"""
        head, _, rest = name.partition(".")
        if head in self.bound:
            if len(self.bound[head]) != 1:
                raise err("the module binds %r more than once (%s)" % (head, sorted(self.bound[head])))
            if head not in self.imports:
                return ("local:" + name) if not rest else None
            q = self.imports[head]
            return q + ("." + rest if rest else "")
        if self.star:
            raise err("name %r with a star import in the module (from %s import *)" % (head, ", ".join(self.star)))
        if not rest and head in BUILTINS:
            return head
        return None


class BenchTranslator:
    def __init__(self, minfo, cls, name, spec, node, done, src_tree):
        self.minfo, self.cls, self.pyname, self.spec, self.node, self.done = minfo, cls, name, spec, node, done
        self.qual = (cls + "." if cls else "") + name
        self.coq = spec.get("as") or ((cls + "_" if cls else "") + re.sub(r"\W", "_", name.strip("_")) + "_gen")
        self.base = self.coq[:-4] if self.coq.endswith("_gen") else self.coq
        self.attrs = [(a, t) for a, t in spec.get("attrs", [])]
        for a, t in self.attrs:
            if t not in ("T", "nat", "list T", "sized"):
                raise Unsupported("attribute type %r in the spec (T, nat, list T, sized)" % t, node, self.qual)
        self.calls = dict(spec.get("calls", {}))
        self.oracles = {o[0]: o for o in spec.get("oracles", [])}
        self.defs, self.nloop = [], 0
        self.stream_used = []

    def err(self, msg, node=None):
        return Unsupported(msg, node if node is not None else self.node, self.qual)

    # ---------------------------------------------------------------- coercions
    def lit_code(self, q, node):
        if q.denominator == 1:
            return "(int (%d)%%Z)" % q
        a, k = abs(q), 0
        while (a * 10 ** k).denominator != 1:
            k += 1
            if k > 60:
                raise self.err("the literal value %s is not a finite decimal" % q, node)
        code = "(dec (%d)%%Z (%d)%%Z)" % (a * 10 ** k, 10 ** k)
        return "(neg %s)" % code if q < 0 else code

    def toT(self, v, node):
        v = self.force(v, node)
        if v.t == "T":
            return v.c
        if v.t == "lit":
            return self.lit_code(v.q, node)
        if v.t == "nat":
            return v.emb or "(ofNat %s)" % v.c
        raise self.err("a number is expected here, found %s" % v.t, node)

    def toNat(self, v, node, allow_float=False):
        if v.t == "nat":
            return v.c
        if v.t == "lit":
            if v.q.denominator == 1 and v.q >= 0 and (allow_float or not v.fl):
                return "%d%%nat" % v.q
            raise self.err("a non-negative integer is expected here, found the literal %s" % (float(v.q) if v.fl else v.q), node)
        raise self.err("an integer is expected here, found %s" % v.t, node)

    def force(self, v, node):
        """materialise a pending elementwise map"""
        if v.t == "listT" and v.c is None:
            v = Val("listT", "(map (fun e_ => %s) %s)" % (v.elt, v.src))
        return v

    def toList(self, v, node):
        v = self.force(v, node)
        if v.t != "listT":
            raise self.err("a vector is expected here, found %s" % v.t, node)
        return v.c

    def elementwise(self, v):
        """(source list code, element code over e_) of a vector value"""
        if v.c is not None:
            return v.c, "e_"
        return v.src, v.elt

    # ---------------------------------------------------------------- expressions
    def expr(self, n, env):
        if isinstance(n, ast.Constant):
            if isinstance(n.value, bool):
                return Val("bool", "true" if n.value else "false")
            v = lit_of(n.value)
            if v is None:
                raise self.err("literal %r" % (n.value,), n)
            return v
        if isinstance(n, ast.Name):
            if n.id in env:
                v = env[n.id]
                if v.t == "dead":
                    raise self.err("name %r is read after a loop that (re)binds it / is bound only inside a loop or branch" % n.id, n)
                if v.t == "obj":
                    raise self.err("object %r used as a value (only its declared attributes can be read)" % n.id, n)
                return v
            q = self.minfo.resolve(n.id, lambda m: self.err(m, n))
            if q in CONSTS:
                return Val("T", CONSTS[q])
            raise self.err("name %r is not a parameter, a local that is certainly bound here, or a known constant" % n.id, n)
        if isinstance(n, ast.Attribute):
            key = attr_key(n)
            if key:
                head = key.split(".")[0]
                if head in env and env[head].t == "obj":
                    for a, t in self.attrs:
                        if a == key:
                            return self.attr_val(a, t)
                    raise self.err("attribute read %s has no declared type (attrs in the spec: %s)"
                                   % (key, [a for a, _ in self.attrs]), n)
                if head in env:
                    raise self.err("attribute %s of the local value %r" % (key, head), n)
                q = self.minfo.resolve(key, lambda m: self.err(m, n))
                if q in CONSTS:
                    return Val("T", CONSTS[q])
            raise self.err("attribute %s" % (key or ast.dump(n)[:60]), n)
        if isinstance(n, ast.UnaryOp):
            if isinstance(n.op, ast.Not):
                c = self.expr(n.operand, env)
                if c.t != "bool":
                    raise self.err("`not` of a non-boolean (%s)" % c.t, n)
                return Val("bool", "(negb %s)" % c.c)
            if isinstance(n.op, ast.USub):
                v = self.expr(n.operand, env)
                if v.t == "lit":
                    return Val("lit", q=-v.q, fl=v.fl)
                if v.t == "nat":
                    raise self.err("unary minus on an integer expression (negative integers are not modelled)", n)
                if v.t == "listT":
                    s, e = self.elementwise(v)
                    return Val("listT", src=s, elt="(neg %s)" % e)
                return Val("T", "(neg %s)" % self.toT(v, n))
            if isinstance(n.op, ast.UAdd):
                return self.expr(n.operand, env)
            raise self.err("unary operator %s" % type(n.op).__name__, n)
        if isinstance(n, ast.BoolOp):
            op = "andb" if isinstance(n.op, ast.And) else "orb"
            parts = []
            for v in n.values:
                c = self.expr(v, env)
                if c.t != "bool":
                    raise self.err("and / or on a non-boolean (%s): Python's truth value of a number is not modelled" % c.t, v)
                parts.append(c.c)
            code = parts[-1]
            for p in reversed(parts[:-1]):
                code = "(%s %s %s)" % (op, p, code)
            return Val("bool", code)
        if isinstance(n, ast.IfExp):
            c = self.expr(n.test, env)
            if c.t != "bool":
                raise self.err("condition of a non-boolean type (%s)" % c.t, n.test)
            a, b = self.expr(n.body, env), self.expr(n.orelse, env)
            if a.t == "nat" and b.t in ("nat", "lit") and not b.fl or b.t == "nat" and a.t == "lit" and not a.fl:
                return Val("nat", "(if %s then %s else %s)" % (c.c, self.toNat(a, n), self.toNat(b, n)))
            return Val("T", "(if %s then %s else %s)" % (c.c, self.toT(a, n), self.toT(b, n)))
        if isinstance(n, ast.Compare):
            if len(n.ops) != 1:
                raise self.err("chained comparison", n)
            a, b = self.expr(n.left, env), self.expr(n.comparators[0], env)
            return self.compare(n.ops[0], a, b, n)
        if isinstance(n, ast.BinOp):
            a, b = self.expr(n.left, env), self.expr(n.right, env)
            return self.binop(n.op, a, b, n)
        if isinstance(n, ast.Subscript):
            return self.subscript(n, env)
        if isinstance(n, ast.List):
            if not n.elts:
                return Val("listT", "[]")
            return Val("listT", "[%s]" % "; ".join(self.toT(self.expr(e, env), e) for e in n.elts))
        if isinstance(n, (ast.ListComp, ast.GeneratorExp)):
            return self.comprehension(n, env)
        if isinstance(n, ast.Call):
            return self.call(n, env)
        raise self.err("expression %s" % type(n).__name__, n)

    def attr_val(self, a, t):
        var = mangle(attr_var(a))
        if t == "T":
            return Val("T", var)
        if t == "nat":
            return Val("nat", var)
        if t == "list T":
            return Val("listT", var)
        return Val("sized", var)

    def compare(self, op, a, b, node):
        k = type(op).__name__
        if a.t == "bool" or b.t == "bool":
            raise self.err("comparison of booleans", node)
        if a.t == "lit" and b.t == "lit":
            raise self.err("comparison of two literals", node)
        int_like = lambda v: v.t == "nat" or (v.t == "lit" and not v.fl and v.q.denominator == 1 and v.q >= 0)
        if int_like(a) and int_like(b):
            x, y = self.toNat(a, node), self.toNat(b, node)
            tab = {"Lt": "(Nat.ltb %s %s)" % (x, y), "Gt": "(Nat.ltb %s %s)" % (y, x),
                   "LtE": "(Nat.leb %s %s)" % (x, y), "GtE": "(Nat.leb %s %s)" % (y, x),
                   "Eq": "(Nat.eqb %s %s)" % (x, y), "NotEq": "(negb (Nat.eqb %s %s))" % (x, y)}
        else:
            x, y = self.toT(a, node), self.toT(b, node)
            tab = {"Lt": "(ltb %s %s)" % (x, y), "Gt": "(ltb %s %s)" % (y, x),
                   "LtE": "(leb %s %s)" % (x, y), "GtE": "(leb %s %s)" % (y, x),
                   "Eq": "(eqb %s %s)" % (x, y), "NotEq": "(negb (eqb %s %s))" % (x, y)}
        if k not in tab:
            raise self.err("comparison %s" % k, node)
        return Val("bool", tab[k])

    def binop(self, op, a, b, node):
        k = type(op).__name__
        if k not in ("Add", "Sub", "Mult", "Div", "Pow"):
            raise self.err("operator %s" % k, node)
        for v in (a, b):
            if v.t not in ("T", "nat", "lit", "listT"):
                raise self.err("arithmetic on a value of type %s" % v.t, node)
        if a.t == "listT" or b.t == "listT":
            if a.t == "listT" and b.t == "listT":
                sa, ea = self.elementwise(a)
                sb, eb = self.elementwise(b)
                if sa != sb:
                    raise self.err("elementwise operation on two different vectors (%s, %s)" % (sa, sb), node)
                r = self.binop(op, Val("T", ea), Val("T", eb), node)
                return Val("listT", src=sa, elt=r.c)
            if a.t == "listT":
                s, e = self.elementwise(a)
                r = self.binop(op, Val("T", e), b, node)
            else:
                s, e = self.elementwise(b)
                r = self.binop(op, a, Val("T", e), node)
            return Val("listT", src=s, elt=self.toT(r, node))
        if k == "Pow":
            return self.power(a, b, node)
        if a.t == "lit" and b.t == "lit":
            if k == "Div":
                if b.q == 0:
                    raise self.err("division of literals by zero", node)
                return Val("lit", q=a.q / b.q, fl=True)
            q = {"Add": a.q + b.q, "Sub": a.q - b.q, "Mult": a.q * b.q}[k]
            return Val("lit", q=q, fl=a.fl or b.fl)
        int_like = lambda v: v.t == "nat" or (v.t == "lit" and not v.fl and v.q.denominator == 1 and v.q >= 0)
        if int_like(a) and int_like(b) and k != "Div":
            x, y = self.toNat(a, node), self.toNat(b, node)
            if k == "Add":
                return Val("nat", "(%s + %s)%%nat" % (x, y))
            if k == "Mult":
                return Val("nat", "(%s * %s)%%nat" % (x, y))
            # Python's integer difference; as an integer: truncated (see the module docstring), as a number: exact
            return Val("nat", "(%s - %s)%%nat" % (x, y), emb="(sub %s %s)" % (self.toT(a, node), self.toT(b, node)))
        name = {"Add": "add", "Sub": "sub", "Mult": "mul", "Div": "div"}[k]
        return Val("T", "(%s %s %s)" % (name, self.toT(a, node), self.toT(b, node)))

    def power(self, a, b, node):
        if b.t == "lit" and b.q == Fraction(1, 2):
            return Val("T", "(sqrtT %s)" % self.toT(a, node))
        if a.t == "lit" and b.t == "lit":
            if b.q.denominator == 1 and b.q >= 0:
                return Val("lit", q=a.q ** int(b.q), fl=a.fl or b.fl)
            raise self.err("power of literals with the exponent %s" % b.q, node)
        if b.t == "lit" and not (b.q.denominator == 1 and b.q >= 0):
            raise self.err("power with the exponent %s (only non-negative integers and 0.5)" % float(b.q), node)
        if b.t not in ("lit", "nat"):
            raise self.err("power with a non-integer exponent expression", node)
        e = self.toNat(b, node, allow_float=True)
        int_like = a.t == "nat"
        if int_like:
            return Val("nat", "(%s ^ %s)%%nat" % (a.c, e))
        return Val("T", "(powN %s %s)" % (self.toT(a, node), e))

    def index(self, n, env):
        v = self.expr(n, env)
        if v.t == "lit" and v.q < 0:
            raise self.err("negative index", n)
        return self.toNat(v, n)

    def subscript(self, n, env):
        sl = n.slice
        if isinstance(sl, ast.Index):
            sl = sl.value
        base = self.expr(n.value, env)
        lst = self.toList(base, n)
        if isinstance(sl, ast.Slice):
            if sl.step is not None:
                raise self.err("slice with a step", n)

            def bound(b):
                """-> (code, relative to the end?)"""
                v = self.expr(b, env)
                if v.t == "lit" and v.q < 0 and v.q.denominator == 1 and not v.fl:
                    return "(length %s - %d)%%nat" % (lst, -v.q)
                return self.index(b, env)
            if sl.lower is not None and sl.upper is None:
                return Val("listT", "(skipn %s %s)" % (bound(sl.lower), lst))
            if sl.lower is None and sl.upper is not None:
                return Val("listT", "(firstn %s %s)" % (bound(sl.upper), lst))
            if sl.lower is not None and sl.upper is not None:
                lo, hi = bound(sl.lower), bound(sl.upper)
                return Val("listT", "(firstn (%s - %s)%%nat (skipn %s %s))" % (hi, lo, lo, lst))
            return Val("listT", lst)
        return Val("T", "(nth %s %s (int 0%%Z))" % (self.index(sl, env), lst))

    def comprehension(self, n, env):
        if len(n.generators) != 1 or n.generators[0].ifs or getattr(n.generators[0], "is_async", 0):
            raise self.err("comprehension with a condition / several generators", n)
        g = n.generators[0]
        if not isinstance(g.target, ast.Name):
            raise self.err("comprehension target", n)
        lst, et, _ = self.iterable(g.iter, env, n)
        if et not in ("T", "nat"):
            raise self.err("comprehension over pairs", n)
        var = g.target.id
        env2 = dict(env)
        env2[var] = Val(et, mangle(var))
        body = self.toT(self.expr(n.elt, env2), n.elt)
        return Val("listT", "(map (fun %s => %s) %s)" % (mangle(var), body, lst))

    def iterable(self, it, env, node):
        """-> (list code, element type: T | nat | (t1, t2), is-enumerate)"""
        if isinstance(it, ast.Call):
            f = dotted(it.func)
            q = self.resolve_call(f, env, it) if f else None
            if q == "range":
                if it.keywords or not 1 <= len(it.args) <= 2:
                    raise self.err("range() with a step / keywords", it)
                if len(it.args) == 1:
                    lo, hi = Val("lit", q=Fraction(0)), self.expr(it.args[0], env)
                else:
                    lo, hi = self.expr(it.args[0], env), self.expr(it.args[1], env)
                if lo.t == "lit" and lo.q == 0:
                    return "(seq 0%%nat %s)" % self.toNat(hi, it), "nat", False
                if lo.t == "lit" and hi.t == "lit":
                    cnt = Val("lit", q=max(hi.q - lo.q, Fraction(0)), fl=lo.fl or hi.fl)
                    return "(seq %s %s)" % (self.toNat(lo, it), self.toNat(cnt, it)), "nat", False
                a, b = self.toNat(lo, it), self.toNat(hi, it)
                return "(seq %s (%s - %s)%%nat)" % (a, b, a), "nat", False
            if q == "enumerate":
                if len(it.args) != 1 or it.keywords:
                    raise self.err("enumerate() with a start value / keyword", it)
                lst = self.toList(self.expr(it.args[0], env), it)
                return "(combine (seq 0%%nat (length %s)) %s)" % (lst, lst), ("nat", "T"), True
            if q == "zip":
                if len(it.args) != 2 or it.keywords:
                    raise self.err("zip() with other than two arguments", it)
                a = self.toList(self.expr(it.args[0], env), it)
                b = self.toList(self.expr(it.args[1], env), it)
                return "(combine %s %s)" % (a, b), ("T", "T"), False
        v = self.expr(it, env)
        return self.toList(v, it), "T", False

    def resolve_call(self, f, env, node):
        head = f.split(".")[0]
        if head in env and env[head].t != "obj":
            raise self.err("call through the local name %r" % head, node)
        if head in env:
            return None
        return self.minfo.resolve(f, lambda m: self.err(m, node))

    def call(self, n, env):
        f = dotted(n.func)
        if f is None:
            raise self.err("call of a computed function", n)
        if any(isinstance(a, ast.Starred) for a in n.args) or any(k.arg is None for k in n.keywords):
            raise self.err("starred / ** argument in a call of %s" % f, n)
        if f in self.calls:
            return self.call_translated(f, n, env)
        q = self.resolve_call(f, env, n)
        if q is None or q.startswith("local:"):
            raise self.err("call of %s (not a recognised idiom, declared oracle or translated function)" % f, n)
        if q in self.oracles:
            return self.call_oracle(q, n, env)
        args = n.args
        if q in UNARY:
            if len(args) != 1 or n.keywords:
                raise self.err("%s with other than one argument" % f, n)
            v = self.expr(args[0], env)
            if v.t == "listT":
                s, e = self.elementwise(v)
                return Val("listT", src=s, elt="(%s %s)" % (UNARY[q], e))
            return Val("T", "(%s %s)" % (UNARY[q], self.toT(v, n)))
        if q == "float" and len(args) == 1 and not n.keywords:
            v = self.expr(args[0], env)
            if v.t == "lit":
                return Val("lit", q=v.q, fl=True)
            return Val("T", self.toT(v, n))
        if q == "int" and len(args) == 1 and not n.keywords:
            v = self.expr(args[0], env)
            if v.t == "nat" or (v.t == "lit" and v.q.denominator == 1):
                return v if v.t == "nat" else Val("lit", q=v.q, fl=False)
            raise self.err("int() of a non-integer", n)
        if q == "len" and len(args) == 1 and not n.keywords:
            v = self.expr(args[0], env)
            if v.t == "sized":
                return Val("nat", v.c)
            return Val("nat", "(length %s)" % self.toList(v, n))
        if q in ("list", "tuple", "numpy.asarray", "numpy.array") and len(args) == 1:
            for kw in n.keywords:
                if not (kw.arg == "dtype" and dotted(kw.value) in ("float", "np.float64", "numpy.float64")):
                    raise self.err("keyword %s of %s" % (kw.arg, f), n)
            v = self.expr(args[0], env)
            if v.t != "listT":
                raise self.err("%s() of a value of type %s" % (f, v.t), n)
            return v
        if q in REDUCE:
            if len(args) != 1 or n.keywords:
                raise self.err("%s with other than one argument" % f, n)
            lst = self.toList(self.expr(args[0], env), n)
            if REDUCE[q] == "sum":
                return Val("T", "(fold_left add %s (int 0%%Z))" % lst)
            if REDUCE[q] == "prod":
                return Val("T", "(fold_left mul %s (int 1%%Z))" % lst)
            return Val("T", "(div (fold_left add %s (int 0%%Z)) (ofNat (length %s)))" % (lst, lst))
        if q in ("pow", "math.pow", "numpy.power") and len(args) == 2 and not n.keywords:
            return self.power(self.expr(args[0], env), self.expr(args[1], env), n)
        if q in ("min", "max") and len(args) == 2 and not n.keywords:
            a, b = self.expr(args[0], env), self.expr(args[1], env)
            return Val("nat", "(Nat.%s %s %s)" % (q, self.toNat(a, n), self.toNat(b, n)))
        if q in ("numpy.isclose", "math.isclose"):
            kws = {k.arg: k.value for k in n.keywords}
            rk, ak = ("rtol", "atol") if q == "numpy.isclose" else ("rel_tol", "abs_tol")
            if len(args) != 2 or set(kws) != {rk, ak}:
                raise self.err("%s must be called as %s(a, b, %s=0., %s=t)" % (f, f, rk, ak), n)
            r = self.expr(kws[rk], env)
            if not (r.t == "lit" and r.q == 0):
                raise self.err("%s with a relative tolerance other than the literal 0" % f, n)
            a, b, t = (self.toT(self.expr(x, env), n) for x in (args[0], args[1], kws[ak]))
            return Val("bool", "(leb (absT (sub %s %s)) %s)" % (a, b, t))
        raise self.err("call of %s = %s (not a recognised idiom)" % (f, q), n)

    def call_translated(self, f, n, env):
        qn = self.calls[f]
        if qn not in self.done:
            raise self.err("call of %s = %s, which is not translated before this function" % (f, qn), n)
        callee = self.done[qn]
        if n.keywords:
            raise self.err("keyword arguments in a call of %s" % f, n)
        pnames = callee.py_params
        if len(n.args) != len(pnames):
            raise self.err("call of %s with %d arguments, it has %d parameters" % (f, len(n.args), len(pnames)), n)
        bind = dict(zip(pnames, n.args))
        codes = []
        for kind, key, t in callee.gen_params:
            if kind == "param":
                v = self.expr(bind[key], env)
                codes.append({"T": self.toT, "nat": self.toNat, "list T": self.toList}[t](v, n))
            else:
                head, rest = key.split(".", 1)
                if head == callee.self_name:
                    mine = (self.self_name or "?") + "." + rest
                else:
                    a = bind[head]
                    if not (isinstance(a, ast.Name) and a.id in env and env[a.id].t == "obj"):
                        raise self.err("the argument for the object parameter %r of %s must be an object parameter" % (head, f), n)
                    mine = a.id + "." + rest
                if (mine, t) not in self.attrs:
                    raise self.err("%s reads %s; the caller must declare %s : %s" % (qn, key, mine, t), n)
                codes.append(mangle(attr_var(mine)))
        if callee.stream_used:
            raise self.err("call of %s, which draws random numbers" % f, n)
        code = "(%s %s)" % (callee.coq, " ".join(codes)) if codes else callee.coq
        return Val({"T": "T", "list T": "listT", "nat": "nat"}[callee.returns], code)

    def call_oracle(self, q, n, env):
        """a random draw `uniform(0, 1)`: the k-th call of the evaluation returns `draws k` (a stream that is an
        input of the generated definition); the counter is threaded through the statement translation"""
        o = self.oracles[q]
        want = o[1]
        if n.keywords or len(n.args) != len(want):
            raise self.err("oracle %s called with other than %d positional arguments" % (q, len(want)), n)
        for a, w in zip(n.args, want):
            v = self.expr(a, env)
            if not (v.t == "lit" and v.q == Fraction(w)):
                raise self.err("oracle %s must be called with the literal arguments %s" % (q, want), n)
        if "draws#" not in env:
            raise self.err("a random draw outside an assignment statement `name = %s(...)`" % q, n)
        raise self.err("a random draw inside a larger expression (only `name = %s(...)`)" % q, n)

    # ---------------------------------------------------------------- statements
    def block(self, stmts, env, k):
        """code of the statement list followed by the continuation k(env)"""
        if not stmts:
            return k(env)
        s, rest = stmts[0], stmts[1:]
        if isinstance(s, ast.Expr) and isinstance(s.value, ast.Constant) and isinstance(s.value.value, str):
            return self.block(rest, env, k)
        if isinstance(s, ast.Pass):
            return self.block(rest, env, k)
        if isinstance(s, ast.Return):
            if rest:
                raise self.err("unreachable statement after return", rest[0])
            if env.get("in#loop"):
                raise self.err("return inside a loop", s)
            if env.get("in#join"):
                raise _NoJoin()
            if s.value is None:
                raise self.err("return without a value", s)
            return self.ret(s.value, env)
        if isinstance(s, (ast.Assign, ast.AugAssign)):
            return self.assign(s, rest, env, k)
        a = B.append_target(s)
        if a:
            return self.append(s, a, rest, env, k)
        if isinstance(s, ast.If):
            return self.if_(s, rest, env, k)
        if isinstance(s, ast.For):
            return self.for_(s, rest, env, k)
        raise self.err("statement %s" % type(s).__name__, s)

    def ret(self, value, env):
        v = self.expr(value, env)
        if self.returns == "list T":
            return self.toList(v, value)
        if self.returns == "T":
            return self.toT(v, value)
        if self.returns == "nat":
            return self.toNat(v, value)
        raise self.err("return type %r in the spec" % self.returns, value)

    def bindable(self, v, node):
        """value of a local: literals stay literals (folded / inlined), the rest is let-bound"""
        v = self.force(v, node)
        if v.t not in ("T", "nat", "bool", "listT", "lit"):
            raise self.err("assignment of a value of type %s" % v.t, node)
        return v

    def assign(self, s, rest, env, k):
        if isinstance(s, ast.Assign):
            if len(s.targets) != 1:
                raise self.err("chained assignment", s)
            tgt, val = s.targets[0], s.value
        else:
            tgt = s.target
            val = ast.BinOp(left=ast.Name(id=getattr(tgt, "id", None), ctx=ast.Load()), op=s.op, right=s.value)
            ast.copy_location(val, s)
            ast.copy_location(val.left, s)
        if not isinstance(tgt, ast.Name):
            raise self.err("assignment to %s (only local names can be assigned)"
                           % (attr_key(tgt) or type(tgt).__name__), s)
        name = tgt.id
        if name in env.get("loop#targets", ()):
            raise self.err("assignment to the loop variable %r" % name, s)
        if name == getattr(self, "self_name", None):
            raise self.err("assignment to self", s)
        # a random draw: name = uniform(0, 1)
        if isinstance(val, ast.Call) and dotted(val.func) and not (dotted(val.func) in self.calls):
            q = None
            try:
                q = self.resolve_call(dotted(val.func), env, val)
            except Unsupported:
                q = None
            if q in self.oracles:
                return self.draw(name, q, val, s, rest, env, k)
        v = self.bindable(self.expr(val, env), s)
        old = env.get(name)
        if isinstance(s, ast.AugAssign) and (v.t == "listT" or (old is not None and old.t == "listT")):
            # on a numpy array `xs -= e` works IN PLACE (and through views on the caller's array): not a rebinding
            raise self.err("augmented assignment to the vector %r (an in-place array operation)" % name, s)
        if old is not None and old.t not in ("obj", "dead", "lit") and v.t != old.t and not (old.t == "T" and v.t in ("lit", "nat")):
            raise self.err("local %r changes its type from %s to %s" % (name, old.t, v.t), s)
        env2 = dict(env)
        if old is not None and old.t == "T" and v.t in ("lit", "nat"):
            v = Val("T", self.toT(v, s))
        if v.t == "lit":
            env2[name] = v
            return self.block(rest, env2, k)
        env2[name] = Val(v.t, mangle(name))
        return "let %s := %s in\n%s" % (mangle(name), v.c, self.block(rest, env2, k))

    def draw(self, name, q, call, s, rest, env, k):
        o = self.oracles[q]
        if call.keywords or len(call.args) != len(o[1]):
            raise self.err("oracle %s called with other than %d positional arguments" % (q, len(o[1])), call)
        for a, w in zip(call.args, o[1]):
            v = self.expr(a, env)
            if not (v.t == "lit" and v.q == Fraction(w)):
                raise self.err("oracle %s must be called with the literal arguments %s" % (q, o[1]), call)
        if "draws#" not in env:
            raise self.err("random draw, but the spec declares no stream oracle for this function", s)
        if q not in self.stream_used:
            self.stream_used.append(q)
        env2 = dict(env)
        env2[name] = Val("T", mangle(name))
        env2["draws#"] = Val("nat", "draws_k")
        return "let %s := draws %s in\nlet draws_k := S %s in\n%s" % (mangle(name), env["draws#"].c, env["draws#"].c,
                                                                      self.block(rest, env2, k))

    def append(self, s, a, rest, env, k):
        tgt, arg = a
        if not isinstance(tgt, ast.Name):
            raise self.err("append to %s (only local lists)" % (attr_key(tgt) or "a computed target"), s)
        name = tgt.id
        if name not in env or env[name].t != "listT":
            raise self.err("append to %r, which is not a local list certainly bound here" % name, s)
        if name not in self.fresh_lists:
            raise self.err("append to %r, which is not a list built in this function" % name, s)
        v = self.toT(self.expr(arg, env), arg)
        env2 = dict(env)
        env2[name] = Val("listT", mangle(name))
        return "let %s := (%s ++ [%s]) in\n%s" % (mangle(name), env[name].c, v, self.block(rest, env2, k))

    def simple(self, stmts):
        for s in stmts:
            if isinstance(s, (ast.Pass, ast.Assign, ast.AugAssign)) or B.append_target(s):
                continue
            if isinstance(s, ast.If) and self.simple(s.body) and self.simple(s.orelse):
                continue
            return False
        return True

    def if_(self, s, rest, env, k):
        c = self.expr(s.test, env)
        if c.t != "bool":
            raise self.err("condition of a non-boolean type (%s): Python's truth value of a number is not modelled" % c.t, s.test)
        if self.simple(s.body) and self.simple(s.orelse):
            # join: the locals assigned in the branches (that are bound before, or in both branches)
            names = []
            for v in assigned_names([s]):
                if v in env and env[v].t != "dead":
                    names.append(v)
            only_branch = [v for v in assigned_names([s]) if v not in names]
            if not names:
                raise self.err("an if statement without effect on the locals bound before it", s)
            # types: a literal / integer local assigned a number in a branch becomes a number
            envj = dict(env)
            envj["in#join"] = True
            for v in names:
                if envj[v].t == "lit":
                    envj[v] = Val("T", self.toT(envj[v], s))
            def fin(e):
                return self.tuple_of([self.state_code(e[v], envj[v].t, s) for v in names])
            a = self.block(list(s.body), envj, fin)
            b = self.block(list(s.orelse), envj, fin)
            env2 = dict(env)
            for v in names:
                env2[v] = Val(envj[v].t, mangle(v))
            for v in only_branch:
                env2[v] = Val("dead")
            return "let %s :=\n  if %s then\n%s\n  else\n%s in\n%s" % (
                self.pattern([mangle(v) for v in names]), c.c, textwrap.indent(a, "    "), textwrap.indent(b, "    "),
                self.block(rest, env2, k))
        if env.get("in#loop") or env.get("in#join"):
            raise self.err("an if statement with a return / loop inside a loop body or a joined branch", s)
        kk = lambda e: self.block(rest, self.after_branch(env, e), k)
        a = self.block(list(s.body), env, kk)
        b = self.block(list(s.orelse), env, kk)
        return "if %s then\n%s\nelse\n%s" % (c.c, textwrap.indent(a, "  "), textwrap.indent(b, "  "))

    @staticmethod
    def after_branch(env, e):
        out = {}
        for v in e:
            out[v] = e[v] if v in env or "#" in v else Val("dead")
        return out

    def state_code(self, v, t, node):
        if t == "T":
            return self.toT(v, node)
        if t == "nat":
            return self.toNat(v, node)
        if t == "listT":
            return self.toList(v, node)
        if t == "bool" and v.t == "bool":
            return v.c
        raise self.err("a loop-carried / joined local of type %s" % t, node)

    @staticmethod
    def tuple_of(codes):
        return codes[0] if len(codes) == 1 else "(%s)" % ", ".join(codes)

    @staticmethod
    def pattern(names):
        return names[0] if len(names) == 1 else "'(%s)" % ", ".join(names)

    def for_(self, s, rest, env, k):
        if s.orelse:
            raise self.err("for ... else", s)
        if B.has_node(s.body, (ast.Break, ast.Continue, ast.Return)):
            raise self.err("break / continue / return inside a loop", s)
        lst, et, _ = self.iterable(s.iter, env, s)
        # the iterated list must not be rebound / appended to by the body
        iter_names = {nd.id for nd in ast.walk(s.iter) if isinstance(nd, ast.Name)}
        clash = iter_names & set(assigned_names(s.body))
        if clash:
            raise self.err("the loop body assigns / appends to %s, which the loop iterates over" % sorted(clash), s)
        # target
        if isinstance(s.target, ast.Name) and not isinstance(et, tuple):
            tnames, ttypes = [s.target.id], [et]
        elif isinstance(s.target, (ast.Tuple, ast.List)) and isinstance(et, tuple) and len(s.target.elts) == 2 \
                and all(isinstance(e, ast.Name) for e in s.target.elts) and s.target.elts[0].id != s.target.elts[1].id:
            tnames, ttypes = [e.id for e in s.target.elts], list(et)
        else:
            raise self.err("loop target does not match the shape of the iterated values", s.target)
        body_assigned = plain_assigned(s.body)
        for v in tnames:
            if v in body_assigned:
                raise self.err("assignment to the loop variable %r" % v, s)
            if v in env and env[v].t == "obj":
                raise self.err("loop variable %r re-uses the name of an object parameter" % v, s)
        # loop-carried locals: bound before the loop and assigned in its body, in the order of their first
        # occurrence in the body (renaming / reordering initialisations does not change the text)
        occ = {}
        for nd in sorted((nd for st_ in s.body for nd in ast.walk(st_) if isinstance(nd, ast.Name)),
                         key=lambda nd: (nd.lineno, nd.col_offset)):
            occ.setdefault(nd.id, len(occ))
        carried = sorted([v for v in env if "#" not in v and v in body_assigned and env[v].t != "dead"
                          and v not in tnames], key=lambda v: occ[v])
        draws = "draws#" in env and self.body_draws(s.body, env)
        if not carried and not draws:
            raise self.err("a loop that changes no local bound before it", s)
        self.nloop += 1
        kloop = self.nloop
        body_name = "%s_l%d_body" % (self.base, kloop)
        # types of the carried locals: a literal / integer that the body turns into a number is a number from the start
        ctypes = {}
        for v in carried:
            ctypes[v] = {"lit": None, "T": "T", "nat": "nat", "listT": "listT", "bool": "bool"}.get(env[v].t)
            if env[v].t not in ("lit", "T", "nat", "listT", "bool"):
                raise self.err("the loop assigns %r of type %s" % (v, env[v].t), s)
        guesses = [dict(ctypes)]
        for v in carried:
            if ctypes[v] is None:
                guesses = [dict(g, **{v: t}) for g in guesses for t in ("T", "nat")]
        nat_to_T = [v for v in carried if ctypes[v] == "nat"]
        for sub in range(1, 2 ** len(nat_to_T)):
            g0 = dict(guesses[0])
            for i, v in enumerate(nat_to_T):
                if sub >> i & 1:
                    g0[v] = "T"
            guesses.append(g0)
        first_err = None
        for g in guesses:
            saved = (list(self.defs), self.nloop, list(self.stream_used))
            try:
                return self.for_typed(s, rest, env, k, lst, tnames, ttypes, carried, g, draws, kloop, body_name)
            except Unsupported as e:
                self.defs, self.nloop, self.stream_used = list(saved[0]), saved[1], list(saved[2])
                first_err = first_err or e
        raise first_err

    def body_draws(self, stmts, env):
        for st_ in stmts:
            for nd in ast.walk(st_):
                if isinstance(nd, ast.Call) and dotted(nd.func):
                    try:
                        if self.resolve_call(dotted(nd.func), {}, nd) in self.oracles:
                            return True
                    except Unsupported:
                        pass
        return False

    def for_typed(self, s, rest, env, k, lst, tnames, ttypes, carried, ctypes, draws, kloop, body_name):
        env_b = {}
        for v, val in env.items():
            env_b[v] = val
        state_names = list(carried) + (["draws#"] if draws else [])
        for v in carried:
            env_b[v] = Val(ctypes[v], mangle(v))
        if draws:
            env_b["draws#"] = Val("nat", "draws_k")
        for v, t in zip(tnames, ttypes):
            env_b[v] = Val(t, mangle(v))
        env_b["in#loop"] = True
        env_b["loop#targets"] = set(env.get("loop#targets", ())) | set(tnames)

        def fin(e):
            parts = []
            for v in carried:
                parts.append(self.state_code(e[v], ctypes[v], s))
            if draws:
                parts.append(e["draws#"].c)
            return self.tuple_of(parts)
        body = self.block(list(s.body), env_b, fin)
        cq = {"T": "T", "nat": "nat", "listT": "(list T)", "bool": "bool", "stream": "(nat -> T)"}
        st_types = [cq[ctypes[v]] for v in carried] + (["nat"] if draws else [])
        st_type = st_types[0] if len(st_types) == 1 else "(%s)%%type" % " * ".join(st_types)
        st_pat = [mangle(v) for v in carried] + (["draws_k"] if draws else [])
        el_type = cq[ttypes[0]] if len(ttypes) == 1 else "(%s * %s)%%type" % (cq[ttypes[0]], cq[ttypes[1]])
        unpack = ""
        if len(st_pat) > 1:
            unpack += "let '(%s) := st in\n" % ", ".join(st_pat)
        if len(tnames) > 1:
            unpack += "let '(%s) := el in\n" % ", ".join(mangle(v) for v in tnames)
        st_binder = "(st : %s)" % st_type if len(st_pat) > 1 else "(%s : %s)" % (st_pat[0], st_type)
        el_binder = "(el : %s)" % el_type if len(tnames) > 1 else "(%s : %s)" % (mangle(tnames[0]), el_type)
        # the body is an anonymous function in place (it closes over the locals it reads): a proof never names it
        body_fun = "(fun %s %s =>\n%s)" % (st_binder, el_binder, textwrap.indent(unpack + body, "   "))
        comment = "(* loop of %s, line %d: state = %s *)" % (
            self.qual, s.lineno, ", ".join(state_names).replace("draws#", "number of draws"))
        init = []
        for v in carried:
            init.append(self.state_code(env[v], ctypes[v], s))
        if draws:
            init.append(env["draws#"].c)
        env2 = dict(env)
        for v in carried:
            env2[v] = Val(ctypes[v], mangle(v))
        if draws:
            env2["draws#"] = Val("nat", "draws_k")
        # names bound only in the body and the loop variables have no certain value after the loop
        for v in assigned_names(s.body):
            if v not in carried:
                env2[v] = Val("dead")
        for v in tnames:
            env2[v] = Val("dead")
        return "let %s :=\n  %s\n  fold_left %s\n    %s %s in\n%s" % (
            self.pattern(st_pat), comment, textwrap.indent(body_fun, "  ").lstrip(), lst, self.tuple_of(init),
            self.block(rest, env2, k))

    # ---------------------------------------------------------------- the function
    def translate(self):
        a = self.node.args
        is_set = self.spec.get("mode") == "set"
        if a.vararg or (a.kwarg and not is_set) or a.kwonlyargs or getattr(a, "posonlyargs", []):
            raise self.err("*args / **kwargs / keyword-only parameters")
        decos = [dotted(d) for d in self.node.decorator_list]
        for d in decos:
            if d not in ("staticmethod", "classmethod"):
                raise self.err("decorator %s" % (d or "<expression>"))
        names = [x.arg for x in a.args]
        if self.cls and "staticmethod" not in decos:
            self.self_name, names = names[0], names[1:]
        else:
            self.self_name = None
        self.py_params = names + ([a.kwarg.arg] if a.kwarg else [])
        if B.has_node(self.node.body, (ast.FunctionDef, ast.AsyncFunctionDef, ast.ClassDef, ast.Global, ast.Nonlocal,
                                       ast.Yield, ast.YieldFrom, ast.Await, ast.Lambda, ast.While, ast.Try, ast.With)):
            raise self.err("nested function / lambda / global / yield / while / try / with")
        if self.spec.get("mode") == "set":
            return self.translate_set()
        self.returns = self.spec.get("returns")
        if self.returns not in ("T", "list T", "nat"):
            raise self.err("the spec gives no return type (T, list T, nat)")
        ptypes = self.spec.get("params", {})
        env, self.gen_params = {}, []
        if self.self_name:
            env[self.self_name] = Val("obj")
        for nme in names:
            if nme not in ptypes:
                raise self.err("parameter %r has no type in the spec" % nme)
            t = ptypes[nme]
            if t == "obj":
                env[nme] = Val("obj")
            elif t in ("T", "nat", "list T"):
                env[nme] = Val({"T": "T", "nat": "nat", "list T": "listT"}[t], mangle(nme))
                self.gen_params.append(("param", nme, t))
            else:
                raise self.err("parameter type %r in the spec" % t)
        for extra in ptypes:
            if extra not in names:
                raise self.err("the spec types a parameter %r that the function does not have" % extra)
        for at, t in self.attrs:
            if at.split(".")[0] not in env or env[at.split(".")[0]].t != "obj":
                raise self.err("the spec declares the attribute %s of something that is not an object parameter" % at)
            self.gen_params.append(("attr", at, t))
        stream = [o for o in self.oracles.values() if len(o) > 3 and o[3] == "stream"]
        if len(self.oracles) != len(stream) or len(stream) > 1:
            raise self.err("oracles of this front-end: at most one, [name, [literal args], \"T\", \"stream\"]")
        if stream:
            env["draws#"] = Val("nat", "0%nat")
        # lists built in this function (append targets must be among them)
        self.fresh_lists = set()
        for nd in ast.walk(self.node):
            if isinstance(nd, ast.Assign) and len(nd.targets) == 1 and isinstance(nd.targets[0], ast.Name) \
                    and isinstance(nd.value, (ast.List, ast.ListComp)):
                self.fresh_lists.add(nd.targets[0].id)
        for nd in ast.walk(self.node):
            if isinstance(nd, ast.Assign) and len(nd.targets) == 1 and isinstance(nd.targets[0], ast.Name) \
                    and nd.targets[0].id in self.fresh_lists and not isinstance(nd.value, (ast.List, ast.ListComp)):
                self.fresh_lists.discard(nd.targets[0].id)
        for nme in names:
            self.fresh_lists.discard(nme)

        def fall_off(e):
            raise self.err("the function can fall off its end without a return")
        body = self.block(list(self.node.body), env, fall_off)
        cq = {"T": "T", "nat": "nat", "list T": "(list T)", "sized": "nat"}
        binders = []
        if self.stream_used:
            binders.append("(draws : nat -> T)")
        for kind, key, t in self.gen_params:
            binders.append("(%s : %s)" % (mangle(key if kind == "param" else attr_var(key)), cq[t]))
        self.binders = binders
        self.defs.append("Definition %s %s : %s :=\n%s." % (self.coq, " ".join(binders), cq[self.returns], textwrap.indent(body, "  ")))
        return "\n\n".join(self.defs)

    # ---------------------------------------------------------------- set(): the declared data
    def translate_set(self):
        """box, criteria, documented optimum and coordinates declared by a benchmark class's set()"""
        self.returns = None
        ignore = set(self.spec.get("ignore", ["self.name", "self.robust_optimum", "self.robust_optimum_coords",
                                             "self.set_dimension"]))
        env = {self.self_name: Val("obj")}
        for nme in self.py_params:
            env[nme] = Val("dead")
        self.gen_params = [("param", "dim", "nat")]
        self.attrs = [("self.dimension", "nat")]
        self.fresh_lists = set()
        state0 = {"dimension": None, "parameters": None, "global_optimum": None, "global_optimum_coords": None, "costs": None}

        def attr_target(t):
            key = attr_key(t)
            return key if key and key.startswith(self.self_name + ".") and key.count(".") == 1 else None

        def run(stmts, st):
            """-> code of option (...)"""
            if not stmts:
                if st["parameters"] is None or st["costs"] is None:
                    raise self.err("set() ends without assigning self.parameters and self.costs")
                opt = "(Some %s)" % st["global_optimum"] if st["global_optimum"] else "None"
                co = "(Some %s)" % st["global_optimum_coords"] if st["global_optimum_coords"] else "None"
                return "Some (%s, %s, %s, %s)" % (st["parameters"], st["costs"], opt, co)
            s, rest = stmts[0], stmts[1:]
            if isinstance(s, ast.Expr) and isinstance(s.value, ast.Constant) and isinstance(s.value.value, str):
                return run(rest, st)
            if isinstance(s, ast.Raise):
                return "None"
            senv = dict(env)
            dim = st["dimension"]
            if isinstance(s, ast.Expr) and isinstance(s.value, ast.Call) and dotted(s.value.func) == self.self_name + ".set_dimension":
                c = s.value
                if c.args or len(c.keywords) != 1 or c.keywords[0].arg is not None:
                    raise self.err("set_dimension must be called as self.set_dimension(**kwargs)", s)
                return run(rest, dict(st, dimension=Val("nat", "dim")))
            if isinstance(s, ast.If):
                c = self.set_expr(s.test, senv, dim)
                if c.t != "bool":
                    raise self.err("condition of a non-boolean type", s.test)
                a = run(list(s.body) + list(rest), dict(st))
                b = run(list(s.orelse) + list(rest), dict(st))
                return "if %s then\n%s\nelse\n%s" % (c.c, textwrap.indent(a, "  "), textwrap.indent(b, "  "))
            if isinstance(s, ast.Assign) and len(s.targets) == 1 and attr_target(s.targets[0]):
                key = attr_target(s.targets[0])
                at = key.split(".", 1)[1]
                if key in ignore:
                    self.check_plain_data(s.value, s)
                    return run(rest, st)
                if at == "dimension":
                    v = self.set_expr(s.value, senv, dim)
                    if not (v.t == "lit" and v.q.denominator == 1 and v.q >= 0):
                        raise self.err("self.dimension is assigned something else than a non-negative integer literal", s)
                    return run(rest, dict(st, dimension=Val("lit", q=v.q, fl=False)))
                if at == "parameters":
                    return run(rest, dict(st, parameters=self.set_parameters(s.value, senv, dim)))
                if at == "costs":
                    return run(rest, dict(st, costs=self.set_costs(s.value, s)))
                if at == "global_optimum":
                    return run(rest, dict(st, global_optimum=self.toT(self.set_expr(s.value, senv, dim), s)))
                if at == "global_optimum_coords":
                    return run(rest, dict(st, global_optimum_coords=self.toList(self.set_expr(s.value, senv, dim), s)))
                raise self.err("assignment to %s (not declared data, not in the spec's ignore list)" % key, s)
            raise self.err("statement %s in set()" % type(s).__name__, s)
        body = run(list(self.node.body), state0)
        self.binders = ["(dim : nat)"]
        self.defs.append("Definition %s (dim : nat) : option (list (T * T) * list bool * option T * option (list T)) :=\n%s."
                         % (self.coq, textwrap.indent(body, "  ")))
        return "\n\n".join(self.defs)

    def check_plain_data(self, v, s):
        for nd in ast.walk(v):
            if not isinstance(nd, (ast.Constant, ast.List, ast.Tuple, ast.UnaryOp, ast.USub, ast.Load)):
                raise self.err("an ignored attribute is assigned something else than plain data", s)

    def set_expr(self, n, env, dim):
        """expression of set(): self.dimension is the current dimension value"""
        saved = self.attr_val

        def attr_val(a, t):
            if a == self.self_name + ".dimension":
                if dim is None:
                    raise self.err("self.dimension is read before it is set", n)
                return dim
            return saved(a, t)
        self.attr_val = attr_val
        self.attrs = [(self.self_name + ".dimension", "nat")]
        try:
            return self.expr(n, env)
        finally:
            self.attr_val = saved

    def set_parameters(self, v, env, dim):
        if isinstance(v, ast.Call) and dotted(v.func) == self.self_name + ".generate_paramlist":
            kws = {k.arg: k.value for k in v.keywords}
            if len(v.args) != 1 or dotted(v.args[0]) != self.self_name + ".dimension" or set(kws) != {"lb", "ub"}:
                raise self.err("generate_paramlist must be called as self.generate_paramlist(self.dimension, lb=A, ub=B)", v)
            if dim is None:
                raise self.err("self.dimension is read before it is set", v)
            lb, ub = self.toT(self.set_expr(kws["lb"], env, dim), v), self.toT(self.set_expr(kws["ub"], env, dim), v)
            return "(repeat (%s, %s) %s)" % (lb, ub, self.toNat(dim, v))
        if isinstance(v, ast.List) and v.elts:
            boxes = []
            for d in v.elts:
                if not isinstance(d, ast.Dict):
                    raise self.err("self.parameters: a list element that is not a dict literal", d)
                ks = [k.value if isinstance(k, ast.Constant) else None for k in d.keys]
                if ks.count("bounds") != 1 or ks.count("name") != 1 or any(k not in ("name", "bounds", "tol", "initial_value") for k in ks):
                    raise self.err("self.parameters: dict keys %s (name, bounds, optional tol / initial_value)" % ks, d)
                b = d.values[ks.index("bounds")]
                if not (isinstance(b, ast.List) and len(b.elts) == 2):
                    raise self.err("self.parameters: bounds must be a two-element list", b)
                boxes.append("(%s, %s)" % (self.toT(self.set_expr(b.elts[0], env, dim), b), self.toT(self.set_expr(b.elts[1], env, dim), b)))
            return "[%s]" % "; ".join(boxes)
        raise self.err("self.parameters is assigned something else than generate_paramlist(...) or a list of dicts", v)

    def set_costs(self, v, s):
        if not (isinstance(v, ast.List) and v.elts):
            raise self.err("self.costs is assigned something else than a list of dict literals", s)
        out = []
        for d in v.elts:
            if not isinstance(d, ast.Dict):
                raise self.err("self.costs: a list element that is not a dict literal", d)
            ks = [k.value if isinstance(k, ast.Constant) else None for k in d.keys]
            if sorted(ks, key=str) != ["criteria", "name"]:
                raise self.err("self.costs: dict keys %s (name, criteria)" % ks, d)
            c = d.values[ks.index("criteria")]
            if not (isinstance(c, ast.Constant) and c.value in ("minimize", "maximize")):
                raise self.err("self.costs: criteria must be the literal 'minimize' or 'maximize'", c)
            out.append("true" if c.value == "maximize" else "false")
        return "[%s]" % "; ".join(out)


class _NoJoin(Exception):
    pass


# ----------------------------------------------------------------------------------------------
def translate_spec(repo, spec):
    """-> (coq text, [{"function", "sha1", "source"}]); raises Unsupported."""
    path = os.path.join(repo, spec["source"])
    src = open(path).read()
    tree = ast.parse(src, filename=path)
    lines = src.splitlines(keepends=True)
    minfo = ModuleInfo(tree)
    done, parts, info, insts = {}, [], [], []
    for item in spec["functions"]:
        cls, name = item[0], item[1]
        qual = (cls + "." if cls else "") + name
        node = find_function(tree, cls or None, name, spec["source"])
        fs = function_source(lines, node)
        sha = hashlib.sha1(fs.encode()).hexdigest()
        if qual not in [i["function"] for i in info]:
            info.append({"function": qual, "sha1": sha, "source": fs})
        fspec = spec.get("types", {}).get(qual)
        if fspec is None:
            raise Unsupported("no typing for %s in the spec" % qual)
        ft = BenchTranslator(minfo, cls or None, name, fspec, node, done, tree)
        text = ft.translate()
        parts.append("(* %s, lines %d-%d of %s, sha1 %s *)\n%s" % (qual, node.lineno, node.end_lineno, spec["source"], sha, text))
        done[qual] = ft
        insts.append("Definition %s_R := @%s R R_ops." % (ft.coq, ft.coq))
    head = ("(* GENERATED by tools/py2coq_bench.py from %s - never edit, never commit.\n"
            "   Shallow Gallina definitions of: %s. *)\n" % (spec["source"], ", ".join(i["function"] for i in info)))
    body = textwrap.indent("\n\n".join(parts), "  ")
    text = head + PRELUDE + "\n" + SECTION_HEAD + "\n" + body + "\nEnd Gen.\n\n" \
        "(* the instances at the real numbers *)\n" + "\n".join(insts) + "\n"
    return text, info


def main(argv):
    import argparse
    ap = argparse.ArgumentParser(description=__doc__.split("\n")[0])
    ap.add_argument("--repo", default=os.environ.get("VERIF_REPO", "/repo"))
    ap.add_argument("--spec", required=True)
    ap.add_argument("--out", default="-")
    ap.add_argument("--write-reference", metavar="DIR", default=None)
    a = ap.parse_args(argv)
    spec = json.load(open(a.spec))
    if a.write_reference:
        for i in function_infos(a.repo, spec):
            open(os.path.join(a.write_reference, i["function"] + ".py.txt"), "w").write(i["source"])
        return 0
    try:
        text, info = translate_spec(a.repo, spec)
    except Unsupported as e:
        sys.stderr.write("py2coq_bench: %s\n" % e)
        return 2
    except SyntaxError as e:
        sys.stderr.write("py2coq_bench: the source does not parse: %s\n" % e)
        return 2
    if a.out == "-":
        sys.stdout.write(text)
    else:
        open(a.out, "w").write(text)
    return 0


if __name__ == "__main__":
    sys.exit(main(sys.argv[1:]))
