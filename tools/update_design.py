#!/usr/bin/env python3
"""Rewrites the generated blocks of DESIGN.md (between <!-- BEGIN x --> / <!-- END x --> markers):
   SEEDED: one row per seeded change (seeded/*/meta.json) with what it needs and which check catches it;
   STATUS: one row per property from MANIFEST.json."""
import glob, json, os, re
HERE = os.path.dirname(os.path.dirname(os.path.abspath(__file__)))
def block(name, text, s):
    b, e = "<!-- BEGIN %s -->" % name, "<!-- END %s -->" % name
    if b not in s:
        s += "\n%s\n%s\n" % (b, e)
    return re.sub(re.escape(b) + r".*?" + re.escape(e), lambda m: b + "\n" + text + "\n" + e, s, flags=re.S)
def one(x):
    return re.sub(r"\s+", " ", str(x)).replace("|", "/")
rows = ["| seeded change | property | what it breaks / needs | history: outcome when first tried, and after strengthening | latest regression run of the current check (tools/seed_regression.sh) |", "|---|---|---|---|---|"]
for d in sorted(glob.glob(os.path.join(HERE, "seeded", "*"))):
    try:
        m = json.load(open(os.path.join(d, "meta.json")))
    except Exception:
        continue
    what = m.get("clause") or m.get("breaks") or ""
    needs = m.get("needs", "")
    out = m.get("confirmed_by_lead") or m.get("confirmed") or ""
    try:
        r = json.load(open(os.path.join(d, "regression.json")))
        reg = "**%s** (%s, /repo %s, /verif %s)" % (r["result"], r.get("when", ""), r.get("repo_head", ""), r.get("verif_head", ""))
    except Exception:
        reg = "not re-run"
    rows.append("| %s | %s | %s — needs: %s | %s | %s |" % (os.path.basename(d), m.get("property", ""), one(what)[:400], one(needs)[:300], one(out)[:500], reg))
man = json.load(open(os.path.join(HERE, "MANIFEST.json")))
st = ["| property | claimed | level note |", "|---|---|---|"]
for c in man["checks"]:
    st.append("| %s | %s | %s |" % (c["property_id"], c["level_claimed"]["category"], one(c["level_note"])[:600]))
for n in man.get("not_applicable", []):
    st.append("| %s | not claimed | %s |" % (n["property_id"], one(n["reason"])))
p = os.path.join(HERE, "DESIGN.md")
s = open(p).read()
s = block("SEEDED", "\n".join(rows), s)
s = block("STATUS", "\n".join(st), s)
open(p, "w").write(s)
print("DESIGN.md updated:", len(rows) - 2, "seeded changes,", len(st) - 2, "properties")
