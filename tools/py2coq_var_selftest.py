#!/usr/bin/env python3
"""Differential self-test of the tape pass of tools/py2coq_var.py (not part of a check run).

The pass is source to source, so its output is still Python: for every function of GenProofs/specs/VariationGen.json
the REWRITTEN function (draws = reads of a tape at the draw counter) is executed by CPython and compared, bit for
bit, with the ORIGINAL method of artap.operators run with `random.random` / `random.uniform` scripted to return the
same tape in call order.  What it checks is exactly what the equivalence proofs cannot: that the k-th draw of the
running code is the tape entry the rewritten function reads at counter k (evaluation order, counter arithmetic,
callee counts, the desugared tuple stores, the dropped debug statement, `return a, b` as a list).

    PYTHONPATH=/repo /venv/bin/python tools/py2coq_var_selftest.py [cases per function, default 400]
    SELFTEST_FAULT=1 ...   the rewritten side reads a wrong tape entry now and then: disagreements expected
"""
import ast
import json
import os
import random as pyrandom
import sys
import types

HERE = os.path.dirname(os.path.abspath(__file__))
sys.path.insert(0, HERE)
import py2coq_var as V                                                          # noqa: E402

REPO = os.environ.get("VERIF_REPO", "/repo")
SPEC = os.path.join(HERE, "..", "coq", "theories", "GenProofs", "specs", "VariationGen.json")


class Tape:
    """the scripted random source: sequential for the original code, indexed for the rewritten one"""

    def __init__(self, values):
        self.values, self.pos = values, 0

    # original call shapes
    def seq_random(self):
        v = self.values[self.pos]
        self.pos += 1
        return v

    def seq_uniform(self, a, b):
        return self.seq_random()


class IndexedRandom:
    def __init__(self, values):
        self.values = values

    def random(self, k):
        if os.environ.get("SELFTEST_FAULT") and k % 3 == 2:
            return self.values[k - 1]                  # fault injection: the comparison must notice
        return self.values[k]

    def uniform(self, a, b, k):
        return self.values[k]


def build_rewritten(ops, classes):
    """one subclass per class with the rewritten methods compiled in a class body of the SAME name (name mangling)"""
    out = {}
    for cls, fns in classes.items():
        body = []
        for fn in fns:
            fn = ast.fix_missing_locations(fn)
            fn.decorator_list = []                    # staticmethod clip: called through self below, keep it plain
            body.append(fn)
        src = "class %s(_Base):\n" % cls + "\n".join(
            "\n".join("    " + ln for ln in ast.unparse(fn).splitlines()) for fn in body) + "\n"
        ns = {"_Base": getattr(ops, cls), "random": None, "pow": pow, "abs": abs, "min": min, "max": max,
              "list": list, "enumerate": enumerate, "print": lambda *a: None, "isinstance": isinstance, "complex": complex}
        exec(compile(src, "<rewritten %s>" % cls, "exec"), ns)
        out[cls] = (ns[cls], ns)
    return out


def main(argv):
    n_cases = int(argv[0]) if argv else 400
    sys.path.insert(0, REPO)
    import artap.operators as ops
    spec = json.load(open(SPEC))
    V.translate_spec(REPO, spec)
    classes = {}
    for qual, fn in V.LAST_REWRITTEN.items():
        cls, name = qual.split(".")
        if cls == "Operator":
            continue                                   # clip: no draws, not rewritten
        classes.setdefault(cls, []).append(fn)
    rew = build_rewritten(ops, classes)
    rng = pyrandom.Random(20261002)
    bad = total = nexc = 0
    eps = sys.float_info.epsilon
    for cls in sorted(classes):
        for case in range(n_cases):
            d = rng.choice([1, 2, 3, 5, 8])
            params = []
            for i in range(d):
                lb = rng.choice([-5.0, 0.0, 0.5, 1e-3, -1e6, 10.0])
                ub = lb + rng.choice([1.0, 0.25, 1e-9, 1e6, 3.0])
                params.append({"name": "x%d" % i, "bounds": [lb, ub]})
            def point():
                return [rng.choice([p["bounds"][0], p["bounds"][1], p["bounds"][0] + rng.random() * (p["bounds"][1] - p["bounds"][0])])
                        for p in params][:(d - 1 if rng.random() < 0.1 else d)] + ([7.5] if rng.random() < 0.2 else [])
            tape_vals = [rng.choice([0.0, 0.5, 0.25, 0.75, 0.999, rng.random(), rng.random()]) for _ in range(6 * d + 4)]
            prob = rng.choice([0.0, 0.3, 0.5, 1.0, 0.9])
            k0 = rng.choice([0, 0, 1, 3])
            if cls == "SimulatedBinaryCrossover":
                mk = lambda C: C(params, prob)
                args = (point(), point())
                meth, extra = "cross", (eps,)
            elif cls == "PmMutator":
                mk = lambda C: C(params, prob)
                args, meth, extra = (point(), 0), "mutate", ()
            elif cls == "UniformMutator":
                mk = lambda C: C(params, prob, rng.choice([0.5, 2.0]))
                args, meth, extra = (point(), 0), "mutate", ()
            else:
                mk = lambda C: C(params, prob, 10, 0.5)
                args, meth, extra = (point(), rng.choice([0, 3, 10])), "mutate", ()
            state = rng.getstate()
            tape = Tape([None] * k0 + tape_vals)
            tape.pos = k0
            orig = mk(getattr(ops, cls))
            saved = ops.random
            ops.random = types.SimpleNamespace(random=tape.seq_random, uniform=tape.seq_uniform)
            try:
                try:
                    want = getattr(orig, meth)(*[list(a) if isinstance(a, list) else a for a in args])
                except Exception as e:                 # IndexError of a short parent, complex power, ...
                    want = ("exception", type(e).__name__)
            finally:
                ops.random = saved
            rng.setstate(state)
            C, ns = rew[cls]
            ns["random"] = IndexedRandom([None] * k0 + tape_vals)
            obj = mk(C)
            try:
                got = getattr(obj, meth)(*[list(a) if isinstance(a, list) else a for a in args], *extra, k0)
            except Exception as e:
                got = ("exception", type(e).__name__)
            if isinstance(want, tuple) and want and want[0] != "exception":
                want = list(want)                      # `return x1, x2` is read as the list [x1, x2]
            total += 1
            nexc += isinstance(want, tuple) and bool(want) and want[0] == "exception"
            if repr(want) != repr(got):
                bad += 1
                if bad <= 5:
                    print("DISAGREE %s case %d\n  want %r\n  got  %r" % (cls, case, want, got))
    print("py2coq_var selftest: %d cases (%d of them exceptions), %d disagreements" % (total, nexc, bad))
    return 1 if bad else 0


if __name__ == "__main__":
    sys.exit(main(sys.argv[1:]))
