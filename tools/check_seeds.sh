#!/bin/bash
# verifies that every seeded patch still applies to /repo's HEAD (scratch worktree, removed afterwards)
WT=/tmp/seedchk_$$; git -C /repo worktree add --detach $WT -q || exit 2
rc=0
for d in /verif/seeded/*/; do
  if ! git -C $WT apply --check $d/patch.diff 2>/dev/null; then echo "DOES NOT APPLY: $(basename $d)"; rc=1; fi
done
git -C /repo worktree remove --force $WT
[ $rc = 0 ] && echo "all $(ls -d /verif/seeded/*/ | wc -l) seeded patches apply to $(git -C /repo rev-parse --short HEAD)"
exit $rc
