#!/bin/bash
# usage: tools/trymut2.sh CXX patch.diff [demo.py]  -- like trymut.sh but with its own work directory and without
# touching evidence/ (safe to run while other runs of the same check are going on).
P=$1; PATCH=$(readlink -f $2); DEMO=${3:+$(readlink -f $3)}
WT=/tmp/lead_wt_${P}_$$; W=/tmp/lead_work_${P}_$$
git -C /repo worktree add --detach $WT -q || exit 2
if [ -n "$DEMO" ]; then (cd $WT && PYTHONPATH=$WT timeout 600 /venv/bin/python $DEMO >/dev/null 2>&1; echo "demo clean rc=$?"); fi
git -C $WT apply $PATCH || { echo "patch does not apply"; git -C /repo worktree remove --force $WT; exit 2; }
if [ -n "$DEMO" ]; then (cd $WT && PYTHONPATH=$WT timeout 600 /venv/bin/python $DEMO 2>&1 | tail -3; echo "demo patched rc=${PIPESTATUS[0]}"); fi
mkdir -p $W
cd /verif && VERIF_REPO=$WT VERIF_WORK=$W VERIF_NO_EVIDENCE=1 timeout 1800 ./check $P --tier ${TIER:-quick} 2>&1 | grep -E "VIOLATION|quick:|thorough:" | tail -4
rm -rf $W
git -C /repo worktree remove --force $WT
