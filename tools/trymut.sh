#!/bin/bash
# usage: tools/trymut.sh CXX patch.diff [demo.py]  -- applies the patch in a scratch worktree, runs the demo (if given)
# on clean and patched trees and then ./check CXX against the patched tree; removes the worktree.
P=$1; PATCH=$(readlink -f $2); DEMO=${3:+$(readlink -f $3)}
WT=/tmp/lead_wt_$P_$$
git -C /repo worktree add --detach $WT -q || exit 2
if [ -n "$DEMO" ]; then (cd $WT && PYTHONPATH=$WT timeout 600 /venv/bin/python $DEMO >/dev/null 2>&1; echo "demo clean rc=$?"); fi
git -C $WT apply $PATCH || { echo "patch does not apply"; git -C /repo worktree remove --force $WT; exit 2; }
if [ -n "$DEMO" ]; then (cd $WT && PYTHONPATH=$WT timeout 600 /venv/bin/python $DEMO 2>&1 | tail -3; echo "demo patched rc=${PIPESTATUS[0]}"); fi
cd /verif && cp evidence/$P.json /tmp/ev_$P_$$.json 2>/dev/null
VERIF_REPO=$WT ./check $P --tier ${TIER:-quick} 2>&1 | tail -4
cp /tmp/ev_$P_$$.json evidence/$P.json 2>/dev/null; rm -f /tmp/ev_$P_$$.json
git -C /repo worktree remove --force $WT
