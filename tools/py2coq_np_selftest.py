#!/venv/bin/python
"""Differential self-test of tools/py2coq_np.py (run under /venv/bin/python, ~10 s):
the functions of artap that the numpy front-end translates are RUN by CPython / numpy on concrete inputs and the
definitions generated from the same source are evaluated by `vm_compute` on the same inputs (integers exactly;
epsilon_add at the exact rationals on dyadic inputs, where float arithmetic is exact); every case is one Coq goal
`generated ... = <what Python returned>`.  A disagreement is a translator (or prelude) bug, not a property violation.
Also: sources outside the subset must be rejected (Unsupported), never guessed.

usage: /venv/bin/python tools/py2coq_np_selftest.py [--repo /repo]
"""
import ast
import json
import os
import random
import subprocess
import sys
import tempfile
import warnings
from fractions import Fraction

HERE = os.path.dirname(os.path.abspath(__file__))
VERIF = os.path.dirname(HERE)
sys.path.insert(0, HERE)
import py2coq_np as NP   # noqa: E402


def zl(x):
    return "(%d)%%Z" % int(x)


def mat(m):
    return "[" + "; ".join("[" + "; ".join(zl(v) for v in row) + "]" for row in m) + "]"


def ql(x):
    f = Fraction(x)
    return "(%d # %d)%%Q" % (f.numerator, f.denominator)


def qmat(m):
    return "[" + "; ".join("[" + "; ".join(ql(v) for v in row) + "]" for row in m) + "]"


def main(argv):
    repo = argv[argv.index("--repo") + 1] if "--repo" in argv else os.environ.get("VERIF_REPO", "/repo")
    sys.path.insert(0, repo)
    warnings.simplefilter("ignore")
    import numpy as np
    from artap import doe, quality_indicator as qi
    rng = random.Random(0)
    goals = []

    def is_int_matrix(a):
        return all(float(v) == int(v) for row in a for v in row)

    # fullfact / ff2n / bbdesign / repeat_center: integer matrices
    level_lists = [[1], [2], [3], [2, 2], [2, 4, 3], [1, 3, 1, 2], [5, 1], [3, 3, 3], [2, 1, 2, 1, 2], [7, 2]]
    level_lists += [[rng.randint(1, 4) for _ in range(rng.randint(1, 5))] for _ in range(25)]
    for lv in level_lists:
        a = doe.fullfact(lv)
        assert is_int_matrix(a)
        goals.append(("fullfact %r" % (lv,), "fullfact_gen [%s] = %s" % ("; ".join(map(str, lv)), mat(a))))
    for n in range(1, 7):
        goals.append(("ff2n %d" % n, "ff2n_gen %d = %s" % (n, mat(doe.ff2n(n)))))
    for n in range(3, 9):
        for c in (0, 1, 3, n):
            goals.append(("bbdesign %d %d" % (n, c), "bbdesign_gen %d %d = Some %s" % (n, c, mat(doe.bbdesign(n, center=c)))))
    for n in (0, 1, 2):
        try:
            doe.bbdesign(n, center=1)
            raise SystemExit("bbdesign(%d) did not raise" % n)
        except AssertionError:
            goals.append(("bbdesign %d raises" % n, "bbdesign_gen %d 1 = None" % n))
    for n, r in ((3, 0), (2, 5), (0, 2)):
        a = doe.repeat_center(n, r)
        goals.append(("repeat_center %d %d" % (n, r), "repeat_center_gen %d %d = %s" % (n, r, mat(a))))
    # pbdesign slices: the size arithmetic for every n, and the tail on the sizes that are powers of two (seed ones((1, 1)))
    for n in list(range(1, 70)) + [127, 128, 129, 255, 256, 1000]:
        goals.append(("pbdesign size %d" % n, "pbdesign_size_gen %d = (%d, %d)" % (n, int(n), 4 * (int(n / 4) + 1))))
    for n in range(1, 34):
        N = 4 * (int(n / 4) + 1)
        if N & (N - 1) == 0:
            goals.append(("pbdesign tail %d" % n, "pbdesign_tail_gen [[1%%Z]] %d %d = %s" % (N.bit_length() - 1, n, mat(doe.pbdesign(n)))))
    # the sieve (sizes straddling squares and multiples of 6)
    for n in list(range(6, 60)) + [120, 121, 122, 168, 169, 170, 288, 289, 290, 1000, 1010, 2010]:
        p = [int(x) for x in doe._primes_from_2_to(n)]
        goals.append(("primes %d" % n, "primes_from_2_to_gen %d = [%s]" % (n, "; ".join(map(str, p)))))
    # epsilon_add on dyadic rationals (float arithmetic exact), ties and duplicates frequent
    grid = [k / 4 for k in range(-8, 9)]
    for _ in range(60):
        d = rng.randint(1, 3)
        ref = [[rng.choice(grid) for _ in range(d)] for _ in range(rng.randint(0, 4))]
        comp = [[rng.choice(grid) for _ in range(d)] for _ in range(rng.randint(0, 4))]
        e = qi.epsilon_add(ref, comp)
        call = "epsilon_add_gen Q Qltb Qminus 0%%Q %s %s" % (qmat(ref), qmat(comp))
        if e == float("inf"):
            goals.append(("epsilon_add inf", "match %s with IndicatorsGen.PInf => true | IndicatorsGen.Fin _ => false end = true" % call))
        else:
            goals.append(("epsilon_add %r %r" % (ref, comp),
                          "match %s with IndicatorsGen.PInf => false | IndicatorsGen.Fin q => Qeq_bool q %s end = true" % (call, ql(float(e)))))

    specs = [json.load(open(os.path.join(VERIF, "coq/theories/GenProofs/specs", m + ".json")))
             for m in ("DoeGen", "IndicatorsGen", "PrimesGen")]
    with tempfile.TemporaryDirectory(prefix="np_selftest_") as d:
        for sp in specs:
            text, _ = NP.translate_spec(repo, sp)
            open(os.path.join(d, sp["module"] + ".v"), "w").write(text)
            r = subprocess.run(["timeout", "300", "coqc", "-Q", os.path.join(VERIF, "coq/theories"), "Artap", "-Q", d, "ArtapGen",
                                os.path.join(d, sp["module"] + ".v")], capture_output=True, text=True)
            if r.returncode != 0:
                print("generated %s does not compile:\n%s" % (sp["module"], r.stderr[-1500:]))
                return 1
        bad = 0
        # one file per goal batch; a failing goal is located by bisection through `Fail`-free single goals
        head = ("From Coq Require Import List ZArith QArith Bool Arith.\nFrom Artap Require Import Base.QInst.\n"
                "From ArtapGen Require Import DoeGen IndicatorsGen PrimesGen.\nImport ListNotations.\nLocal Open Scope nat_scope.\n")

        def run(batch, name):
            p = os.path.join(d, name + ".v")
            with open(p, "w") as f:
                f.write(head)
                for _, g in batch:
                    f.write("Goal %s.\nProof. vm_compute. reflexivity. Qed.\n" % g)
            return subprocess.run(["timeout", "600", "coqc", "-Q", os.path.join(VERIF, "coq/theories"), "Artap", "-Q", d, "ArtapGen", p],
                                  capture_output=True, text=True).returncode == 0

        def locate(batch, name):
            nonlocal bad
            if run(batch, name):
                return
            if len(batch) == 1:
                bad += 1
                print("DISAGREEMENT: %s\n   %s" % (batch[0][0], batch[0][1][:400]))
                return
            h = len(batch) // 2
            locate(batch[:h], name + "a")
            locate(batch[h:], name + "b")
        locate(goals, "Cases")
        # rejected sources
        rejected = 0
        outside = [
            "def f(n):\n    H = np.zeros((n, n))\n    H[0, 0] = 1\n    return H\n",
            "def f(n):\n    while n > 0:\n        n -= 1\n    return n\n",
            "def f(levels):\n    return [x for x in levels]\n",
            "def f(n):\n    return np.ones((n, n))\n",
            "def f(n):\n    s = np.ones(n, dtype=np.bool)\n    s[1:5:2] = False\n    return s\n",
            "def f(levels):\n    return np.prod(levels, axis=0)\n",
            "def f(n):\n    return n - (-1.5)\n",
            "def f(n):\n    x = 1\n    for i in range(n):\n        if i > 2:\n            return x\n        x += i\n    return x\n",
            "def f(n, len):\n    return len(n)\n",
            "def f(n):\n    np = n\n    return np.zeros((n, n))\n",
        ]
        for k, src in enumerate(outside):
            pth = os.path.join(d, "m%d.py" % k)
            open(pth, "w").write("import numpy as np\n" + src)
            sp = {"source": "m%d.py" % k, "module": "M", "functions": [["", "f"]],
                  "types": {"f": {"params": {"n": "nat", "levels": "list nat", "len": "list nat"}}}}
            # parameters the function does not have are ignored by the front-end
            sp["types"]["f"]["params"] = {a.arg: sp["types"]["f"]["params"][a.arg] for a in ast.parse(src).body[0].args.args}
            try:
                NP.translate_spec(d, sp)
                print("NOT REJECTED: %s" % src)
            except NP.Unsupported:
                rejected += 1
        print("py2coq_np selftest: %d cases, %d disagreements; %d of %d sources outside the subset rejected" % (
            len(goals), bad, rejected, len(outside)))
        return 0 if bad == 0 and rejected == len(outside) else 1


if __name__ == "__main__":
    sys.exit(main(sys.argv[1:]))
