#!/usr/bin/env python3
"""py2coq_run - front-end of the fail-closed translator for the RUN LOOPS of the algorithms (algorithm_NSGAII.py
`NSGAII.run`): whole functions whose work is calls of operator objects (generator, evaluator, selector, crossover /
mutator through `self.generate`, data store) around a loop over generations.

    tools/py2coq.py --repo /repo --spec coq/theories/GenProofs/specs/NsgaRunGen.json --out X.v

A spec with `"frontend": "run"` is routed here by py2coq.translate_spec.  The translator proper is the effects front-end
(tools/py2coq_eff.py `EffTranslator`, itself a subclass of py2coq.FnTranslator): operator calls are EFFECTS (Section
variables `o_<name>`, observable ones logged in the typed event log, history-dependent ones get the log).  This module
is a subclass that adds a few things, each fail closed (notes/TRANSLATOR.md, "Phase 6"):

* `"stores": {"ind": {"population_id": "nat"}}` - a FIELD STORE `x.f = e` into an object the function does not own
  (an element of a list, a loop variable): the store is an EVENT `ev_store_<type>_<f> x e`, appended to the event
  log in program order (the object lives in the outside world; whoever reads the field later sees the last store in
  the log).  The translated function itself may not read a stored field (rejected), so no stale value can enter it;
* `"setup": ["<text of a statement>", ...]` - CONFIGURATION statements at the top level of the function (simple or
  compound, e.g. `if self.generator is None: ...`), pinned by their text and not translated.  They may only assign
  attributes of `self` that the spec does not declare (`attrs` / `writes`), may not bind locals, may not contain calls
  of declared effects / loops / return / raise, and every one must occur exactly once;
* `"fresh": true` on an effect: the call returns a new list object nobody else holds (the function may append to it);
* `for it in range(E)` for an integer expression E such as `G - 1` (exact Z subtraction; a negative bound is empty);
* `"pair": ["A", "B"]` on an effect (instead of `returns`): the call returns a 2-tuple, `a, b = f(...)` binds both;
* a method effect `<ind>.m` with `"receiver": "ind"` may have a RECORD type as receiver (`parent1.__class__(v)`), and
  reading a field of a new object (`child1.vector`) does not make the object escape;
* `"mode": "while_body"` / `"while_test"` + `"carried": "offsprings"`: a function of the shape
  `xs = []; while TEST: BODY; return xs` (xs is called `carried` in the translation) is translated as two functions: BODY as a function of the carried
  list (an in-out parameter, listed under `writes`) and TEST as a boolean function of it.  The frame (the three
  statements) is checked, the iteration itself (repeat BODY while TEST) is not translated;
* `"kwargs": "archive=self.archive"` on an effect: the call carries exactly these keyword arguments (pinned by text, not
  translated: what they hand over is part of the oracle);
* `"assigns": "arg0"` on an effect with a list result (statement only): the callee modifies the LOCAL list it
  gets as its first argument in place (`self.selector.pop_acceptance(individuals, individual)`); the oracle's result is
  the list's new value (a hidden loop-carried local, like the event log);
* logging calls (`silent`) may be given arithmetic over plain values (`"{}".format(a * b)`).

Everything else is as in py2coq_eff.py.  Stdlib only.
"""
import ast
import hashlib
import importlib.util
import json
import os
import sys

HERE = os.path.dirname(os.path.abspath(__file__))


def _load_eff():
    """tools/py2coq_eff.py: the copy that is already loaded, else a private one (it finds / loads py2coq.py itself)"""
    path = os.path.join(HERE, "py2coq_eff.py")
    for m in list(sys.modules.values()):
        f = getattr(m, "__file__", None)
        if f and os.path.abspath(f) == path and hasattr(m, "EffTranslator"):
            return m
    spec = importlib.util.spec_from_file_location("py2coq_eff_for_run", path)
    m = importlib.util.module_from_spec(spec)
    sys.modules["py2coq_eff_for_run"] = m
    spec.loader.exec_module(m)
    return m


eff = _load_eff()
base = eff.base
Unsupported = base.Unsupported
dotted, attr_key, attr_var, mangle, coq_type = base.dotted, base.attr_key, base.attr_var, base.mangle, base.coq_type


class RunTranslator(eff.EffTranslator):
    def __init__(self, mod, cls, name, spec, node, done):
        spec2 = {k: v for k, v in spec.items() if k not in ("stores", "setup")}
        # `"fresh": true` on an effect: the call returns a NEW list object that nobody else holds (the function may
        # append to it); trusted, like the `fresh` flag of an oracle in py2coq.py
        fresh = [d["call"] for d in spec.get("effects", []) if d.get("fresh")]
        spec2["effects"] = [{k: v for k, v in d.items() if k not in ("fresh", "pair", "kwargs", "assigns")}
                            for d in spec.get("effects", [])]
        self.eff_kwargs = {d["call"]: d["kwargs"] for d in spec.get("effects", []) if d.get("kwargs")}
        self.eff_assigns = {d["call"]: d["assigns"] for d in spec.get("effects", []) if d.get("assigns")}
        for k in ("mode", "carried"):
            spec2.pop(k, None)
        super().__init__(mod, cls, name, spec2, node, done)
        for d in spec.get("effects", []):
            if d.get("pair"):
                if d.get("returns") or len(d["pair"]) != 2 or d.get("new") or d.get("sets"):
                    raise Unsupported("effect %s: `pair` stands instead of `returns`" % d["call"], node, self.qual)
                self.effects[d["call"]].ret = ("prod", self.ptype(d["pair"][0]), self.ptype(d["pair"][1]))
        for f in fresh:
            if not base.is_list(self.effects[f].ret):
                raise Unsupported("effect %s: `fresh` needs a list as result" % f, node, self.qual)
        self.fresh_oracles = set(self.fresh_oracles) | set(fresh)
        for f, loc in self.eff_assigns.items():
            e = self.effects[f]
            if loc != "arg0":
                raise Unsupported("effect %s: `assigns` is \"arg0\" (the local list passed as first argument)" % f, node, self.qual)
            if not base.is_list(e.ret) or not e.args or e.args[0] != ("value", e.ret) or e.sets or e.new or e.raises:
                raise Unsupported("effect %s: `assigns` needs a list result of the type of its first argument" % f, node, self.qual)
        self.stores = {}
        for r, fs in spec.get("stores", {}).items():
            if r not in self.opaque and r not in self.records:
                raise Unsupported("stores: %s is not a declared opaque / record type" % r, node, self.qual)
            for f, t in fs.items():
                if r in self.records and f in dict(self.records[r]):
                    raise Unsupported("stores: field %s of %s is also declared as a readable field" % (f, r), node, self.qual)
                self.stores[(r, f)] = self.ptype(t)
        self.setup = list(spec.get("setup", []))
        if len(set(self.setup)) != len(self.setup):
            raise Unsupported("setup: a statement text is listed twice", node, self.qual)
        if self.stores and not self.has_evlog:
            raise Unsupported("stores need an event log (at least one observable effect)", node, self.qual)

    def reset(self):
        super().reset()
        self.used_stores = []
        self.setup_seen = {}

    # -- interface ------------------------------------------------------------------------------
    def iface(self):
        out = super().iface()
        extra = [("ev_store_%s_%s" % (r, attr_var(f)), "%s -> %s -> ev" % (coq_type(r), coq_type(self.stores[(r, f)])))
                 for (r, f) in self.used_stores]
        # store events go in front of the effect events / oracles (after the types and accessors)
        pos = next((i for i, (n, _) in enumerate(out) if n.startswith("ev_") or n.startswith("o_")), len(out))
        return out[:pos] + extra + out[pos:]

    def hidden_assigned(self, stmts):
        out = super().hidden_assigned(stmts)
        for st in stmts:
            for nd in ast.walk(st):
                if isinstance(nd, ast.Call) and self.eff_name(nd.func) in self.eff_assigns and nd.args \
                        and isinstance(nd.args[0], ast.Name) and nd.args[0].id not in out:
                    out.append(nd.args[0].id)
        if "evlog" not in out:
            for st in stmts:
                for nd in ast.walk(st):
                    if isinstance(nd, ast.Assign) and len(nd.targets) == 1 and isinstance(nd.targets[0], ast.Attribute) \
                            and isinstance(nd.targets[0].value, ast.Name) \
                            and any(f == nd.targets[0].attr for (_, f) in self.stores):
                        out.append("evlog")
                        return out
        return out

    # -- expressions ----------------------------------------------------------------------------
    def inert(self, e, env):
        if isinstance(e, ast.BinOp) and isinstance(e.op, (ast.Add, ast.Sub, ast.Mult)):
            return self.inert(e.left, env) and self.inert(e.right, env)
        return super().inert(e, env)

    def _expr(self, n, env, want):
        if isinstance(n, ast.Attribute) and isinstance(n.value, ast.Name) and isinstance(n.ctx, ast.Load) \
                and (env.get(n.value.id), n.attr) in self.stores:
            raise self.err("read of the stored field %s (stores are events: the function may not read them back)" % n.attr, n)
        if isinstance(n, ast.Attribute) and isinstance(n.value, ast.Name) and isinstance(n.ctx, ast.Load) \
                and n.value.id in self.owned and env.get(n.value.id) in self.records \
                and n.attr in dict(self.records[env[n.value.id]]):
            # reading a declared field of a new object hands out the field's value, not the object
            saved = self.owned[n.value.id]
            try:
                return super()._expr(n, env, want)
            finally:
                self.owned[n.value.id] = saved
        return super()._expr(n, env, want)

    def expr(self, n, env, want=None):
        if isinstance(n, ast.Attribute) and isinstance(n.value, ast.Name) and n.value.id in self.owned:
            saved = self.owned[n.value.id]
            try:
                return super().expr(n, env, want)
            finally:
                if env.get(n.value.id) in self.records and n.attr in dict(self.records[env[n.value.id]]):
                    self.owned[n.value.id] = saved
        return super().expr(n, env, want)

    def effect_call(self, n, e, env):
        if n.keywords and e.name in self.eff_kwargs:
            if ", ".join(ast.unparse(kw) for kw in n.keywords) != self.eff_kwargs[e.name]:
                raise self.err("keyword arguments of %s are not the ones the spec pins (%r)" % (e.name, self.eff_kwargs[e.name]), n)
            for kw in n.keywords:
                for nd in ast.walk(kw.value):
                    if isinstance(nd, ast.Name) and nd.id != "self":
                        raise self.err("pinned keyword argument of %s reads the local %r" % (e.name, nd.id), n)
            import copy as _copy
            n2 = _copy.copy(n)
            n2.keywords = []
            n2._kw_pinned = True
            return self.effect_call(n2, e, env)
        if e.name in self.eff_kwargs and not n.keywords and not getattr(n, "_kw_pinned", False):
            raise self.err("effect %s is called without the keyword arguments the spec pins" % e.name, n)
        if e.receiver is not None and e.receiver in self.records and e.receiver not in self.opaque:
            # a method of a record-typed local (`parent1.__class__(v)`): the object is the oracle's first argument
            self.opaque.append(e.receiver)
            try:
                return super().effect_call(n, e, env)
            finally:
                self.opaque.remove(e.receiver)
        return super().effect_call(n, e, env)

    def iter_spec(self, it, target, env, body_assigned=()):
        # `for it in range(E)` with an integer (Z) expression E, e.g. `range(G - 1)`: Python's range of a negative
        # number is empty, so is seq 0 (Z.to_nat E)
        if isinstance(it, ast.Call) and dotted(it.func) == "range" and "range" not in env and len(it.args) == 1 \
                and not it.keywords and isinstance(target, ast.Name) and isinstance(it.args[0], (ast.BinOp, ast.Name)):
            if "range" in getattr(self, "shadowed_builtins", ()):
                raise self.err("the module rebinds the builtin 'range'", it)
            c, t = self.expr(it.args[0], env)
            if t == "Z":
                return "(seq 0 (Z.to_nat %s))" % c, "nat", mangle(target.id), {target.id: "nat"}, None, None
        return super().iter_spec(it, target, env, body_assigned)

    # -- statements -----------------------------------------------------------------------------
    def setup_ok(self, s):
        declared = [a for a, _ in self.attrs] + [w for w, _ in self.writes]
        for nd in ast.walk(s):
            if isinstance(nd, (ast.For, ast.While, ast.Return, ast.Raise, ast.Try, ast.With, ast.Lambda, ast.Yield,
                               ast.Delete, ast.AugAssign, ast.Global, ast.Nonlocal, ast.Import, ast.ImportFrom,
                               ast.FunctionDef, ast.ClassDef, ast.NamedExpr, ast.ListComp, ast.GeneratorExp,
                               ast.SetComp, ast.DictComp, ast.Break, ast.Continue)):
                raise self.err("setup statement contains %s" % type(nd).__name__, s)
            if isinstance(nd, ast.Call) and self.eff_name(nd.func) in self.effects:
                raise self.err("setup statement calls the declared effect %s" % self.eff_name(nd.func), s)
            if isinstance(nd, ast.Assign):
                for t in nd.targets:
                    k = attr_key(t) if isinstance(t, ast.Attribute) else None
                    if k is None or not k.startswith("self.") or k.count(".") != 1:
                        raise self.err("setup statement assigns other than a plain attribute of self", s)
                    if any(d == k or d.startswith(k + ".") or d.startswith(k + "[") for d in declared):
                        raise self.err("setup statement assigns %s, which the spec declares" % k, s)
                    if any(e.split(".")[:2] == k.split(".") and e.count(".") == 1 for e in self.effects):
                        raise self.err("setup statement assigns %s, which is a declared effect" % k, s)

    def block(self, stmts, env, ctx, k):
        if not stmts:
            return k(env)
        s, rest = stmts[0], stmts[1:]
        if self.setup and isinstance(s, (ast.If, ast.Assign, ast.Expr)) and ast.unparse(s) in self.setup:
            if self.loop_stack or getattr(ctx, "handler", None) is not None or s not in self.node.body:
                raise self.err("setup statement below the top level of the function", s)
            self.setup_ok(s)
            self.setup_seen[ast.unparse(s)] = self.setup_seen.get(ast.unparse(s), 0) + 1
            return self.block(rest, env, ctx, k)
        if isinstance(s, ast.Expr) and isinstance(s.value, ast.Call) and self.eff_name(s.value.func, env) in self.eff_assigns:
            e = self.effects[self.eff_name(s.value.func, env)]
            a0 = s.value.args[0] if s.value.args else None
            if not (isinstance(a0, ast.Name) and env.get(a0.id) == e.ret):
                raise self.err("the first argument of %s is not a local list" % e.name, s)
            loc = a0.id
            if loc in [w for w, _ in self.writes] or loc in self.loop_targets:
                raise self.err("effect %s assigns %r, which is not a plain local" % (e.name, loc), s)
            (x, _), pre = self.with_pre(lambda: self.effect_call(s.value, e, env))
            inner = "let %s := %s in\n%s" % (mangle(loc), x, self.block(rest, env, ctx, k))
            return self.wrap(pre, inner, ctx, env)
        if isinstance(s, ast.Assign) and len(s.targets) == 1 and isinstance(s.targets[0], ast.Tuple) \
                and isinstance(s.value, ast.Call) and self.eff_name(s.value.func, env) in self.effects:
            e = self.effects[self.eff_name(s.value.func, env)]
            elts = s.targets[0].elts
            if not (isinstance(e.ret, tuple) and e.ret[0] == "prod") or len(elts) != 2 \
                    or not all(isinstance(x, ast.Name) for x in elts) or elts[0].id == elts[1].id:
                raise self.err("tuple assignment from other than a pair effect to two names", s)
            if self.loop_stack or any(x.id in env or x.id in self.loop_targets for x in elts):
                raise self.err("tuple assignment inside a loop / to a bound name", s)
            (x, t), pre = self.with_pre(lambda: self.effect_call(s.value, e, env))
            env2 = dict(env)
            env2[elts[0].id], env2[elts[1].id] = t[1], t[2]
            inner = "let %s := (fst %s) in\nlet %s := (snd %s) in\n%s" % (
                mangle(elts[0].id), x, mangle(elts[1].id), x, self.block(rest, env2, ctx, k))
            return self.wrap(pre, inner, ctx, env)
        if isinstance(s, ast.Assign) and len(s.targets) == 1 and isinstance(s.targets[0], ast.Attribute) \
                and isinstance(s.targets[0].value, ast.Name):
            tgt = s.targets[0]
            name = tgt.value.id
            key = (env.get(name), tgt.attr)
            if key in self.stores and name not in self.owned:
                if "evlog" not in env:
                    raise self.err("field store outside the scope of the event log", s)
                ft = self.stores[key]
                (c, _), pre = self.with_pre(lambda: self.expr(s.value, env, ft))
                if key not in self.used_stores:
                    self.used_stores.append(key)
                ev = "(ev_store_%s_%s %s %s)" % (key[0], attr_var(key[1]), mangle(name), c)
                inner = "let evlog := (evlog ++ [%s]) in\n%s" % (ev, self.block(rest, env, ctx, k))
                return self.wrap(pre, inner, ctx, env)
        return super().block(stmts, env, ctx, k)

    def _translate(self):
        text = super()._translate()
        for t in self.setup:
            if self.setup_seen.get(t, 0) < 1:
                raise self.err("the setup statement `%s` does not occur at the top level of the function" % t, self.node)
        # every listed statement occurs exactly once in the source (the translation may visit a statement more than
        # once, e.g. in a dry run)
        texts = [ast.unparse(st) for st in self.node.body]
        for t in self.setup:
            if texts.count(t) != 1:
                raise self.err("the setup statement `%s` occurs %d times" % (t, texts.count(t)), self.node)
        return text


function_infos = base.function_infos
LAST_TRANSLATORS = {}


def while_part(node, fspec, qual):
    """`def f(self, ...): carried = []; while TEST: BODY; return carried` -> a function definition with the carried
    list as an extra parameter and the body BODY (mode while_body) / `return TEST` (mode while_test)"""
    import copy
    carried = fspec.get("carried")
    body = [st for st in node.body
            if not (isinstance(st, ast.Expr) and isinstance(st.value, ast.Constant) and isinstance(st.value.value, str))]
    # the function's own name for the carried list (the spec's name stands for it: an alpha-renaming, made only if the
    # spec's name occurs nowhere in the function)
    own = body[0].targets[0].id if len(body) == 3 and isinstance(body[0], ast.Assign) and len(body[0].targets) == 1 \
        and isinstance(body[0].targets[0], ast.Name) else None
    if not isinstance(carried, str) or own is None or ast.unparse(body[0]) != "%s = []" % own \
            or not isinstance(body[1], ast.While) or body[1].orelse or ast.unparse(body[2]) != "return %s" % own:
        raise Unsupported("%s is not of the shape `xs = []; while ...: ...; return xs`" % qual, node)
    if own != carried:
        for nd in ast.walk(node):
            if (isinstance(nd, ast.Name) and nd.id == carried) or (isinstance(nd, ast.arg) and nd.arg == carried):
                raise Unsupported("%s uses the spec's name %r for something else than its carried list %r"
                                  % (qual, carried, own), node)
        node = copy.deepcopy(node)
        for nd in ast.walk(node):
            if isinstance(nd, ast.Name) and nd.id == own:
                nd.id = carried
        body = [st for st in node.body
                if not (isinstance(st, ast.Expr) and isinstance(st.value, ast.Constant) and isinstance(st.value.value, str))]
    loop = body[1]
    for nd in ast.walk(ast.Module(body=loop.body, type_ignores=[])):
        if isinstance(nd, (ast.Break, ast.Continue, ast.Return, ast.While, ast.Yield, ast.YieldFrom)):
            raise Unsupported("the while body of %s contains %s" % (qual, type(nd).__name__), nd)
    if carried in [a.arg for a in node.args.args]:
        raise Unsupported("the carried list %r is a parameter of %s" % (carried, qual), node)
    new = copy.deepcopy(node)
    new.args.args.append(ast.arg(arg=carried, annotation=None))
    if fspec["mode"] == "while_body":
        new.body = copy.deepcopy(loop.body)
    else:
        new.body = [ast.Return(value=copy.deepcopy(loop.test))]
        ast.copy_location(new.body[0], loop)
    ast.fix_missing_locations(new)
    return new


def translate_spec(repo, spec):
    """-> (coq text, [{"function", "sha1", "source"}]); raises Unsupported."""
    path = os.path.join(repo, spec["source"])
    src = open(path).read()
    tree = ast.parse(src, filename=path)
    lines = src.splitlines(keepends=True)
    done, parts, info, helpers = {}, [], [], set()
    for item in spec["functions"]:
        cls, name = item[0], item[1]
        qual = (cls + "." if cls else "") + name
        key = qual + ("#" + item[2] if len(item) > 2 else "")
        node = base.find_function(tree, cls or None, name, spec["source"])
        fs = base.function_source(lines, node)
        if qual not in [i["function"] for i in info]:
            info.append({"function": qual, "sha1": hashlib.sha1(fs.encode()).hexdigest(), "source": fs})
        fspec = spec.get("types", {}).get(key)
        if fspec is None:
            raise Unsupported("no typing for %s in the spec" % key)
        if fspec.get("mode") in ("guard", "body"):
            raise Unsupported("guard / body mode belongs to tools/py2coq.py (spec %s)" % key)
        if fspec.get("mode") in ("while_body", "while_test"):
            node = while_part(node, fspec, qual)
        elif fspec.get("mode"):
            raise Unsupported("mode %r (spec %s)" % (fspec.get("mode"), key))
        ft = RunTranslator(spec["module"], cls or None, name, fspec, node, done)
        ft.shadowed_builtins = base.module_shadows(tree, cls)
        ft.shadowed_extra = eff.module_shadows_extra(tree, cls)
        code = ft.translate()
        note = ""
        if ft.skipped:
            note += "\n(* NOT translated (designated by the spec; effects outside the result): %s *)" % "; ".join(
                "`%s` x%d" % (t.replace("*)", "* )"), c) for t, c in sorted(ft.skipped.items()))
        if ft.setup:
            note += "\n(* NOT translated (configuration statements, pinned by text): %s *)" % "; ".join(
                "`%s`" % t.replace("*)", "* )").replace("\n", " / ") for t in ft.setup)
        if ft.untracked_targets:
            note += "\n(* NOT translated: assignments of %s() to / appends to the untracked targets %s; logging *)" % (
                ", ".join(ft.untracked_sources) or "-", ", ".join(t.replace("*)", "* )") for t in ft.untracked_targets))
        if ft.used_stores:
            note += "\n(* field stores into objects of the outside world, as events: %s *)" % ", ".join(
                "%s.%s" % k for k in ft.used_stores)
        parts.append("(* %s.%s, lines %d-%d of %s, sha1 %s *)%s\n%s" % (
            cls or "<module>", name, node.lineno, node.end_lineno, spec["source"], hashlib.sha1(fs.encode()).hexdigest(), note, code))
        helpers |= ft.ghelpers
        done[key] = ft
        LAST_TRANSLATORS[key] = ft
    head = ("(* GENERATED by tools/py2coq_run.py (front-end of tools/py2coq.py / py2coq_eff.py) from %s - never edit, "
            "never commit.\n   Shallow Gallina definitions of: %s. *)\n"
            "From Coq Require Import String.\nFrom Coq Require Import List ZArith Bool Arith Floats.\nImport ListNotations.\n\n"
            % (spec["source"], ", ".join(i["function"] for i in info)))
    head += eff.EFF_HELPERS["py_outcome"] + "\n\n"
    head += "".join(base.GLOBAL_HELPERS[h] + "\n\n" for h in sorted(helpers))
    return head + "\n\n".join(parts) + "\n", info


def main(argv):
    import argparse
    ap = argparse.ArgumentParser(description=__doc__.split("\n")[0])
    ap.add_argument("--repo", default=os.environ.get("VERIF_REPO", "/repo"))
    ap.add_argument("--spec", required=True)
    ap.add_argument("--out", default="-")
    ap.add_argument("--write-reference", metavar="DIR", default=None)
    a = ap.parse_args(argv)
    spec = json.load(open(a.spec))
    if a.write_reference:
        for i in function_infos(a.repo, spec):
            open(os.path.join(a.write_reference, i["function"] + ".py.txt"), "w").write(i["source"])
        return 0
    try:
        text, info = translate_spec(a.repo, spec)
    except Unsupported as e:
        sys.stderr.write("py2coq_run: %s\n" % e)
        return 2
    except SyntaxError as e:
        sys.stderr.write("py2coq_run: the source does not parse: %s\n" % e)
        return 2
    if a.out == "-":
        sys.stdout.write(text)
    else:
        open(a.out, "w").write(text)
    return 0


if __name__ == "__main__":
    sys.exit(main(sys.argv[1:]))
