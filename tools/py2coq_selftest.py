#!/usr/bin/env python3
"""Differential self-test of tools/py2coq.py (the translator is trusted: this is what backs it).

Synthetic functions that exercise every construct of the supported subset are run by CPython on generated
inputs; the binary64 instance of the generated definition is evaluated by Coq (`vm_compute`) on the same
inputs and the results are compared bit for bit (an exception in Python = `None` in Coq).
  suite 1 (SRC):  the numeric / list-scan subset (zip / enumerate / range loops, return inside loops, continue,
                  index errors, % by zero, min / max, and / or, tuple joins, lifted continuations, comprehensions)
  suite 2 (SRC2): objects and lists - records with accessors, in-place list operations (append, extend, remove,
                  del, item assignment, reverse, xs[:n], copies) on fresh lists and on in-out parameters, break,
                  integer indices (negative = from the end), pick / sample oracles (random.choice / random.sample
                  replaced by scripted stubs), optional values and None tests, named flag expressions, observable
                  oracle calls (event log), dictionaries of lists, min / max / sorted with keys, cmp_to_key, while
                  loops with fuel, tuple assignment, divmod, int -> float mixing, constructor oracles, skipped
                  statements, body mode (the body of a loop over objects as a function of one object)
A third list (REJECT) holds sources that MUST be rejected.

    /venv/bin/python tools/py2coq_selftest.py          (exit 0 = all agree; needs coqc and /verif/coq built)
"""
import importlib.util
import json
import math
import os
import random
import subprocess
import sys
import tempfile
import textwrap

HERE = os.path.dirname(os.path.abspath(__file__))
VERIF = os.path.dirname(HERE)
spec_ = importlib.util.spec_from_file_location("py2coq", os.path.join(HERE, "py2coq.py"))
py2coq = importlib.util.module_from_spec(spec_)
spec_.loader.exec_module(py2coq)

SRC = '''
import math

def scan(p, q):
    dp = False
    dq = False
    for a, b in zip(p, q):
        if a > b:
            dq = True
            if dp:
                return 0
        elif b > a:
            dp = True
            if dq:
                return 0
    if dq == dp:
        return 0
    elif dp:
        return 1
    else:
        return 2

def first_far(xs, ys, tol):
    for i in range(len(xs)):
        if not abs(xs[i] - ys[i]) < tol:
            return i
    return len(xs)

def weighted(xs, ws):
    total = 0.0
    for i, x in enumerate(xs):
        w = ws[i % len(ws)]
        if w == 0:
            continue
        total += x / w
    return total

def clamp_sum(xs, lo, hi):
    acc = 0.0
    for x in xs:
        v = max(lo, min(x, hi))
        if v > 1.5 and acc > 2.0:
            acc = acc - v
        else:
            acc += v * 0.5
    return acc

def branches(a, b, flag):
    r = 0.0
    if flag:
        r = a
    if a < b:
        if b < 1.0:
            return r + 1.0
        r = r * 2.0
    elif a == b:
        r = -a
    s = r - b
    return s if s >= 0.5 or flag and a <= b else -s

def nested(rows, limit):
    count = 0
    for row in rows:
        for x in row:
            if x > limit:
                return count
            count += 1
    return count

def build(xs, ys, k):
    out = [x * k - y for x, y in zip(xs, ys)]
    out.append(k)
    res = list(map(lambda z: z / 2.0, out))
    return res

def clip3(v, lo, hi):
    return max(lo, min(v, hi))

def clip_all(xs, lo, hi):
    out = [clip3(x, lo, hi) for x in xs]
    return out

def safe_get(xs, i):
    return xs[i]

def sum2(xs, i):
    a = safe_get(xs, 0)
    return a + safe_get(xs, i) * clip3(a, 0.5, 2.0)

def lastish(xs):
    n = len(xs[:-1])
    if n > 1:
        return xs[-1] * 2.0
    return xs[-1]
'''

TYPES = {
    "scan": {"as": "scan_gen", "returns": "nat", "params": {"p": "list T", "q": "list T"}},
    "first_far": {"as": "first_far_gen", "returns": "nat", "params": {"xs": "list T", "ys": "list T", "tol": "T"}},
    "weighted": {"as": "weighted_gen", "returns": "T", "params": {"xs": "list T", "ws": "list T"}},
    "clamp_sum": {"as": "clamp_sum_gen", "returns": "T", "params": {"xs": "list T", "lo": "T", "hi": "T"}},
    "branches": {"as": "branches_gen", "returns": "T", "params": {"a": "T", "b": "T", "flag": "bool"}},
    "nested": {"as": "nested_gen", "returns": "nat", "params": {"rows": "list list T", "limit": "T"}},
    "build": {"as": "build_gen", "returns": "list T", "params": {"xs": "list T", "ys": "list T", "k": "T"}},
    "clip3": {"as": "clip3_gen", "returns": "T", "params": {"v": "T", "lo": "T", "hi": "T"}},
    "clip_all": {"as": "clip_all_gen", "returns": "list T", "params": {"xs": "list T", "lo": "T", "hi": "T"},
                 "calls": {"clip3": "clip3"}},
    "safe_get": {"as": "safe_get_gen", "returns": "T", "params": {"xs": "list T", "i": "nat"}},
    "sum2": {"as": "sum2_gen", "returns": "T", "params": {"xs": "list T", "i": "nat"},
             "calls": {"clip3": "clip3", "safe_get": "safe_get"}},
    "lastish": {"as": "lastish_gen", "returns": "T", "params": {"xs": "list T"}},
}

REJECT = {
    "try": "def f(x):\n    try:\n        return x\n    except ValueError:\n        return x\n",
    "global read": "EPS = 1.0\ndef f(x):\n    return x + EPS\n",
    "method call": "def f(x):\n    return x.real\n",
    "chained comparison": "def f(x):\n    return 0.0 < x < 1.0\n",
    "fall off the end": "def f(x):\n    if x > 0.0:\n        return x\n",
    "unbound local": "def f(x):\n    if x > 0.0:\n        y = x\n    return y\n",
    "loop local after loop": "def f(xs):\n    for x in xs:\n        y = x\n    return y\n",
    "decorator": "import functools\n@functools.lru_cache()\ndef f(x):\n    return x\n",
    "raise in and": "def f(xs, i):\n    return len(xs) > 0 and xs[i] > 0.0\n",
    "append to parameter": "def f(xs):\n    xs.append(1.0)\n    return xs\n",
    "alias of appended list": "def f(x):\n    a = [x]\n    b = a\n    a.append(x)\n    return b\n",
    "shadowed builtin": "from numpy import abs\ndef f(x):\n    return abs(x)\n",
    "unreachable": "def f(x):\n    return x\n    x = 1.0\n",
}
REJECT.update({
    "while without else only": "def f(x):\n    while x > 0.0:\n        x = x - 1.0\n    else:\n        x = 0.0\n    return x\n",
    "modify a shared parameter": "def f(xs):\n    xs[0] = 1.0\n    return 1.0\n",
    "alias then modify": "def f(xs):\n    ys = xs\n    ys.append(1.0)\n    return 1.0\n",
    "remove from parameter": "def f(xs, x):\n    xs.remove(x)\n    return x\n",
    "store modified list then modify": "def f(x):\n    a = [x]\n    b = []\n    b.append(a)\n    a.append(x)\n    return x\n",
    "assign to enumerate index": "def f(xs):\n    s = 0.0\n    for i, x in enumerate(xs):\n        i = 0\n        s += x\n    return s\n",
    "del slice": "def f(x):\n    a = [x, x]\n    del a[0:1]\n    return x\n",
    "dict comprehension": "def f(xs):\n    d = {x: x for x in xs}\n    return 1.0\n",
    "is on numbers": "def f(x):\n    if x is 1.0:\n        return x\n    return x\n",
    "string literal": "def f(x):\n    s = 'a'\n    return x\n",
    "sorted without key": "def f(xs):\n    ys = sorted(xs)\n    return 1.0\n",
    "min of a list without key": "def f(xs):\n    return min(xs)\n",
    "return in a value function without value": "def f(x):\n    if x > 0.0:\n        return\n    return x\n",
    "attribute write not declared": "def f(x):\n    x.real = 1.0\n    return 1.0\n",
    "with": "def f(x):\n    with open('a') as g:\n        pass\n    return x\n",
    "lambda outside map / key": "def f(x):\n    g = lambda y: y\n    return x\n",
})
REJECT_TYPES = {"f": {"as": "f_gen", "returns": "T", "params": {"x": "T", "xs": "list T", "i": "nat"}}}



# ----------------------------------------------------------------------------------------------
# second suite: the constructs added for the object / list code (records, in-place list operations on
# in-out parameters, break, picks / samples, optional values, flags, events, dictionaries, min / max /
# sorted with keys, while with fuel, tuple assignment, divmod, int -> float mixing, body mode, skip)
# An object of the record type `pt` is a SimpleNamespace(x, k, features={'w': ..}) in Python and the
# triple (x, k, w) in Coq; accessors / oracles / pick indices are passed to the binary64 instance.
# ----------------------------------------------------------------------------------------------
from types import SimpleNamespace
import functools

SRC2 = """
import random
import functools

def listops(xs, v, i):
    ys = list(xs)
    ys.append(v)
    ys[i] = ys[i] + 1.0
    ys[0] *= 2.0
    zs = ys.copy()
    zs.extend(xs)
    del zs[i]
    zs.remove(v)
    zs.reverse()
    return zs[:3]

def first_big(xs, lim):
    found = 0.0
    seen = []
    for x in xs:
        if x > lim:
            found = x
            break
        seen.append(x)
    return found + len(seen)

def drain(xs, x):
    removed = 0
    for index, y in enumerate(list(xs)):
        if y > x:
            del xs[index - removed]
            removed += 1
        elif y == x:
            break
    xs.append(x)
    return removed > 0

def back(xs, i, j):
    return xs[i - j]

def heavy(ps, lim):
    out = []
    for p in ps:
        if p.features['w'] * p.x > lim and p.k != 2:
            out.append(p.k)
    return out

def pick_far(ps, p):
    near = []
    for i in range(len(ps)):
        if ps[i].x < p.x:
            near.append(i)
    if len(near) > 0:
        del ps[random.choice(near)]
    else:
        ps.remove(random.choice(ps))
    ps.append(p)
    return

def duel(ps):
    if len(ps) == 1:
        chosen = ps[0]
    else:
        pair = random.sample(ps, 2)
        if pair[0].k < pair[1].k:
            return pair[0]
        if pair[0].x > pair[1].x:
            chosen = pair[0]
        else:
            chosen = random.choice(pair)
    return chosen

class Box:
    def cached(self, p):
        value = None
        if self.ready and 'hook' in dir(self):
            value = self.hook(p)
            if value is not None:
                self.count += 1
        if value is None:
            value = self.compute(p)
        return value

    def bump_all(self, ps):
        for p in ps:
            if p.x > self.limit:
                continue
            p.x = p.x + 1.0
            p.features['w'] *= 2.0
            for i in range(len(p.vec)):
                p.vec[i] = p.vec[i] + p.x

def store(x):
    y = [x]
    y[0] = x + 1.0
    return y[0]

def rebound(xs):
    s = 0.0
    for i in range(len(xs)):
        xs = xs[:-1]
        s += xs[i]
    return s

def groups(ps):
    d = {}
    for p in ps:
        if p.k not in d:
            d[p.k] = []
        d[p.k].append(p.x)
    return d

def extremes(ps, up):
    if up:
        best = max(ps, key=lambda q: q.x)
    else:
        best = min(ps, key=lambda q: q.features['w'])
    return best

def by_weight(ps, n, rev):
    r = sorted(ps, key=lambda q: q.features['w'])
    if rev:
        r.reverse()
    return r[:n]

def order(p, q):
    if p.k == q.k:
        if -p.x < -q.x:
            return -1
        elif -p.x > -q.x:
            return 1
        return 0
    if p.k < q.k:
        return -1
    return 1

def ranked(ps, n):
    return sorted(ps, key=functools.cmp_to_key(order))[:n]

def digits(n, base):
    out = []
    for i in range(n):
        acc, scale = 0., 1.
        while i > 0:
            i, r = divmod(i, base)
            scale *= base
            acc += r / scale
            if scale > 100.0:
                break
        out.append(acc)
    return out

def countdown(x, step):
    n = 0
    while x > 0.0:
        x = x - step
        n += 1
        if n == 5:
            continue
    return x

def shifts(p, tols, d):
    kids = []
    for i in range(len(p.vec)):
        t = tols[i]
        for sign in [-1, 1]:
            v = p.vec.copy()
            v[i] += sign * t
            kids.append(make(v))
            kids[-1].log.append(p)
    total = 0.0
    for kid in kids:
        total += kid.x - d
    return total

"""

PT = "pt"       # SimpleNamespace(x, k, features={'w': ..}, vec) <-> ((x, k), w, vec) in Coq


def mkpt(rng):
    return SimpleNamespace(x=rng.choice(GRID), k=rng.randrange(4), features={"w": rng.choice(GRID)},
                           vec=[rng.choice(GRID) for _ in range(rng.choice([0, 1, 2, 3]))], log=[])


def enc2(v, t):
    if t == PT:
        return "(%s, %s, %s, %s)" % (fl(v.x), "%d%%nat" % v.k, fl(v.features["w"]), enc2(v.vec, "list T"))
    if t == "Z":
        return "(%d)%%Z" % v
    if t.startswith("list "):
        return "[" + "; ".join(enc2(x, t[5:]) for x in v) + "]"
    if t.startswith("opt "):
        return "None" if v is None else "(Some %s)" % enc2(v, t[4:])
    if t.startswith("prod "):
        a, b = split2(t[5:])
        return "(%s, %s)" % (enc2(v[0], a), enc2(v[1], b))
    if t.startswith("dict "):
        a, b = split2(t[5:])
        return "[" + "; ".join("(%s, %s)" % (enc2(k_, a), enc2(x, b)) for k_, x in v.items()) + "]"
    return enc(v, t)


def split2(s):
    """'(A) (B)' -> A, B"""
    depth, i = 0, 0
    assert s[0] == "("
    for i, ch in enumerate(s):
        depth += ch == "("
        depth -= ch == ")"
        if depth == 0:
            break
    return s[1:i], s[i + 1:].strip()[1:-1]


def eqb2(t):
    if t == PT:
        return "pt_eqb"
    if t == "Z":
        return "Z.eqb"
    if t.startswith("list "):
        return "(leqb %s)" % eqb2(t[5:])
    if t.startswith("opt "):
        return "(oeqb %s)" % eqb2(t[4:])
    if t.startswith("prod "):
        a, b = split2(t[5:])
        return "(peqb %s %s)" % (eqb2(a), eqb2(b))
    if t.startswith("dict "):
        a, b = split2(t[5:])
        return "(leqb (peqb %s %s))" % (eqb2(a), eqb2(b))
    return eqb(t)


def gen2(t, rng):
    if t == PT:
        return mkpt(rng)
    if t == "Z":
        return rng.randrange(-3, 4)
    if t.startswith("list "):
        return [gen2(t[5:], rng) for _ in range(rng.choice([0, 1, 2, 3, 3, 4]))]
    return gen(t, rng)


ACC = {"f_pt_x": "(fun p : PT => fst (fst (fst p)))", "f_pt_k": "(fun p : PT => snd (fst (fst p)))",
       "f_pt_features_w": "(fun p : PT => snd (fst p))", "f_pt_vec": "(fun p : PT => snd p)", "eqb_pt": "pt_eqb",
       "of_nat": "(fun n : nat => PrimFloat.of_uint63 (Uint63.of_Z (Z.of_nat n)))"}
RECS = {"pt": {"x": "T", "k": "nat", "features[\"w\"]": "T", "vec": "list T"}}

# per function: spec entry, python driver (args dict, rng) -> (python result in the shape of the Coq result, extra
# interface terms), result type for the comparison
TYPES2 = {
    "listops": {"spec": {"returns": "list T", "params": {"xs": "list T", "v": "T", "i": "nat"}}, "res": "list T"},
    "first_big": {"spec": {"returns": "T", "params": {"xs": "list T", "lim": "T"}}, "res": "T"},
    "drain": {"spec": {"returns": "bool", "params": {"xs": "list T", "x": "T"}, "writes": [["xs", "list T"]]},
              "res": "prod (bool) (list T)", "post": lambda r, a: (r, a["xs"])},
    "back": {"spec": {"returns": "T", "params": {"xs": "list T", "i": "nat", "j": "nat"}}, "res": "T"},
    "heavy": {"spec": {"returns": "list nat", "records": RECS, "params": {"ps": "list pt", "lim": "T"}}, "res": "list nat"},
    "pick_far": {"spec": {"returns": "writes", "records": RECS, "params": {"ps": "list pt", "p": "pt"},
                          "writes": [["ps", "list pt"]], "picks": ["random.choice"]},
                 "res": "list pt", "post": lambda r, a: a["ps"], "picks": 2},
    "duel": {"spec": {"returns": "pt", "records": RECS, "params": {"ps": "list pt"}, "picks": ["random.choice"],
                      "samples": ["random.sample"]}, "res": "pt", "picks": 1, "samples": 2},
    "store": {"spec": {"returns": "T", "params": {"x": "T"}}, "res": "T"},
    "rebound": {"spec": {"returns": "T", "params": {"xs": "list T"}}, "res": "T"},
    "cached": {"cls": "Box", "spec": {"returns": "T", "opaque": ["P"], "params": {"p": "P"},
                        "attrs": [["self.ready", "bool"], ["self.count", "nat"]], "writes": [["self.count", "nat"]],
                        "flags": {"'hook' in dir(self)": "has_hook"},
                        "oracles": [["self.hook", ["P"], "opt T"], ["self.compute", ["P"], "T"]],
                        "events": ["self.hook", "self.compute"]},
               "res": "prod (prod (T) (nat)) (list nat)"},
    "groups": {"spec": {"returns": "dict nat list T", "records": RECS, "params": {"ps": "list pt"}}, "res": "dict (nat) (list T)"},
    "extremes": {"spec": {"returns": "pt", "records": RECS, "params": {"ps": "list pt", "up": "bool"}}, "res": "pt"},
    "by_weight": {"spec": {"returns": "list pt", "records": RECS, "params": {"ps": "list pt", "n": "nat", "rev": "bool"}}, "res": "list pt"},
    "order": {"spec": {"returns": "Z", "records": RECS, "params": {"p": "pt", "q": "pt"}}, "res": "Z"},
    "ranked": {"spec": {"returns": "list pt", "records": RECS, "params": {"ps": "list pt", "n": "nat"},
                        "calls": {"order": "order"}}, "res": "list pt"},
    "digits": {"spec": {"returns": "list T", "params": {"n": "nat", "base": "nat"}}, "res": "list T", "fuel": 12},
    "countdown": {"spec": {"returns": "T", "params": {"x": "T", "step": "T"}}, "res": "T", "fuel": 9},
    "shifts": {"spec": {"returns": "T", "records": RECS, "params": {"p": "pt", "tols": "list T", "d": "T"},
                        "oracles": [["make", ["list T"], "pt", "constructor"]], "skip": ["kids[-1].log.append(p)"]},
               "res": "T"},
    "bump_all": {"cls": "Box", "tag": "body", "spec": {"mode": "body", "loop": "for p in ps", "sole": True, "objects": ["self"], "element": "pt",
                          "records": RECS, "attrs": [["self.limit", "T"]],
                          "writes": [["p.x", "T"], ["p.features[\"w\"]", "T"], ["p.vec", "list T"]]},
                 "res": "prod (prod (T) (T)) (list T)"},
}


def fl(x):
    if math.isnan(x):
        return "nan"
    if math.isinf(x):
        return "infinity" if x > 0 else "neg_infinity"
    h = float(x).hex()
    return "(%s)" % h if h.startswith("-") else h


def enc(v, t):
    if t == "T":
        return fl(v)
    if t == "nat":
        return "%d%%nat" % v
    if t == "bool":
        return "true" if v else "false"
    if t.startswith("list "):
        return "[" + "; ".join(enc(x, t[5:]) for x in v) + "]"
    raise ValueError(t)


def eqb(t):
    if t == "T":
        return "fbits_eqb"
    if t == "nat":
        return "Nat.eqb"
    if t == "bool":
        return "Bool.eqb"
    if t.startswith("list "):
        return "(leqb %s)" % eqb(t[5:])
    raise ValueError(t)


GRID = [0.0, -0.0, 1.0, 2.0, 0.5, 1.5, -1.0, 3.0, 1e-11, 1.0 + 2 ** -52, 0.1, 0.30000000000000004, 2.5, -2.5]


def gen(t, rng):
    if t == "T":
        return rng.choice(GRID)
    if t == "nat":
        return rng.randrange(4)
    if t == "bool":
        return rng.random() < 0.5
    if t.startswith("list "):
        return [gen(t[5:], rng) for _ in range(rng.choice([0, 1, 2, 3, 3, 4]))]
    raise ValueError(t)



TV = {"pt": "PT", "P": "unit"}
PRELUDE2 = [
    "Definition PT := (float * nat * float * list float)%type.",
    "Definition peqb {A B} (ea : A -> A -> bool) (eb : B -> B -> bool) (a b : A * B) : bool := ea (fst a) (fst b) && eb (snd a) (snd b).",
    "Definition pt_eqb : PT -> PT -> bool := peqb (peqb (peqb fbits_eqb Nat.eqb) fbits_eqb) (leqb fbits_eqb).",
    "Definition py_pt_eq : PT -> PT -> bool := peqb (peqb (peqb PrimFloat.eqb Nat.eqb) PrimFloat.eqb) (leqb PrimFloat.eqb).",
]
EXC = (IndexError, ZeroDivisionError, ValueError, KeyError)


def pt_of(v):
    """Individual(v) of the `shifts` test: x = first coordinate (0.0 for an empty vector)"""
    return SimpleNamespace(x=(v[0] if v else 0.0), k=0, features={"w": 0.0}, vec=list(v), log=[])


def drive(f, entry, ns, rng):
    """-> (interface terms {name: coq term}, argument terms [coq], expected python value or EXC marker)"""
    import copy
    sp = entry["spec"]
    iface, none = dict(ACC), object()
    iface["eqb_pt"] = "py_pt_eq"
    rnd = ns["random"]
    used = {}
    K, A, B = rng.randrange(6), rng.randrange(6), rng.randrange(6)

    def choice(seq):
        if not seq:
            raise IndexError
        used["pick"] = K % len(seq)
        return seq[used["pick"]]

    def sample(seq, k):
        if len(seq) < 2:
            raise ValueError
        i, j = A % len(seq), B % len(seq)
        if i == j:
            j = (i + 1) % len(seq)
        used["smp"] = (i, j)
        return [seq[i], seq[j]]
    rnd.choice, rnd.sample = choice, sample
    if f == "cached":
        ready, has_hook, cnt = rng.random() < 0.6, rng.random() < 0.7, rng.randrange(3)
        hv = rng.choice([None, None, 1.5, 0.0, -2.5])
        cv = rng.choice(GRID)
        log = []
        me = SimpleNamespace(ready=ready, count=cnt, compute=lambda p: (log.append(2), cv)[1])
        if has_hook:
            me.hook = lambda p: (log.append(1), hv)[1]
        r = ns["Box"].cached(me, "p")
        iface["o_self_hook"] = "(fun _ : unit => %s)" % enc2(hv, "opt T")
        iface["o_self_compute"] = "(fun _ : unit => %s)" % fl(cv)
        return iface, ["tt", enc(ready, "bool"), enc(cnt, "nat"), enc(has_hook, "bool")], ((r, me.count), log)
    if f == "bump_all":
        p, lim = mkpt(rng), rng.choice(GRID)
        q = copy.deepcopy(p)
        ns["Box"].bump_all(SimpleNamespace(limit=lim), [q])
        return iface, [enc2(p, PT), fl(lim)], ((q.x, q.features["w"]), q.vec)
    if f == "shifts":
        ns["make"] = pt_of
        iface["o_make"] = "(fun v : list float => (match v with a :: _ => a | [] => 0%float end, 0%nat, 0%float, v))"
    args = {nm: gen2(t.replace("list pt", "list " + PT).replace("pt", PT) if t in ("pt", "list pt") else t, rng)
            for nm, t in sp["params"].items()}
    if f in ("digits",):
        args["base"] = rng.choice([0, 2, 2, 3, 10])
        args["n"] = rng.randrange(9)
    if f == "countdown":
        args["step"] = rng.choice([0.5, 1.0, 1.5])
    terms = [enc2(v, (PT if sp["params"][nm] == "pt" else "list " + PT if sp["params"][nm] == "list pt" else sp["params"][nm]))
             for nm, v in args.items()]
    if "fuel" in entry:
        terms.append("%d%%nat" % entry["fuel"])
    work_args = copy.deepcopy(args)
    try:
        r = ns[f](*[work_args[nm] for nm in sp["params"]])
        exp = entry["post"](r, work_args) if "post" in entry else r
    except EXC:
        exp = EXC
    for i in range(entry.get("picks", 0)):
        iface["pick_%d" % (i + 1)] = "%d%%nat" % used.get("pick", 0)
    if entry.get("samples"):
        i, j = used.get("smp", (0, 1))
        iface["smp_1_1"], iface["smp_1_2"] = "%d%%nat" % i, "%d%%nat" % j
    return iface, terms, exp


def run_suite2(rng, work):
    import re
    os.makedirs(os.path.join(work, "pkg2"))
    open(os.path.join(work, "pkg2", "m.py"), "w").write(SRC2)
    types, functions = {}, []
    for f, entry in TYPES2.items():
        ty = dict(entry["spec"])
        ty["as"] = f + "_gen"
        item = [entry.get("cls", ""), f] + ([entry["tag"]] if "tag" in entry else [])
        functions.append(item)
        types[(entry["cls"] + "." if "cls" in entry else "") + f + ("#" + entry["tag"] if "tag" in entry else "")] = ty
    text, _ = py2coq.translate_spec(work, {"source": "pkg2/m.py", "module": "SelfGen2", "functions": functions, "types": types})
    open(os.path.join(work, "SelfGen2.v"), "w").write(text)
    ns = {}
    exec(compile(SRC2, "m2.py", "exec"), ns)
    lines = ["From Coq Require Import List ZArith Bool Arith Floats Uint63.", "From Artap Require Import Base.FloatInst.",
             "From ArtapGen Require Import SelfGen2.", "Import ListNotations.", "Open Scope float_scope.",
             "Fixpoint leqb {A} (e : A -> A -> bool) (a b : list A) : bool := match a, b with [] , [] => true "
             "| x :: a', y :: b' => e x y && leqb e a' b' | _, _ => false end.",
             "Definition oeqb {A} (e : A -> A -> bool) (a b : option A) : bool := match a, b with Some x, Some y => e x y "
             "| None, None => true | _, _ => false end."] + PRELUDE2
    n_cases, n_exc = 0, 0
    for f, entry in TYPES2.items():
        m = re.search(r"Definition %s_gen_f((?: \{\w+ : Type\})*) (.*?):= @" % f, text)
        if not m:
            raise SystemExit("no binary64 instance generated for %s" % f)
        tvars = re.findall(r"\{(\w+) : Type\}", m.group(1))
        lam = re.findall(r"\((\w+) : ", m.group(2))
        partial = "(option " in text.split("Definition %s_gen " % f)[1].split(":=")[0]
        for _ in range(entry.get("cases", 120)):
            iface, terms, exp = drive(f, entry, ns, rng)
            if exp is EXC:
                if not partial:
                    raise SystemExit("%s raised but its translation is total" % f)
                expc, n_exc = "None", n_exc + 1
            else:
                expc = enc2(exp, entry["res"])
                if "nan" in expc:
                    continue
                expc = "(Some %s)" % expc if partial else expc
            e = "(oeqb %s)" % eqb2(entry["res"]) if partial else eqb2(entry["res"])
            call = "(%s_gen_f %s)" % (f, " ".join(["(%s:=%s)" % (tv, TV[tv]) for tv in tvars] + [iface[nm] for nm in lam] + terms))
            lines.append("Eval vm_compute in (%s %s %s). (* %s *)" % (e, call, expc, f))
            n_cases += 1
    open(os.path.join(work, "cases2.v"), "w").write("\n".join(lines) + "\n")
    flags = ["-Q", os.path.join(VERIF, "coq", "theories"), "Artap", "-Q", work, "ArtapGen", "-w", "-inexact-float,-notation-overridden"]
    for fn in ("SelfGen2.v", "cases2.v"):
        pr = subprocess.run(["coqc"] + flags + [os.path.join(work, fn)], capture_output=True, text=True, timeout=900)
        if pr.returncode != 0:
            print("coqc failed on", fn, pr.stderr[-2500:])
            return 1
    outs = [l.strip() for l in pr.stdout.split("\n") if l.strip().startswith("= ")]
    bad = [i for i, o in enumerate(outs) if o != "= true"]
    print("positive (suite 2): %d cases on %d functions (%d expected exceptions), %d disagreements"
          % (n_cases, len(TYPES2), n_exc, len(bad)))
    evals = [l for l in lines if l.startswith("Eval")]
    for i in bad[:8]:
        print("  DISAGREE:", evals[i][:600])
    if len(outs) != n_cases:
        print("  expected %d results, got %d" % (n_cases, len(outs)))
        return 1
    return 1 if bad else 0


def main():
    rng = random.Random(0)
    work = tempfile.mkdtemp(prefix="py2coq_selftest_")
    os.makedirs(os.path.join(work, "pkg"))
    open(os.path.join(work, "pkg", "m.py"), "w").write(SRC)
    spec = {"source": "pkg/m.py", "module": "SelfGen", "functions": [["", f] for f in TYPES], "types": TYPES}
    text, _ = py2coq.translate_spec(work, spec)
    open(os.path.join(work, "SelfGen.v"), "w").write(text)
    ns = {}
    exec(compile(SRC, "m.py", "exec"), ns)
    lines = ["From Coq Require Import List ZArith Bool Arith Floats.", "From Artap Require Import Base.FloatInst.",
             "From ArtapGen Require Import SelfGen.", "Import ListNotations.", "Open Scope float_scope.",
             "Fixpoint leqb {A} (e : A -> A -> bool) (a b : list A) : bool := match a, b with [] , [] => true "
             "| x :: a', y :: b' => e x y && leqb e a' b' | _, _ => false end.",
             "Definition oeqb {A} (e : A -> A -> bool) (a b : option A) : bool := match a, b with Some x, Some y => e x y "
             "| None, None => true | _, _ => false end."]
    n_cases, partial = 0, {}
    for f, ty in TYPES.items():
        partial[f] = ("(option " in text.split("Definition %s " % ty["as"])[1].split(":=")[0])
        for _ in range(150):
            args = {p: gen(t, rng) for p, t in ty["params"].items()}
            try:
                r = ns[f](*[args[p] for p in ty["params"]])
                if isinstance(r, float) and math.isnan(r):
                    continue
                exp = enc(r, ty["returns"])
                exp = "(Some %s)" % exp if partial[f] else exp
            except (IndexError, ZeroDivisionError):
                if not partial[f]:
                    raise
                exp = "None"
            e = "(oeqb %s)" % eqb(ty["returns"]) if partial[f] else eqb(ty["returns"])
            call = "(%s_f %s)" % (ty["as"], " ".join(enc(args[p], t) for p, t in ty["params"].items()))
            lines.append("Eval vm_compute in (%s %s %s). (* %s %r *)" % (e, call, exp, f, args))
            n_cases += 1
    open(os.path.join(work, "cases.v"), "w").write("\n".join(lines) + "\n")
    flags = ["-Q", os.path.join(VERIF, "coq", "theories"), "Artap", "-Q", work, "ArtapGen", "-w", "-inexact-float,-notation-overridden"]
    for f in ("SelfGen.v", "cases.v"):
        p = subprocess.run(["coqc"] + flags + [os.path.join(work, f)], capture_output=True, text=True, timeout=600)
        if p.returncode != 0:
            print("coqc failed on", f, p.stderr[-2000:])
            return 1
    outs = [l.strip() for l in p.stdout.split("\n") if l.strip().startswith("= ")]
    bad = [i for i, o in enumerate(outs) if o != "= true"]
    print("positive: %d cases on %d functions (%d partial), %d disagreements" % (n_cases, len(TYPES), sum(partial.values()), len(bad)))
    evals = [l for l in lines if l.startswith("Eval")]
    for i in bad[:5]:
        print("  DISAGREE:", evals[i][:300])
    if len(outs) != n_cases:
        print("  expected %d results, got %d" % (n_cases, len(outs)))
        bad.append(-1)
    # negative: every source must be rejected with Unsupported
    missed = []
    for name, src in REJECT.items():
        d = tempfile.mkdtemp(prefix="py2coq_rej_")
        os.makedirs(os.path.join(d, "pkg"))
        open(os.path.join(d, "pkg", "m.py"), "w").write(src)
        ty = dict(REJECT_TYPES["f"])
        import ast as _ast
        fn = [n for n in _ast.parse(src).body if isinstance(n, _ast.FunctionDef)][0]
        ty["params"] = {a.arg: REJECT_TYPES["f"]["params"][a.arg] for a in fn.args.args}
        try:
            py2coq.translate_spec(d, {"source": "pkg/m.py", "module": "R", "functions": [["", "f"]], "types": {"f": ty}})
            missed.append(name)
        except py2coq.Unsupported as e:
            pass
    print("negative: %d sources, %d wrongly accepted %s" % (len(REJECT), len(missed), missed))
    rc2 = run_suite2(rng, work)
    return 1 if bad or missed or rc2 else 0


if __name__ == "__main__":
    sys.exit(main())
