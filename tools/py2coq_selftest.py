#!/usr/bin/env python3
"""Differential self-test of tools/py2coq.py (the translator is trusted: this is what backs it).

Synthetic functions that exercise every construct of the supported subset - and the real artap
functions translated by the checks - are run by CPython on generated inputs; the binary64 instance
of the generated definition is evaluated by Coq (`vm_compute`) on the same inputs and the results
are compared bit for bit (an exception in Python = `None` in Coq).  A second list holds sources that
MUST be rejected.

    /venv/bin/python tools/py2coq_selftest.py          (exit 0 = all agree; needs coqc and /verif/coq built)
"""
import importlib.util
import json
import math
import os
import random
import subprocess
import sys
import tempfile
import textwrap

HERE = os.path.dirname(os.path.abspath(__file__))
VERIF = os.path.dirname(HERE)
spec_ = importlib.util.spec_from_file_location("py2coq", os.path.join(HERE, "py2coq.py"))
py2coq = importlib.util.module_from_spec(spec_)
spec_.loader.exec_module(py2coq)

SRC = '''
import math

def scan(p, q):
    dp = False
    dq = False
    for a, b in zip(p, q):
        if a > b:
            dq = True
            if dp:
                return 0
        elif b > a:
            dp = True
            if dq:
                return 0
    if dq == dp:
        return 0
    elif dp:
        return 1
    else:
        return 2

def first_far(xs, ys, tol):
    for i in range(len(xs)):
        if not abs(xs[i] - ys[i]) < tol:
            return i
    return len(xs)

def weighted(xs, ws):
    total = 0.0
    for i, x in enumerate(xs):
        w = ws[i % len(ws)]
        if w == 0:
            continue
        total += x / w
    return total

def clamp_sum(xs, lo, hi):
    acc = 0.0
    for x in xs:
        v = max(lo, min(x, hi))
        if v > 1.5 and acc > 2.0:
            acc = acc - v
        else:
            acc += v * 0.5
    return acc

def branches(a, b, flag):
    r = 0.0
    if flag:
        r = a
    if a < b:
        if b < 1.0:
            return r + 1.0
        r = r * 2.0
    elif a == b:
        r = -a
    s = r - b
    return s if s >= 0.5 or flag and a <= b else -s

def nested(rows, limit):
    count = 0
    for row in rows:
        for x in row:
            if x > limit:
                return count
            count += 1
    return count

def build(xs, ys, k):
    out = [x * k - y for x, y in zip(xs, ys)]
    out.append(k)
    res = list(map(lambda z: z / 2.0, out))
    return res

def clip3(v, lo, hi):
    return max(lo, min(v, hi))

def clip_all(xs, lo, hi):
    out = [clip3(x, lo, hi) for x in xs]
    return out

def safe_get(xs, i):
    return xs[i]

def sum2(xs, i):
    a = safe_get(xs, 0)
    return a + safe_get(xs, i) * clip3(a, 0.5, 2.0)

def lastish(xs):
    n = len(xs[:-1])
    if n > 1:
        return xs[-1] * 2.0
    return xs[-1]
'''

TYPES = {
    "scan": {"as": "scan_gen", "returns": "nat", "params": {"p": "list T", "q": "list T"}},
    "first_far": {"as": "first_far_gen", "returns": "nat", "params": {"xs": "list T", "ys": "list T", "tol": "T"}},
    "weighted": {"as": "weighted_gen", "returns": "T", "params": {"xs": "list T", "ws": "list T"}},
    "clamp_sum": {"as": "clamp_sum_gen", "returns": "T", "params": {"xs": "list T", "lo": "T", "hi": "T"}},
    "branches": {"as": "branches_gen", "returns": "T", "params": {"a": "T", "b": "T", "flag": "bool"}},
    "nested": {"as": "nested_gen", "returns": "nat", "params": {"rows": "list list T", "limit": "T"}},
    "build": {"as": "build_gen", "returns": "list T", "params": {"xs": "list T", "ys": "list T", "k": "T"}},
    "clip3": {"as": "clip3_gen", "returns": "T", "params": {"v": "T", "lo": "T", "hi": "T"}},
    "clip_all": {"as": "clip_all_gen", "returns": "list T", "params": {"xs": "list T", "lo": "T", "hi": "T"},
                 "calls": {"clip3": "clip3"}},
    "safe_get": {"as": "safe_get_gen", "returns": "T", "params": {"xs": "list T", "i": "nat"}},
    "sum2": {"as": "sum2_gen", "returns": "T", "params": {"xs": "list T", "i": "nat"},
             "calls": {"clip3": "clip3", "safe_get": "safe_get"}},
    "lastish": {"as": "lastish_gen", "returns": "T", "params": {"xs": "list T"}},
}

REJECT = {
    "while loop": "def f(x):\n    while x > 0.0:\n        x = x - 1.0\n    return x\n",
    "try": "def f(x):\n    try:\n        return x\n    except ValueError:\n        return x\n",
    "global read": "EPS = 1.0\ndef f(x):\n    return x + EPS\n",
    "method call": "def f(x):\n    return x.real\n",
    "subscript store": "def f(x):\n    y = [x]\n    y[0] = x\n    return x\n",
    "break": "def f(xs):\n    for x in xs:\n        break\n    return 1.0\n",
    "chained comparison": "def f(x):\n    return 0.0 < x < 1.0\n",
    "fall off the end": "def f(x):\n    if x > 0.0:\n        return x\n",
    "unbound local": "def f(x):\n    if x > 0.0:\n        y = x\n    return y\n",
    "loop local after loop": "def f(xs):\n    for x in xs:\n        y = x\n    return y\n",
    "decorator": "import functools\n@functools.lru_cache()\ndef f(x):\n    return x\n",
    "raise in and": "def f(xs, i):\n    return len(xs) > 0 and xs[i] > 0.0\n",
    "append to parameter": "def f(xs):\n    xs.append(1.0)\n    return xs\n",
    "alias of appended list": "def f(x):\n    a = [x]\n    b = a\n    a.append(x)\n    return b\n",
    "shadowed builtin": "from numpy import abs\ndef f(x):\n    return abs(x)\n",
    "unreachable": "def f(x):\n    return x\n    x = 1.0\n",
    "iterated list rebound": "def f(xs):\n    s = 0.0\n    for i in range(len(xs)):\n        xs = xs[:-1]\n        s += xs[i]\n    return s\n",
}
REJECT_TYPES = {"f": {"as": "f_gen", "returns": "T", "params": {"x": "T", "xs": "list T", "i": "nat"}}}


def fl(x):
    if math.isnan(x):
        return "nan"
    if math.isinf(x):
        return "infinity" if x > 0 else "neg_infinity"
    h = float(x).hex()
    return "(%s)" % h if h.startswith("-") else h


def enc(v, t):
    if t == "T":
        return fl(v)
    if t == "nat":
        return "%d%%nat" % v
    if t == "bool":
        return "true" if v else "false"
    if t.startswith("list "):
        return "[" + "; ".join(enc(x, t[5:]) for x in v) + "]"
    raise ValueError(t)


def eqb(t):
    if t == "T":
        return "fbits_eqb"
    if t == "nat":
        return "Nat.eqb"
    if t == "bool":
        return "Bool.eqb"
    if t.startswith("list "):
        return "(leqb %s)" % eqb(t[5:])
    raise ValueError(t)


GRID = [0.0, -0.0, 1.0, 2.0, 0.5, 1.5, -1.0, 3.0, 1e-11, 1.0 + 2 ** -52, 0.1, 0.30000000000000004, 2.5, -2.5]


def gen(t, rng):
    if t == "T":
        return rng.choice(GRID)
    if t == "nat":
        return rng.randrange(4)
    if t == "bool":
        return rng.random() < 0.5
    if t.startswith("list "):
        return [gen(t[5:], rng) for _ in range(rng.choice([0, 1, 2, 3, 3, 4]))]
    raise ValueError(t)


def main():
    rng = random.Random(0)
    work = tempfile.mkdtemp(prefix="py2coq_selftest_")
    os.makedirs(os.path.join(work, "pkg"))
    open(os.path.join(work, "pkg", "m.py"), "w").write(SRC)
    spec = {"source": "pkg/m.py", "module": "SelfGen", "functions": [["", f] for f in TYPES], "types": TYPES}
    text, _ = py2coq.translate_spec(work, spec)
    open(os.path.join(work, "SelfGen.v"), "w").write(text)
    ns = {}
    exec(compile(SRC, "m.py", "exec"), ns)
    lines = ["From Coq Require Import List ZArith Bool Arith Floats.", "From Artap Require Import Base.FloatInst.",
             "From ArtapGen Require Import SelfGen.", "Import ListNotations.", "Open Scope float_scope.",
             "Fixpoint leqb {A} (e : A -> A -> bool) (a b : list A) : bool := match a, b with [] , [] => true "
             "| x :: a', y :: b' => e x y && leqb e a' b' | _, _ => false end.",
             "Definition oeqb {A} (e : A -> A -> bool) (a b : option A) : bool := match a, b with Some x, Some y => e x y "
             "| None, None => true | _, _ => false end."]
    n_cases, partial = 0, {}
    for f, ty in TYPES.items():
        partial[f] = ("(option " in text.split("Definition %s " % ty["as"])[1].split(":=")[0])
        for _ in range(150):
            args = {p: gen(t, rng) for p, t in ty["params"].items()}
            try:
                r = ns[f](*[args[p] for p in ty["params"]])
                if isinstance(r, float) and math.isnan(r):
                    continue
                exp = enc(r, ty["returns"])
                exp = "(Some %s)" % exp if partial[f] else exp
            except (IndexError, ZeroDivisionError):
                if not partial[f]:
                    raise
                exp = "None"
            e = "(oeqb %s)" % eqb(ty["returns"]) if partial[f] else eqb(ty["returns"])
            call = "(%s_f %s)" % (ty["as"], " ".join(enc(args[p], t) for p, t in ty["params"].items()))
            lines.append("Eval vm_compute in (%s %s %s). (* %s %r *)" % (e, call, exp, f, args))
            n_cases += 1
    open(os.path.join(work, "cases.v"), "w").write("\n".join(lines) + "\n")
    flags = ["-Q", os.path.join(VERIF, "coq", "theories"), "Artap", "-Q", work, "ArtapGen", "-w", "-inexact-float,-notation-overridden"]
    for f in ("SelfGen.v", "cases.v"):
        p = subprocess.run(["coqc"] + flags + [os.path.join(work, f)], capture_output=True, text=True, timeout=600)
        if p.returncode != 0:
            print("coqc failed on", f, p.stderr[-2000:])
            return 1
    outs = [l.strip() for l in p.stdout.split("\n") if l.strip().startswith("= ")]
    bad = [i for i, o in enumerate(outs) if o != "= true"]
    print("positive: %d cases on %d functions (%d partial), %d disagreements" % (n_cases, len(TYPES), sum(partial.values()), len(bad)))
    evals = [l for l in lines if l.startswith("Eval")]
    for i in bad[:5]:
        print("  DISAGREE:", evals[i][:300])
    if len(outs) != n_cases:
        print("  expected %d results, got %d" % (n_cases, len(outs)))
        bad.append(-1)
    # negative: every source must be rejected with Unsupported
    missed = []
    for name, src in REJECT.items():
        d = tempfile.mkdtemp(prefix="py2coq_rej_")
        os.makedirs(os.path.join(d, "pkg"))
        open(os.path.join(d, "pkg", "m.py"), "w").write(src)
        ty = dict(REJECT_TYPES["f"])
        import ast as _ast
        fn = [n for n in _ast.parse(src).body if isinstance(n, _ast.FunctionDef)][0]
        ty["params"] = {a.arg: REJECT_TYPES["f"]["params"][a.arg] for a in fn.args.args}
        try:
            py2coq.translate_spec(d, {"source": "pkg/m.py", "module": "R", "functions": [["", "f"]], "types": {"f": ty}})
            missed.append(name)
        except py2coq.Unsupported as e:
            pass
    print("negative: %d sources, %d wrongly accepted %s" % (len(REJECT), len(missed), missed))
    return 1 if bad or missed else 0


if __name__ == "__main__":
    sys.exit(main())
