#!/usr/bin/env python3
"""py2coq - fail-closed translator from a small pure subset of Python to shallow Gallina.

    tools/py2coq.py --repo /repo --spec coq/theories/GenProofs/specs/DominanceGen.json --out X.v

The spec (JSON; the same dict is an entry of TRANSLATED in harness/cXX.py) names a source file,
the functions to translate and their typing:

    {"source": "artap/operators.py", "module": "DominanceGen",
     "functions": [["ParetoDominance", "compare"]],
     "types": {"ParetoDominance.compare": {"as": "pareto_compare_gen", "returns": "nat",
                                           "params": {"p": "costvec", "q": "costvec"},
                                           "attrs": [["self.epsilons", "list T"]],
                                           "oracles": [["math.pow", ["T", "T"], "T"]],
                                           "calls": {"self.clip": "Operator.clip"}}}}

Everything outside the supported subset raises `Unsupported` with the construct and its line:
the translator never guesses.  See notes/TRANSLATOR.md for the subset, the translation scheme and
the simplifying assumptions (they are the trusted part of this tool).

Stdlib only (ast, json, hashlib); runs under python3 >= 3.8.
"""
import ast
import hashlib
import json
import os
import re
import sys
import textwrap


class Unsupported(Exception):
    def __init__(self, msg, node=None, fn=None):
        self.msg, self.line, self.fn = msg, getattr(node, "lineno", None), fn
        super().__init__(msg)

    def __str__(self):
        where = ""
        if self.fn:
            where += " in %s" % self.fn
        if self.line is not None:
            where += " (line %d)" % self.line
        return "unsupported%s: %s" % (where, self.msg)


class _NeedPartial(Exception):
    pass


class _NeedLitGuess(Exception):
    def __init__(self, name):
        self.name = name
        super().__init__(name)


# ----------------------------------------------------------------------------------------------
# types
# ----------------------------------------------------------------------------------------------
SCALARS = ("T", "Z", "nat", "bool")


def parse_type(s):
    s = s.strip()
    if s in SCALARS or s in ("costvec", "costvecb", "obj"):
        return s
    if s.startswith("list "):
        return ("list", parse_type(s[5:]))
    raise Unsupported("unknown type %r in the spec" % s)


def coq_type(t):
    if t in SCALARS:
        return t
    if t == "costvec":
        return "(list T * Z)%type"
    if t == "costvecb":
        return "(list T * bool)%type"
    if isinstance(t, tuple) and t[0] == "list":
        inner = coq_type(t[1])
        return "(list %s)" % inner
    if isinstance(t, tuple) and t[0] == "prod":
        return "(%s * %s)%%type" % (coq_type(t[1]), coq_type(t[2]))
    raise Unsupported("type %r has no Coq rendering" % (t,))


def is_lit(t):
    return isinstance(t, tuple) and t[0] == "lit"


RESERVED = set("""
T Z N nat bool list option Some None true false fst snd length combine fold_left nth_error removelast seq
ltb leb eqb add sub mul div neg absT negb andb orb if then else let in match with end fun forall exists as at
return Type Prop Set fix cofix struct where using Definition Record Section End Variable Context Fixpoint
st x r ret O S app rev map pair unit tt Nat Bool List
""".split())


def mangle(name):
    if name in RESERVED or name.startswith(("c_", "py_", "x_", "Build_")) or name.endswith("_gen") or "__" in name:
        return name.replace("__", "_u_") + "_v"
    return name


def const_name(v):
    """Name of the Section variable standing for the numeric literal v (Python int and float
    literals that denote the same number get the same name: 0 and 0.0 are both c_0)."""
    f = float(v)
    if f == int(f) and abs(f) < 1e15:
        s = str(int(f))
    else:
        s = repr(f)
    s = s.replace("-", "m").replace("+", "").replace(".", "_")
    return "c_" + s


FLOAT_INSTANCE = {"ltb": "PrimFloat.ltb", "leb": "PrimFloat.leb", "eqb": "PrimFloat.eqb",
                  "add": "PrimFloat.add", "sub": "PrimFloat.sub", "mul": "PrimFloat.mul", "div": "PrimFloat.div",
                  "neg": "PrimFloat.opp", "absT": "PrimFloat.abs"}


def float_literal(x):
    """exact Coq PrimFloat literal (hexadecimal) of a finite Python float"""
    h = float(x).hex()
    return h


IFACE_ORDER = ["ltb", "leb", "eqb", "add", "sub", "mul", "div", "neg", "absT"]
IFACE_TYPE = {"ltb": "T -> T -> bool", "leb": "T -> T -> bool", "eqb": "T -> T -> bool",
              "add": "T -> T -> T", "sub": "T -> T -> T", "mul": "T -> T -> T", "div": "T -> T -> T",
              "neg": "T -> T", "absT": "T -> T"}


# ----------------------------------------------------------------------------------------------
# small AST helpers
# ----------------------------------------------------------------------------------------------
def dotted(n):
    if isinstance(n, ast.Name):
        return n.id
    if isinstance(n, ast.Attribute):
        b = dotted(n.value)
        return None if b is None else b + "." + n.attr
    return None


def attr_key(n):
    """canonical text of an attribute path: self.vector, other.vector, self.features["precision"]"""
    if isinstance(n, ast.Name):
        return n.id
    if isinstance(n, ast.Attribute):
        b = attr_key(n.value)
        return None if b is None else b + "." + n.attr
    if isinstance(n, ast.Subscript):
        sl = n.slice
        if isinstance(sl, ast.Index):
            sl = sl.value
        if isinstance(sl, ast.Constant) and isinstance(sl.value, str) and re.fullmatch(r"\w+", sl.value):
            b = attr_key(n.value)
            return None if b is None else '%s["%s"]' % (b, sl.value)
    return None


def attr_var(key):
    return re.sub(r"\W+", "_", key).strip("_")


def append_target(s):
    """`X.append(e)` as a statement -> (node of X, node of e), else None"""
    if isinstance(s, ast.Expr) and isinstance(s.value, ast.Call) and isinstance(s.value.func, ast.Attribute) \
            and s.value.func.attr == "append" and len(s.value.args) == 1 and not s.value.keywords:
        return s.value.func.value, s.value.args[0]
    return None


def assigned_names(stmts):
    """Names bound by assignment / augmented assignment / loop targets anywhere in stmts (ordered)."""
    out = []

    def tgt(t):
        if isinstance(t, ast.Name):
            if t.id not in out:
                out.append(t.id)
        elif isinstance(t, (ast.Tuple, ast.List)):
            for e in t.elts:
                tgt(e)
        elif isinstance(t, (ast.Attribute, ast.Subscript)) and attr_key(t) and "." in attr_key(t):
            if attr_var(attr_key(t)) not in out:
                out.append(attr_var(attr_key(t)))

    class V(ast.NodeVisitor):
        def visit_Expr(self, n):
            a = append_target(n)
            if a:
                tgt(a[0])
            self.generic_visit(n)

        def visit_Assign(self, n):
            for t in n.targets:
                tgt(t)
            self.generic_visit(n)

        def visit_AugAssign(self, n):
            tgt(n.target)
            self.generic_visit(n)

        def visit_For(self, n):
            tgt(n.target)
            self.generic_visit(n)

    for s in stmts:
        V().visit(s)
    return out


def read_names(nodes):
    """Names loaded anywhere in the nodes, plus dotted attribute reads (`self.x`) as 'self.x'."""
    out = []
    for s in nodes:
        for n in ast.walk(s):
            if isinstance(n, ast.Name) and n.id not in out:
                out.append(n.id)
            if isinstance(n, ast.Attribute):
                d = dotted(n)
                if d and d not in out:
                    out.append(d)
            if isinstance(n, ast.AugAssign) and isinstance(n.target, ast.Name) and n.target.id not in out:
                out.append(n.target.id)
    return out


def has_node(stmts, kinds):
    return any(isinstance(n, kinds) for s in stmts for n in ast.walk(s))


def _stmt_exits(s):
    if isinstance(s, (ast.Return, ast.Continue)):
        return 0
    if isinstance(s, ast.If):
        return exits(s.body) + exits(s.orelse)
    return 1


def exits(stmts):
    """Number of places from which control falls out of the end of a statement list (0 = it always
    returns / continues).  Only the last statement can contribute more than one: the rest after an
    earlier `if` with several exits is turned into a definition of its own (one call per exit)."""
    if not stmts:
        return 1
    for s in stmts[:-1]:
        if _stmt_exits(s) == 0:
            return 0
    return _stmt_exits(stmts[-1])


TOKEN = re.compile(r"[A-Za-z_][A-Za-z_0-9']*")


def tokens(code):
    return set(TOKEN.findall(code))


# ----------------------------------------------------------------------------------------------
class Ctx:
    """Where `return` / raise / the end of the block go: function level or inside a loop body."""

    def __init__(self, fn, loop=None):
        self.fn, self.loop = fn, loop

    def ret_val(self, code, env):
        v = "(Some %s)" % code if self.fn.partial else code
        if self.loop is None:
            return v
        return self.loop.state(env, "(Some %s)" % v)

    def raise_(self, env):
        if not self.fn.partial:
            raise _NeedPartial()
        if self.loop is None:
            return "None"
        return self.loop.state(env, "(Some None)")

    def ret_opt(self, r, env):
        """propagate the `ret` content r of an inner loop (R if total, option R if partial)"""
        if self.loop is None:
            return r
        return self.loop.state(env, "(Some %s)" % r)

    def result_type(self):
        if self.loop is None:
            return self.fn.result_type()
        return self.loop.st_name


class Loop:
    def __init__(self, fn, k, carried, idx):
        self.fn, self.k, self.carried, self.idx = fn, k, carried, idx
        self.st_name = "%s_l%d_st" % (fn.base, k)
        self.body_name = "%s_l%d_body" % (fn.base, k)
        self.fields = ([("idx", "nat")] if idx else []) + [("v%d" % (i + 1), t) for i, (_, t) in enumerate(carried)]

    def proj(self, f):
        return "%s_l%d_%s" % (self.fn.base, self.k, f)

    def state(self, env, ret, bump=False):
        parts = []
        if self.idx:
            parts.append("(S %s)" % mangle(self.idx) if bump else mangle(self.idx))
        parts += [mangle(v) for v, _ in self.carried]
        return "(Build_%s %s)" % (self.st_name, " ".join(parts + [ret]))


class FnTranslator:
    def __init__(self, mod, cls, name, spec, node, done):
        self.mod, self.cls, self.pyname, self.spec, self.node = mod, cls, name, spec, node
        self.qual = (cls + "." if cls else "") + name
        self.coq = spec.get("as") or re.sub(r"\W", "_", name.strip("_")) + "_gen"
        self.base = self.coq[:-4] if self.coq.endswith("_gen") else self.coq
        self.done = done                      # qualified name -> FnTranslator of already translated functions
        if "returns" not in spec:
            raise Unsupported("the spec gives no return type", node, self.qual)
        self.ret_type = parse_type(spec["returns"]) if spec["returns"] != "writes" else None
        self.attrs = [(a, parse_type(t)) for a, t in spec.get("attrs", [])]
        self.writes = [(a, parse_type(t)) for a, t in spec.get("writes", [])]
        self.oracles, self.oracle_kw = [], {}
        self.oracle_once = set()
        self.fixed = dict(spec.get("fixed", {}))
        for entry in spec.get("oracles", []):
            o, args, r = entry[0], entry[1], entry[2]
            if len(entry) > 3:
                if entry[3] != "once":
                    raise Unsupported("oracle flag %r in the spec" % entry[3], node, self.qual)
                self.oracle_once.add(o)
            kws = [a.split("=")[0].strip() if "=" in a else None for a in args]
            self.oracles.append((o, [parse_type(a.split("=")[-1]) for a in args], parse_type(r)))
            self.oracle_kw[o] = kws
        if spec["returns"] == "writes":
            if not self.writes:
                raise Unsupported("returns = writes, but the spec lists no written attribute", node, self.qual)
            ts = [t for _, t in self.writes]
            self.ret_type = ts[0] if len(ts) == 1 else None
            for t in ts[1:]:
                self.ret_type = ("prod", self.ret_type, t) if self.ret_type else t
        self.calls = dict(spec.get("calls", {}))
        self.partial = False

    # -- bookkeeping --------------------------------------------------------------------------
    def reset(self):
        self.used, self.consts, self.used_oracles, self.helpers = set(), set(), [], set()
        self.defs, self.nloop, self.ncont, self.nfresh = [], 0, 0, 0
        self.once_sites = {}
        self.pre = None
        self.callee_ifaces = []

    def use(self, op):
        self.used.add(op)
        return op

    def const(self, v):
        n = const_name(v)
        self.consts.add((n, float(v)))
        return n

    def fresh(self):
        self.nfresh += 1
        return "x_%d" % self.nfresh

    def result_type(self):
        t = coq_type(self.ret_type)
        return "(option %s)" % t if self.partial else t

    def err(self, msg, node):
        return Unsupported(msg, node, self.qual)

    # -- interface ----------------------------------------------------------------------------
    def iface(self):
        """Section variables in canonical order: [(name, coq type)]."""
        out = [(o, IFACE_TYPE[o]) for o in IFACE_ORDER if o in self.used]
        out += [(n, "T") for n, _ in sorted(self.consts)]
        for o, args, r in self.oracles:
            if o in self.used_oracles:
                out.append((self.oracle_name(o), " -> ".join([coq_type(a) for a in args] + [coq_type(r)])))
        return out

    @staticmethod
    def oracle_name(o):
        return "o_" + o.replace(".", "_")

    # -- expressions --------------------------------------------------------------------------
    def coerce(self, code, t, want, node):
        if not is_lit(t):
            if want is not None and t != want:
                raise self.err("type mismatch: expected %s, found %s" % (want, t), node)
            return code, t
        v = t[1]
        if want == "T":
            return self.const(v), "T"
        if isinstance(v, float):
            raise self.err("float literal %r where %s is expected" % (v, want), node)
        if want == "Z":
            return "(%d)%%Z" % v, "Z"
        if want == "nat":
            if v < 0:
                raise self.err("negative literal where a natural number is expected", node)
            return "%d%%nat" % v, "nat"
        if want is None:
            return code, t
        raise self.err("numeric literal %r where %s is expected" % (v, want), node)

    def unify(self, a, ta, b, tb, node):
        if is_lit(ta) and is_lit(tb):
            raise self.err("operation on two numeric literals (fold it in the source or extend the translator)", node)
        if is_lit(ta):
            a, ta = self.coerce(a, ta, tb, node)
        if is_lit(tb):
            b, tb = self.coerce(b, tb, ta, node)
        if ta != tb:
            raise self.err("operands of different types %s and %s" % (ta, tb), node)
        return a, b, ta

    def bind_partial(self, opt_code):
        """hoist a partial operation (evaluated before the statement's own expression)"""
        if self.pre is None:
            raise Unsupported("partial operation outside a statement context")
        if not self.partial:
            raise _NeedPartial()
        x = self.fresh()
        self.pre.append(("bind", x, opt_code))
        return x

    def guard(self, cond_code):
        if not self.partial:
            raise _NeedPartial()
        self.pre.append(("guard", cond_code))

    def no_partial(self, f, what, node):
        """evaluate f() and reject partial operations inside it (conditionally evaluated operand)"""
        n0 = len(self.pre) if self.pre is not None else 0
        r = f()
        if self.pre is not None and len(self.pre) != n0:
            e = self.err("an operation that can raise inside %s (evaluated conditionally)" % what, node)
            e.cond_partial = True
            raise e
        return r

    def expr(self, n, env, want=None):
        code, t = self._expr(n, env, want)
        if want is not None:
            code, t = self.coerce(code, t, want, n)
        return code, t

    def _expr(self, n, env, want):
        if isinstance(n, ast.Constant):
            v = n.value
            if isinstance(v, bool):
                return ("true" if v else "false"), "bool"
            if isinstance(v, int):
                return str(v), ("lit", v)
            if isinstance(v, float):
                if v != v or v in (float("inf"), float("-inf")):
                    raise self.err("non-finite float literal", n)
                return self.const(v), "T"
            raise self.err("literal %r" % (v,), n)
        if isinstance(n, ast.Name):
            if n.id not in env:
                raise self.err("name %r is not a parameter or a local that is certainly bound here" % n.id, n)
            t = env[n.id]
            if t == "fixed":
                raise self.err("the fixed parameter %r is used other than in a comparison the spec decides" % n.id, n)
            if t == "obj":
                raise self.err("object %r used as a value (only its declared attributes can be read)" % n.id, n)
            if n.id in self.appended and self.alias_context:
                raise self.err("the list %r is appended to in this function and is aliased here" % n.id, n)
            return mangle(n.id), t
        if isinstance(n, (ast.Attribute, ast.Subscript)) and attr_key(n) and attr_key(n).split(".")[0].split("[")[0] in env \
                and env[attr_key(n).split(".")[0].split("[")[0]] == "obj":
            key = attr_key(n)
            var = attr_var(key)
            if var in env and (key in [a for a, _ in self.attrs] or key in [a for a, _ in self.writes]):
                if var in self.appended and self.alias_context:
                    raise self.err("the list %s is appended to in this function and is aliased here" % key, n)
                return mangle(var), env[var]
            if key in [a for a, _ in self.writes]:
                raise self.err("attribute %s is read before it is certainly assigned" % key, n)
            raise self.err("attribute read %s has no declared type (attrs in the spec: %s)"
                           % (key, [a for a, _ in self.attrs]), n)
        if isinstance(n, ast.UnaryOp):
            if isinstance(n.op, ast.Not):
                c, _ = self.expr(n.operand, env, "bool")
                return "(negb %s)" % c, "bool"
            if isinstance(n.op, ast.USub):
                if isinstance(n.operand, ast.Constant) and isinstance(n.operand.value, (int, float)) \
                        and not isinstance(n.operand.value, bool):
                    v = -n.operand.value
                    return (str(v), ("lit", v)) if isinstance(v, int) else (self.const(v), "T")
                c, t = self.expr(n.operand, env)
                if t == "T":
                    return "(%s %s)" % (self.use("neg"), c), "T"
                if t == "Z":
                    return "(Z.opp %s)" % c, "Z"
                raise self.err("unary minus on %s" % (t,), n)
            raise self.err("unary operator %s" % type(n.op).__name__, n)
        if isinstance(n, ast.BoolOp):
            op = "andb" if isinstance(n.op, ast.And) else "orb"
            parts = [self.expr(n.values[0], env, "bool")[0]]
            for v in n.values[1:]:
                parts.append(self.no_partial(lambda v=v: self.expr(v, env, "bool")[0],
                                             "the right operand of and/or", v))
            code = parts[-1]
            for p in reversed(parts[:-1]):
                code = "(%s %s %s)" % (op, p, code)
            return code, "bool"
        if isinstance(n, ast.IfExp):
            c, _ = self.expr(n.test, env, "bool")
            a, ta = self.no_partial(lambda: self.expr(n.body, env, want), "a conditional expression", n)
            b, tb = self.no_partial(lambda: self.expr(n.orelse, env, want), "a conditional expression", n)
            a, b, t = self.unify(a, ta, b, tb, n)
            return "(if %s then %s else %s)" % (c, a, b), t
        if isinstance(n, ast.Compare):
            if len(n.ops) != 1:
                raise self.err("chained comparison", n)
            # parameters fixed by the spec (a string selector such as distribution="uniform", or "not None"):
            # the comparison is decided here and the branch not taken is never looked at
            if isinstance(n.left, ast.Name) and n.left.id in self.fixed and n.left.id in env:
                fx, op, rhs = self.fixed[n.left.id], n.ops[0], n.comparators[0]
                if isinstance(rhs, ast.Constant) and isinstance(rhs.value, str) and isinstance(fx, dict) and "str" in fx \
                        and isinstance(op, (ast.Eq, ast.NotEq)):
                    return ("true" if (fx["str"] == rhs.value) == isinstance(op, ast.Eq) else "false"), "bool"
                if isinstance(rhs, ast.Constant) and rhs.value is None and fx == "not None" and isinstance(op, (ast.Is, ast.IsNot)):
                    return ("true" if isinstance(op, ast.IsNot) else "false"), "bool"
                raise self.err("comparison of the fixed parameter %r that the spec does not decide" % n.left.id, n)
            a, ta = self.expr(n.left, env)
            b, tb = self.expr(n.comparators[0], env)
            a, b, t = self.unify(a, ta, b, tb, n)
            return self.compare(n.ops[0], a, b, t, n), "bool"
        if isinstance(n, ast.BinOp):
            a, ta = self.expr(n.left, env)
            b, tb = self.expr(n.right, env)
            if is_lit(ta) and is_lit(tb) and want is not None:
                a, ta = self.coerce(a, ta, want, n)
            a, b, t = self.unify(a, ta, b, tb, n)
            return self.binop(n.op, a, b, t, n), t
        if isinstance(n, ast.Subscript):
            return self.subscript(n, env)
        if isinstance(n, ast.List):
            if not n.elts:
                raise self.err("empty list literal (its element type is not determined)", n)
            parts = [self.expr(e, env) for e in n.elts]
            t0 = next((t for _, t in parts if not is_lit(t)), None)
            if t0 is None:
                raise self.err("list literal of bare numeric literals (its element type is not determined)", n)
            codes = [self.coerce(c, t, t0, n)[0] for c, t in parts]
            return "[%s]" % "; ".join(codes), ("list", t0)
        if isinstance(n, ast.ListComp):
            if len(n.generators) != 1 or n.generators[0].ifs or getattr(n.generators[0], "is_async", 0):
                raise self.err("comprehension with a condition / several generators", n)
            g = n.generators[0]
            if isinstance(g.target, ast.Name):
                return self.map_lambda([g.target.id], n.elt, [g.iter], env, n)
            if isinstance(g.target, (ast.Tuple, ast.List)) and len(g.target.elts) == 2 \
                    and all(isinstance(e, ast.Name) for e in g.target.elts) and isinstance(g.iter, ast.Call) \
                    and dotted(g.iter.func) == "zip" and "zip" not in env and len(g.iter.args) == 2 and not g.iter.keywords:
                return self.map_lambda([e.id for e in g.target.elts], n.elt, g.iter.args, env, n)
            raise self.err("comprehension target / iterable", n)
        if isinstance(n, ast.Call):
            return self.call(n, env, want)
        raise self.err("expression %s" % type(n).__name__, n)

    def compare(self, op, a, b, t, node):
        k = type(op).__name__
        if t == "T":
            tab = {"Lt": "(%s %s %s)" % ("ltb", a, b), "Gt": "(%s %s %s)" % ("ltb", b, a),
                   "LtE": "(%s %s %s)" % ("leb", a, b), "GtE": "(%s %s %s)" % ("leb", b, a),
                   "Eq": "(%s %s %s)" % ("eqb", a, b), "NotEq": "(negb (%s %s %s))" % ("eqb", a, b)}
            if k not in tab:
                raise self.err("comparison %s on numbers" % k, node)
            self.use({"Lt": "ltb", "Gt": "ltb", "LtE": "leb", "GtE": "leb", "Eq": "eqb", "NotEq": "eqb"}[k])
            return tab[k]
        if t in ("Z", "nat"):
            m = "Z" if t == "Z" else "Nat"
            tab = {"Lt": "(%s.ltb %s %s)" % (m, a, b), "Gt": "(%s.ltb %s %s)" % (m, b, a),
                   "LtE": "(%s.leb %s %s)" % (m, a, b), "GtE": "(%s.leb %s %s)" % (m, b, a),
                   "Eq": "(%s.eqb %s %s)" % (m, a, b), "NotEq": "(negb (%s.eqb %s %s))" % (m, a, b)}
            if k not in tab:
                raise self.err("comparison %s on integers" % k, node)
            return tab[k]
        if t == "bool":
            if k == "Eq":
                return "(Bool.eqb %s %s)" % (a, b)
            if k == "NotEq":
                return "(negb (Bool.eqb %s %s))" % (a, b)
            raise self.err("comparison %s on booleans" % k, node)
        raise self.err("comparison %s on %s" % (k, t), node)

    def binop(self, op, a, b, t, node):
        k = type(op).__name__
        if t == "T":
            tab = {"Add": "add", "Sub": "sub", "Mult": "mul", "Div": "div"}
            if k not in tab:
                raise self.err("operator %s on numbers" % k, node)
            return "(%s %s %s)" % (self.use(tab[k]), a, b)
        if t in ("nat", "Z"):
            m = "Nat" if t == "nat" else "Z"
            if k == "Add":
                return "(%s.add %s %s)" % (m, a, b)
            if k == "Mult":
                return "(%s.mul %s %s)" % (m, a, b)
            if k == "Sub":
                if t == "nat":
                    raise self.err("subtraction of natural numbers (may go below zero)", node)
                return "(Z.sub %s %s)" % (a, b)
            if k == "Mod":
                # Python raises ZeroDivisionError for a zero divisor; for a non-negative dividend and a
                # positive divisor Python's % is Nat.modulo / Z.modulo (floor), equal on these arguments
                self.guard("(%s.eqb %s %s)" % (m, b, "0%nat" if t == "nat" else "0%Z"))
                return "(%s.modulo %s %s)" % (m, a, b)
            raise self.err("operator %s on integers" % k, node)
        raise self.err("operator %s on %s" % (k, t), node)

    def subscript(self, n, env):
        sl = n.slice
        if isinstance(sl, ast.Index):          # python 3.8
            sl = sl.value
        base_t = None
        if isinstance(n.value, ast.Name) and env.get(n.value.id) == "costvec":
            p = mangle(n.value.id)
            if isinstance(sl, ast.UnaryOp) and isinstance(sl.op, ast.USub) and isinstance(sl.operand, ast.Constant) \
                    and sl.operand.value == 1:
                return "(snd %s)" % p, "Z"
            if isinstance(sl, ast.Slice) and sl.lower is None and sl.step is None and self.is_minus1(sl.upper):
                return "(fst %s)" % p, ("list", "T")
            raise self.err("a signed-cost vector supports only v[-1] (marker) and v[:-1] (objectives)", n)
        base, base_t = self.expr(n.value, env)
        if not (isinstance(base_t, tuple) and base_t[0] == "list"):
            raise self.err("subscript of a value of type %s" % (base_t,), n)
        if isinstance(sl, ast.Slice):
            if sl.lower is None and sl.step is None and self.is_minus1(sl.upper):
                return "(removelast %s)" % base, base_t
            raise self.err("slice other than xs[:-1]", n)
        # safe idiom: xs[i] inside `for i in range(len(xs))`
        if isinstance(sl, ast.Name):
            for (lst_dump, ivar, evar) in self.safe_index:
                if sl.id == ivar and ast.dump(n.value) == lst_dump:
                    return evar, base_t[1]
        if self.is_minus1(sl):
            idx = "(Nat.pred (length %s))" % base
        else:
            idx, _ = self.expr(sl, env, "nat")
        return self.bind_partial("(nth_error %s %s)" % (base, idx)), base_t[1]

    @staticmethod
    def is_minus1(n):
        return isinstance(n, ast.UnaryOp) and isinstance(n.op, ast.USub) and isinstance(n.operand, ast.Constant) \
            and n.operand.value == 1 and not isinstance(n.operand.value, bool)

    def map_lambda(self, lam_args, body, iters, env, node):
        """list(map(lambda a, b: E, xs, ys)) / [E for a, b in zip(xs, ys)]: map over the zipped lists"""
        if len(lam_args) != len(iters) or not 1 <= len(iters) <= 2:
            raise self.err("map / comprehension over other than one or two lists", node)
        codes, ets = [], []
        for it in iters:
            c, t = self.expr(it, env)
            if not (isinstance(t, tuple) and t[0] == "list"):
                raise self.err("map over a value of type %s" % (t,), it)
            codes.append(c)
            ets.append(t[1])
        env2 = dict(env)
        for a, t in zip(lam_args, ets):
            if a in env:
                raise self.err("lambda / comprehension variable %r shadows a bound name" % a, node)
            env2[a] = t
        saved = self.loop_targets
        self.loop_targets = self.loop_targets | set(lam_args)
        try:
            e, te = self.no_partial(lambda: self.expr(body, env2), "a lambda / comprehension body", node)
        finally:
            self.loop_targets = saved
        if is_lit(te):
            raise self.err("lambda / comprehension body is a bare literal", node)
        if len(iters) == 1:
            return "(map (fun %s => %s) %s)" % (mangle(lam_args[0]), e, codes[0]), ("list", te)
        return "(map (fun '(%s, %s) => %s) (combine %s %s))" % (mangle(lam_args[0]), mangle(lam_args[1]), e,
                                                                 codes[0], codes[1]), ("list", te)

    def call(self, n, env, want):
        f = dotted(n.func)
        if f is None:
            raise self.err("call of a computed function", n)
        if n.keywords:
            if f not in self.oracle_kw:
                raise self.err("keyword arguments in a call", n)
            kws = self.oracle_kw[f]
            args = list(n.args) + [None] * (len(kws) - len(n.args))
            for kw in n.keywords:
                if kw.arg not in kws or kws.index(kw.arg) < len(n.args) or args[kws.index(kw.arg)] is not None:
                    raise self.err("keyword argument %r of %s" % (kw.arg, f), n)
                args[kws.index(kw.arg)] = kw.value
            if any(a is None for a in args):
                raise self.err("oracle %s called with missing arguments" % f, n)
            n = ast.copy_location(ast.Call(func=n.func, args=args, keywords=[]), n)
        args = n.args
        if f == "list" and len(args) == 1 and "list" not in env and isinstance(args[0], ast.Call) \
                and dotted(args[0].func) == "map" and "map" not in env and not args[0].keywords \
                and len(args[0].args) >= 2 and isinstance(args[0].args[0], ast.Lambda):
            lam = args[0].args[0]
            la = lam.args
            if la.vararg or la.kwarg or la.kwonlyargs or la.defaults or getattr(la, "posonlyargs", []):
                raise self.err("lambda with defaults / *args", lam)
            return self.map_lambda([a.arg for a in la.args], lam.body, args[0].args[1:], env, n)
        if any(isinstance(a, ast.Starred) for a in args):
            raise self.err("starred argument", n)
        shadow = f.split(".")[0]
        if shadow in env and env[shadow] != "obj":
            raise self.err("call through the local name %r" % shadow, n)
        if f in getattr(self, "shadowed_builtins", ()):
            raise self.err("the module rebinds the builtin %r (import / definition / star import)" % f, n)
        if f == "len" and len(args) == 1:
            a, t = self.expr(args[0], env)
            if not (isinstance(t, tuple) and t[0] == "list"):
                raise self.err("len() of a value of type %s" % (t,), n)
            return "(length %s)" % a, "nat"
        if f == "abs" and len(args) == 1:
            a, t = self.expr(args[0], env)
            if t == "T":
                return "(%s %s)" % (self.use("absT"), a), "T"
            if t == "Z":
                return "(Z.abs %s)" % a, "Z"
            raise self.err("abs() of a value of type %s" % (t,), n)
        if f in ("min", "max") and len(args) == 2:
            a, ta = self.expr(args[0], env)
            b, tb = self.expr(args[1], env)
            a, b, t = self.unify(a, ta, b, tb, n)
            if t != "T":
                raise self.err("%s() on %s" % (f, t), n)
            self.use("ltb")
            self.helpers.add("py_" + f)
            return "(py_%s %s %s)" % (f, a, b), "T"
        if f == "float" and len(args) == 1:
            a, t = self.expr(args[0], env, "T")
            return a, "T"
        if f == "tuple" and len(args) == 1:
            a, t = self.expr(args[0], env)
            if not (isinstance(t, tuple) and t[0] == "list"):
                raise self.err("tuple() of a value of type %s" % (t,), n)
            return a, t
        for o, ats, rt in self.oracles:
            if o == f:
                if len(args) != len(ats):
                    raise self.err("oracle %s called with %d arguments, declared with %d" % (o, len(args), len(ats)), n)
                cs = [self.expr(a, env, t)[0] for a, t in zip(args, ats)]
                if o in self.oracle_once:
                    # an impure oracle (a random draw): one Section variable stands for its single result, so it
                    # may be called at one place only, outside every loop / lambda
                    if self.loop_targets or self.once_sites.setdefault(o, (n.lineno, n.col_offset)) != (n.lineno, n.col_offset):
                        raise self.err("the impure oracle %s is called more than once / inside a loop" % o, n)
                if o not in self.used_oracles:
                    self.used_oracles.append(o)
                return ("(%s %s)" % (self.oracle_name(o), " ".join(cs)) if cs else self.oracle_name(o)), rt
        if f in self.calls:
            q = self.calls[f]
            if q not in self.done:
                raise self.err("call of %s = %s, which is not translated before this function" % (f, q), n)
            callee = self.done[q]
            ptypes = callee.param_list()
            if len(args) != len([p for p in ptypes if p[2] == "param"]) or any(p[2] != "param" for p in ptypes):
                raise self.err("call of %s with an argument list that does not match its parameters" % f, n)
            cs = [self.expr(a, env, t)[0] for a, (_, t, _) in zip(args, ptypes)]
            for name, ty in callee.iface():
                if name in IFACE_TYPE:
                    self.use(name)
                elif name.startswith("c_"):
                    self.consts.add((name, dict(callee.consts)[name]))
                else:
                    raise self.err("call of %s, which uses oracles" % f, n)
            code = "(@%s T %s)" % (callee.coq, " ".join([nm for nm, _ in callee.iface()] + cs))
            if callee.partial:
                return self.bind_partial(code), callee.ret_type
            return code, callee.ret_type
        raise self.err("call of %s (not a supported builtin, declared oracle or translated function)" % f, n)

    # -- statements ---------------------------------------------------------------------------
    def wrap(self, pre, inner, ctx, env):
        for item in reversed(pre):
            if item[0] == "bind":
                inner = "match %s with\n| Some %s =>\n%s\n| None => %s\nend" % (
                    item[2], item[1], textwrap.indent(inner, "  "), ctx.raise_(env))
            else:
                inner = "if %s then %s else\n%s" % (item[1], ctx.raise_(env), inner)
        return inner

    def with_pre(self, f):
        """run f() collecting hoisted partial operations; returns (result, pre)"""
        saved, self.pre = self.pre, []
        try:
            r = f()
            return r, self.pre
        finally:
            self.pre = saved

    def simple(self, stmts):
        """only assignments to names / pass / nested simple ifs"""
        for s in stmts:
            if isinstance(s, ast.Pass):
                continue
            if isinstance(s, (ast.Assign, ast.AugAssign)):
                continue
            if isinstance(s, ast.If) and self.simple(s.body) and self.simple(s.orelse):
                continue
            return False
        return True

    def block(self, stmts, env, ctx, k):
        """code of the statement list followed by the continuation k(env)"""
        if not stmts:
            return k(env)
        s, rest = stmts[0], stmts[1:]
        if isinstance(s, ast.Expr) and isinstance(s.value, ast.Constant) and isinstance(s.value.value, str):
            return self.block(rest, env, ctx, k)          # docstring
        if isinstance(s, ast.Pass):
            return self.block(rest, env, ctx, k)
        if isinstance(s, ast.Return):
            if rest:
                raise self.err("unreachable statement after return", rest[0])
            if s.value is None or self.spec["returns"] == "writes":
                raise self.err("return without a value / return in a function whose result is its attribute writes", s)
            (c, _), pre = self.with_pre(lambda: self.expr(s.value, env, self.ret_type))
            return self.wrap(pre, ctx.ret_val(c, env), ctx, env)
        if isinstance(s, ast.Continue):
            if ctx.loop is None:
                raise self.err("continue outside a loop", s)
            if rest:
                raise self.err("unreachable statement after continue", rest[0])
            return ctx.loop.state(env, "None", bump=True)
        if isinstance(s, (ast.Assign, ast.AugAssign)):
            return self.assign(s, rest, env, ctx, k)
        if append_target(s):
            return self.append(s, rest, env, ctx, k)
        if isinstance(s, ast.If):
            return self.if_(s, rest, env, ctx, k)
        if isinstance(s, ast.For):
            return self.for_(s, rest, env, ctx, k)
        raise self.err("statement %s" % type(s).__name__, s)

    def assign(self, s, rest, env, ctx, k):
        if isinstance(s, ast.Assign):
            if len(s.targets) != 1:
                raise self.err("chained assignment", s)
            tgt, val = s.targets[0], s.value
        else:
            tgt = s.target
            val = ast.BinOp(left=ast.Name(id=getattr(tgt, "id", None), ctx=ast.Load()), op=s.op, right=s.value)
            ast.copy_location(val, s)
            ast.copy_location(val.left, s)
        if isinstance(tgt, (ast.Attribute, ast.Subscript)) and attr_key(tgt) in [a for a, _ in self.writes] \
                and isinstance(s, ast.Assign):
            name = attr_var(attr_key(tgt))
        elif not isinstance(tgt, ast.Name):
            raise self.err("assignment to %s (only local names and the attributes listed under `writes` in the "
                           "spec can be assigned)" % (attr_key(tgt) or type(tgt).__name__), s)
        else:
            name = tgt.id
        if name in self.loop_targets:
            raise self.err("assignment to the loop variable %r" % name, s)
        if env.get(name) == "obj" or name == "self":
            raise self.err("assignment to the object parameter %r" % name, s)
        want = env.get(name)
        # a bare name / attribute on the right-hand side makes the target an alias of it
        # (harmless when the appends are all over: every append to the source precedes this statement, the
        # target is never appended to, and the statement is not inside a loop)
        src = attr_key(val) if isinstance(val, (ast.Name, ast.Attribute, ast.Subscript)) else None
        src = (attr_var(src) if "." in src else src) if src else None
        done_appending = src in self.appended and ctx.loop is None and name not in self.appended \
            and all(ln < s.lineno for ln in self.append_lines.get(src, []))
        self.alias_context = isinstance(val, (ast.Name, ast.Attribute, ast.Subscript)) and not done_appending
        try:
            (c, t), pre = self.with_pre(lambda: self.expr(val, env, want if want in SCALARS else None))
        finally:
            self.alias_context = False
        if name in self.appended and not self.fresh_list_expr(val):
            raise self.err("%r is appended to in this function but is bound here to a list that may be shared" % name, s)
        if is_lit(t):
            # a bare integer literal: number, integer marker or index?  Python's int is exact in all three,
            # so the first typing (T, Z, nat in this order) under which the whole function is well typed is used
            if name not in self.lit_guess:
                raise _NeedLitGuess(name)
            c, t = self.coerce(c, t, self.lit_guess[name], s)
        if want is not None and want != t:
            raise self.err("local %r changes its type from %s to %s" % (name, want, t), s)
        env2 = dict(env)
        env2[name] = t
        inner = "let %s := %s in\n%s" % (mangle(name), c, self.block(rest, env2, ctx, k))
        return self.wrap(pre, inner, ctx, env)

    @staticmethod
    def fresh_list_expr(v):
        """expressions that build a new list object"""
        if isinstance(v, (ast.List, ast.ListComp)):
            return True
        if isinstance(v, ast.Call) and dotted(v.func) == "list" and len(v.args) == 1:
            return True
        if isinstance(v, ast.Subscript) and isinstance(v.slice, ast.Slice):
            return True
        return False

    def append(self, s, rest, env, ctx, k):
        """xs.append(e) on a list built in this function (never shared): xs becomes xs ++ [e]; appending the
        feasibility marker (bool / integer) to a list of numbers gives a signed-cost vector (list, marker)"""
        tgt, arg = append_target(s)
        key = attr_key(tgt)
        if key is None:
            raise self.err("append to a computed target", s)
        name = attr_var(key) if "." in key else key
        if name not in env:
            raise self.err("append to %s, which is not certainly bound here" % key, s)
        if name not in self.appended:
            raise AssertionError("append target not pre-scanned")
        t = env[name]
        if not (isinstance(t, tuple) and t[0] == "list"):
            raise self.err("append to a value of type %s" % (t,), s)
        (c, ta), pre = self.with_pre(lambda: self.expr(arg, env))
        if is_lit(ta):
            c, ta = self.coerce(c, ta, t[1], arg)
        env2 = dict(env)
        if ta == t[1]:
            code = "(%s ++ [%s])" % (mangle(name), c)
        elif t == ("list", "T") and ta == "bool":
            code, env2[name] = "(%s, %s)" % (mangle(name), c), "costvecb"
        elif t == ("list", "T") and ta == "Z":
            code, env2[name] = "(%s, %s)" % (mangle(name), c), "costvec"
        else:
            raise self.err("append of a %s to a list of %s" % (ta, t[1]), s)
        inner = "let %s := %s in\n%s" % (mangle(name), code, self.block(rest, env2, ctx, k))
        return self.wrap(pre, inner, ctx, env)

    def lift(self, rest, env, ctx, k):
        """turn `rest; k` into a separate definition and return a continuation that calls it"""
        if not rest:
            return k
        body = self.block(rest, env, ctx, k)
        self.ncont += 1
        name = "%s_k%d" % (self.base, self.ncont)
        toks = tokens(body)
        params = [v for v in env if env[v] not in ("obj", "fixed") and mangle(v) in toks]
        self.defs.append("Definition %s %s : %s :=\n%s." % (
            name, " ".join("(%s : %s)" % (mangle(v), coq_type(env[v])) for v in params), ctx.result_type(),
            textwrap.indent(body, "  ")))
        return lambda e, name=name, params=params: "(%s)" % " ".join([name] + [mangle(v) for v in params]) \
            if params else name

    def attr_of(self, v):
        for a, _ in self.attrs:
            if attr_var(a) == v:
                return a
        return None

    @staticmethod
    def in_loop_state(loop, v):
        return v == loop.idx or any(v == c for c, _ in loop.carried)

    def if_(self, s, rest, env, ctx, k):
        try:
            (c, _), pre = self.with_pre(lambda: self.expr(s.test, env, "bool"))
        except Unsupported as e:
            # `if a and b:` with an operation in b that can raise: b is evaluated only when a holds, which
            # is exactly `if a: (if b: BODY else: ELSE) else: ELSE`
            if getattr(e, "cond_partial", False) and isinstance(s.test, ast.BoolOp) and isinstance(s.test.op, ast.And):
                first, others = s.test.values[0], s.test.values[1:]
                inner_test = others[0] if len(others) == 1 else ast.copy_location(ast.BoolOp(op=ast.And(), values=others), s.test)
                inner = ast.copy_location(ast.If(test=inner_test, body=s.body, orelse=s.orelse), s)
                outer = ast.copy_location(ast.If(test=first, body=[inner], orelse=s.orelse), s)
                return self.if_(outer, rest, env, ctx, k)
            raise
        if c in ("true", "false") and not pre and not isinstance(s.test, ast.Constant):
            # decided by the spec's fixed parameters: only the live branch is translated
            live = s.body if c == "true" else s.orelse
            return self.block(list(live) + list(rest), env, ctx, k)
        if rest and exits(s.body) + exits(s.orelse) == 0:
            raise self.err("unreachable statement after an if whose branches all return", rest[0])
        if self.simple(s.body) and self.simple(s.orelse) and rest:
            # join through the tuple of the locals assigned in the branches; a branch with an
            # operation that can raise falls back to the general scheme below
            try:
                return self.wrap(pre, self.if_join(s, c, rest, env, ctx, k), ctx, env)
            except _NoJoin:
                pass
        if exits(s.body) + exits(s.orelse) > 1 and rest:
            # more than one path reaches the rest: the rest becomes a definition of its own; locals
            # bound in only one branch are not certainly bound afterwards
            both = [v for v in env]
            k2 = self.lift(rest, env, ctx, k)
            k3 = lambda e, k2=k2: k2({v: e[v] for v in both})
            a = self.block(s.body, env, ctx, k3)
            b = self.block(s.orelse, env, ctx, k3)
        else:
            kk = (lambda e: self.block(rest, {v: e[v] for v in e if v in env or exits(s.body) + exits(s.orelse) == 1},
                                       ctx, k)) if rest else k
            a = self.block(s.body, env, ctx, kk)
            b = self.block(s.orelse, env, ctx, kk)
        return self.wrap(pre, "if %s then\n%s\nelse\n%s" % (c, textwrap.indent(a, "  "), textwrap.indent(b, "  ")),
                         ctx, env)

    def if_join(self, s, c, rest, env, ctx, k):
        names = [v for v in assigned_names([s]) if v in env]
        for v in assigned_names([s]):
            if v not in env:
                # bound in a branch only: certainly bound afterwards only if bound in both branches
                if v in assigned_names(s.body) and v in assigned_names(s.orelse) and self.always_assigns(s.body, v) \
                        and self.always_assigns(s.orelse, v):
                    names.append(v)
        types = {}

        def branch(stmts):
            def fin(e):
                for v in names:
                    if v in types and types[v] != e[v]:
                        raise self.err("local %r has different types in the two branches" % v, s)
                    types[v] = e[v]
                return "(%s)" % ", ".join(mangle(v) for v in names) if len(names) != 1 else mangle(names[0])
            return self.block(stmts, env, _JoinCtx(self), fin)
        if not names:
            return self.block(rest, env, ctx, k)
        a = branch(s.body)
        b = branch(s.orelse)
        env2 = dict(env)
        for v in names:
            env2[v] = types[v]
        pat = "'(%s)" % ", ".join(mangle(v) for v in names) if len(names) != 1 else mangle(names[0])
        return "let %s :=\n  if %s then\n%s\n  else\n%s in\n%s" % (
            pat, c, textwrap.indent(a, "    "), textwrap.indent(b, "    "), self.block(rest, env2, ctx, k))

    def always_assigns(self, stmts, v):
        for s in stmts:
            if isinstance(s, (ast.Assign, ast.AugAssign)) and v in assigned_names([s]):
                return True
            if isinstance(s, ast.If) and self.always_assigns(s.body, v) and self.always_assigns(s.orelse, v):
                return True
        return False

    def iter_spec(self, it, target, env):
        """-> (list code, element type, pattern code, {name: type} bound by the target, idx name or None,
               safe-index triple or None)"""
        def names_of(t, ty):
            if isinstance(t, ast.Name):
                return mangle(t.id), {t.id: ty}
            if isinstance(t, (ast.Tuple, ast.List)) and isinstance(ty, tuple) and ty[0] == "prod" and len(t.elts) == 2:
                a, ba = names_of(t.elts[0], ty[1])
                b, bb = names_of(t.elts[1], ty[2])
                if set(ba) & set(bb):
                    raise self.err("a name bound twice in a loop target", t)
                ba.update(bb)
                return "(%s, %s)" % (a, b), ba
            raise self.err("loop target does not match the shape of the iterated values", t)

        def listy(e):
            if isinstance(e, ast.Call) and dotted(e.func) == "zip" and "zip" not in env:
                if len(e.args) != 2 or e.keywords:
                    raise self.err("zip() with other than two arguments", e)
                a, ta = listy(e.args[0])
                b, tb = listy(e.args[1])
                return "(combine %s %s)" % (a, b), ("prod", ta, tb)
            c, t = self.expr(e, env)
            if not (isinstance(t, tuple) and t[0] == "list"):
                raise self.err("iteration over a value of type %s" % (t,), e)
            return c, t[1]

        if isinstance(it, ast.Call) and dotted(it.func) == "enumerate" and "enumerate" not in env:
            if len(it.args) != 1 or it.keywords:
                raise self.err("enumerate() with a start value / keyword", it)
            if not (isinstance(target, (ast.Tuple, ast.List)) and len(target.elts) == 2
                    and isinstance(target.elts[0], ast.Name)):
                raise self.err("target of enumerate() must be `i, x`", target)
            lst, et = listy(it.args[0])
            pat, bound = names_of(target.elts[1], et)
            idx = target.elts[0].id
            if idx in bound:
                raise self.err("a name bound twice in a loop target", target)
            return lst, et, pat, bound, idx, None
        if isinstance(it, ast.Call) and dotted(it.func) == "range" and "range" not in env:
            if len(it.args) != 1 or it.keywords or not isinstance(target, ast.Name):
                raise self.err("range() with other than one argument", it)
            a = it.args[0]
            if isinstance(a, ast.Call) and dotted(a.func) == "len" and len(a.args) == 1 and "len" not in env:
                lst, t = self.expr(a.args[0], env)
                if not (isinstance(t, tuple) and t[0] == "list"):
                    raise self.err("len() of a value of type %s" % (t,), a)
                ev = self.fresh()
                return lst, t[1], ev, {}, target.id, (ast.dump(a.args[0]), target.id, ev)
            c, _ = self.expr(a, env, "nat")
            return "(seq 0 %s)" % c, "nat", mangle(target.id), {target.id: "nat"}, None, None
        lst, et = listy(it)
        pat, bound = names_of(target, et)
        return lst, et, pat, bound, None, None

    def for_(self, s, rest, env, ctx, k):
        if s.orelse:
            raise self.err("for ... else", s)
        for nd in ast.walk(s.iter):
            if isinstance(nd, ast.Call) and dotted(nd.func) in getattr(self, "shadowed_builtins", ()):
                raise self.err("the module rebinds the builtin %r" % dotted(nd.func), nd)
        # the iterated list must not be rebound / appended to by the body (the fold runs over its value at entry)
        iter_names = set()
        for nd in ast.walk(s.iter):
            if isinstance(nd, ast.Name):
                iter_names.add(nd.id)
            k_ = attr_key(nd) if isinstance(nd, (ast.Attribute, ast.Subscript)) else None
            if k_ and "." in k_:
                iter_names.add(attr_var(k_))
        clash = iter_names & set(assigned_names(s.body))
        if clash:
            raise self.err("the loop body assigns / appends to %s, which the loop iterates over" % sorted(clash), s)
        if has_node(s.body, (ast.Break,)):
            raise self.err("break", s)
        (lst, et, pat, bound, idx, safe), pre = self.with_pre(lambda: self.iter_spec(s.iter, s.target, env))
        for v in list(bound) + ([idx] if idx else []):
            if v in env:
                raise self.err("loop variable %r re-uses a name that is already bound" % v, s)
        body_assigned = assigned_names(s.body)
        # loop-carried locals = bound before the loop and assigned in its body; their order in the state
        # record is the order of their first occurrence in the body (source order), so that neither a
        # renaming nor a reordering of the initialisations before the loop changes the generated text
        occ = {}
        for nd in sorted((nd for st_ in s.body for nd in ast.walk(st_) if isinstance(nd, ast.Name)),
                         key=lambda nd: (nd.lineno, nd.col_offset)):
            occ.setdefault(nd.id, len(occ))
        carried = sorted([(v, env[v]) for v in env if v in body_assigned], key=lambda vt: occ[vt[0]])
        for v, t in carried:
            if t == "obj":
                raise self.err("assignment to the object parameter %r" % v, s)
        self.nloop += 1
        loop = Loop(self, self.nloop, carried, idx)
        rt = coq_type(self.ret_type)
        ret_t = "(option (option %s))" % rt if self.partial else "(option %s)" % rt
        fields = ["%s : %s" % (loop.proj(f), coq_type(t)) for f, t in loop.fields] + ["%s : %s" % (loop.proj("ret"), ret_t)]
        comment = "(* loop %d of %s (line %d): %s *)" % (
            loop.k, self.qual, s.lineno,
            ", ".join(["%s = %s" % (f, v) for (f, _), v in zip(loop.fields, ([idx] if idx else []) + [c for c, _ in carried])]) or "no loop-carried locals")
        self.defs.append("%s\nRecord %s := { %s }." % (comment, loop.st_name, "; ".join(fields)))
        # body
        env_b = dict(env)
        if idx:
            env_b[idx] = "nat"
        env_b.update(bound)
        saved_targets, saved_safe = self.loop_targets, self.safe_index
        self.loop_targets = self.loop_targets | set(bound) | ({idx} if idx else set())
        self.safe_index = self.safe_index + ([safe] if safe else [])
        bctx = Ctx(self, loop)
        body = self.block(s.body, env_b, bctx, lambda e: loop.state(e, "None", bump=True))
        self.loop_targets, self.safe_index = saved_targets, saved_safe
        toks = tokens(body)
        params = [v for v in env if env[v] not in ("obj", "fixed") and v not in body_assigned and mangle(v) in toks]
        unpack = "".join("let %s := %s st in\n" % (mangle(v), loop.proj(f))
                         for (f, _), v in zip(loop.fields, ([idx] if idx else []) + [c for c, _ in carried]))
        if pat != "x":
            unpack += "let '%s := x in\n" % pat if pat.startswith("(") else "let %s := x in\n" % pat
        et_c = coq_type(et)
        self.defs.append("Definition %s %s (st : %s) (x : %s) : %s :=\n  match %s st with\n  | Some _ => st\n  | None =>\n%s\n  end." % (
            loop.body_name, " ".join("(%s : %s)" % (mangle(v), coq_type(env[v])) for v in params), loop.st_name, et_c,
            loop.st_name, loop.proj("ret"), textwrap.indent(unpack + body, "    ")))
        # the loop with its continuation: a definition parameterised by the iterated list, the start
        # index and the initial values of the loop-carried locals (so that a proof can generalise them)
        st = "st_%d" % loop.k
        cnames = [mangle(v) for v, _ in carried]
        init = "(Build_%s %s)" % (loop.st_name, " ".join((["i0"] if idx else []) + cnames + ["None"]))
        body_app = "(%s)" % " ".join([loop.body_name] + [mangle(v) for v in params]) if params else loop.body_name
        repack = "".join("let %s := %s %s in\n" % (mangle(v), loop.proj("v%d" % (i + 1)), st) for i, (v, _) in enumerate(carried))
        after = self.block(rest, dict(env), ctx, k)
        # the carried locals are read back from the final state before the match: a `return` inside the
        # loop may propagate into an enclosing loop's state, which is built from the current locals
        after_body = "%smatch %s %s with\n| Some r => %s\n| None =>\n%s\nend" % (
            repack, loop.proj("ret"), st, ctx.ret_opt("r", env), textwrap.indent(after, "  "))
        toks = tokens(after_body)
        aparams = [v for v in env if env[v] not in ("obj", "fixed") and v not in body_assigned and mangle(v) in toks]
        after_name = "%s_l%d_after" % (self.base, loop.k)
        self.defs.append("Definition %s %s : %s :=\n%s." % (
            after_name, " ".join(["(%s : %s)" % (mangle(v), coq_type(env[v])) for v in aparams] + ["(%s : %s)" % (st, loop.st_name)]),
            ctx.result_type(), textwrap.indent(after_body, "  ")))
        rparams = [v for v in env if v in aparams or v in params]
        run_name = "%s_l%d_run" % (self.base, loop.k)
        binders = ["(%s : %s)" % (mangle(v), coq_type(env[v])) for v in rparams] + ["(l : (list %s))" % et_c] \
            + (["(i0 : nat)"] if idx else []) + ["(%s : %s)" % (mangle(v), coq_type(t)) for v, t in carried]
        self.defs.append("Definition %s %s : %s :=\n  %s (fold_left %s l %s)." % (
            run_name, " ".join(binders), ctx.result_type(),
            " ".join([after_name] + [mangle(v) for v in aparams]), body_app, init))
        code = "(%s)" % " ".join([run_name] + [mangle(v) for v in rparams] + [lst] + (["0%nat"] if idx else []) + cnames)
        return self.wrap(pre, code, ctx, env)

    # -- the function -------------------------------------------------------------------------
    def param_list(self):
        """[(python name, type, 'param'|'attr')] in the order of the generated definition"""
        out = []
        a = self.node.args
        if a.vararg or a.kwarg or a.kwonlyargs or getattr(a, "posonlyargs", []):
            raise self.err("*args / **kwargs / keyword-only parameters", self.node)
        names = [x.arg for x in a.args]
        decos = [dotted(d) for d in self.node.decorator_list]
        for d in decos:
            if d not in ("staticmethod", "classmethod"):
                raise self.err("decorator %s" % (d or "<expression>"), self.node)
        if self.cls and "staticmethod" not in decos:
            self.self_name = names[0]
            names = names[1:]
        else:
            self.self_name = None
        ptypes = self.spec.get("params", {})
        for nme in names:
            if nme in self.fixed and isinstance(self.fixed[nme], dict) and "str" in self.fixed[nme]:
                out.append((nme, "fixed", "fixed"))
                continue
            if nme not in ptypes:
                raise self.err("parameter %r has no type in the spec" % nme, self.node)
            t = parse_type(ptypes[nme])
            out.append((nme, t, "param"))
        for extra in ptypes:
            if extra not in names:
                raise self.err("the spec types a parameter %r that the function does not have" % extra, self.node)
        for attr, t in self.attrs:
            out.append((attr_var(attr), t, "attr"))
        return out

    def translate(self, guesses=None):
        self.lit_guess = dict(guesses or {})
        try:
            return self._translate_modes()
        except _NeedLitGuess as g:
            errs = []
            for t in ("T", "Z", "nat"):
                try:
                    return self.translate(dict(self.lit_guess, **{g.name: t}) if False else {**(guesses or {}), g.name: t})
                except Unsupported as e:
                    errs.append(e)
            raise errs[0]

    def _translate_modes(self):
        for partial in (False, True):
            self.partial = partial
            self.reset()
            try:
                return self._translate()
            except _NeedPartial:
                if partial:
                    raise
        raise AssertionError

    def _translate(self):
        self.loop_targets, self.safe_index, self.shadowed_attrs = set(), [], set()
        plist = self.param_list()
        env = {}
        if self.self_name:
            env[self.self_name] = "obj"
        for nme, t, kind in plist:
            if nme in env:
                raise self.err("parameter / attribute name clash on %r" % nme, self.node)
            env[nme] = t
        if has_node(self.node.body, (ast.FunctionDef, ast.AsyncFunctionDef, ast.ClassDef, ast.Global,
                                     ast.Nonlocal, ast.Yield, ast.YieldFrom, ast.Await)):
            raise self.err("nested function / global / yield", self.node)
        self.alias_context = False
        # lists that are appended to must be built in this function by every assignment to them
        self.appended, self.append_lines = set(), {}
        for st_ in ast.walk(self.node):
            a = append_target(st_)
            if a:
                key = attr_key(a[0])
                if key is None:
                    raise self.err("append to a computed target", st_)
                self.appended.add(attr_var(key) if "." in key else key)
                self.append_lines.setdefault(attr_var(key) if "." in key else key, []).append(st_.lineno)
        for nme, _, _ in plist:
            if nme in self.appended:
                raise self.err("append to the parameter / attribute %r (a list the caller shares)" % nme, self.node)
        ctx = Ctx(self)

        def fall_off(e):
            if self.spec["returns"] == "writes":
                vals = []
                for a, t in self.writes:
                    v = attr_var(a)
                    if v not in e:
                        raise self.err("attribute %s is not certainly assigned at the end of the function" % a, self.node)
                    if e[v] != t:
                        raise self.err("attribute %s ends with type %s, the spec says %s" % (a, e[v], t), self.node)
                    vals.append(mangle(v))
                code = vals[0]
                for v in vals[1:]:
                    code = "(%s, %s)" % (code, v)
                return ctx.ret_val(code, e)
            raise self.err("the function can fall off its end without a return", self.node)
        body = self.block(list(self.node.body), env, ctx, fall_off)
        params = " ".join("(%s : %s)" % (mangle(n), coq_type(t)) for n, t, _ in plist if t not in ("obj", "fixed"))
        self.defs.append("Definition %s %s : %s :=\n%s." % (self.coq, params, self.result_type(), textwrap.indent(body, "  ")))
        out = ["Section %s_section." % self.base, "  Context {T : Type}."]
        for n, ty in self.iface():
            out.append("  Variable %s : %s." % (n, ty))
        if "py_min" in self.helpers:
            out.append("  (* Python: min(a, b) is a unless b < a *)\n  Definition %s_py_min (a b : T) : T := if ltb b a then b else a." % self.base)
        if "py_max" in self.helpers:
            out.append("  (* Python: max(a, b) is a unless b > a *)\n  Definition %s_py_max (a b : T) : T := if ltb a b then b else a." % self.base)
        text = "\n\n".join(self.defs)
        text = text.replace("(py_min ", "(%s_py_min " % self.base).replace("(py_max ", "(%s_py_max " % self.base)
        out.append(textwrap.indent(text, "  "))
        out.append("End %s_section." % self.base)
        # the binary64 instance: every interface member and every literal is pinned here (the Section
        # abstracts them positionally, so only this instance says WHICH comparison / constant is meant)
        if any(t in ("T", ("list", "T"), "costvec") for _, t, _ in plist) or self.ret_type == "T" or self.iface():
            inst, lam = [], []
            for n, ty in self.iface():
                if n in FLOAT_INSTANCE:
                    inst.append(FLOAT_INSTANCE[n])
                elif n.startswith("c_"):
                    inst.append("(%s)%%float" % float_literal(dict(self.consts)[n]))
                else:
                    lam.append("(%s : %s)" % (n, ty.replace("T", "float")))
                    inst.append(n)
            out.append("(* binary64 instance of %s: Python's < <= == + - * / abs on floats are the IEEE-754 operations of\n"
                       "   PrimFloat, literals are exact (hexadecimal); oracles stay parameters *)" % self.coq)
            out.append("Definition %s_f %s := @%s float %s." % (self.coq, " ".join(lam), self.coq, " ".join(inst)))
        return "\n".join(out)


class _NoJoin(Exception):
    pass


class _JoinCtx(Ctx):
    """context of a branch that is joined through a tuple: nothing in it may return or raise"""

    def __init__(self, fn):
        super().__init__(fn, None)

    def ret_val(self, code, env):
        raise _NoJoin()

    def raise_(self, env):
        if not self.fn.partial:
            raise _NeedPartial()
        raise _NoJoin()

    def ret_opt(self, r, env):
        raise _NoJoin()


# ----------------------------------------------------------------------------------------------
def find_function(tree, cls, name, path):
    scope = tree.body
    if cls:
        cands = [n for n in tree.body if isinstance(n, ast.ClassDef) and n.name == cls]
        if len(cands) != 1:
            raise Unsupported("class %s: %d definitions in %s" % (cls, len(cands), path))
        scope = cands[0].body
    fns = [n for n in scope if isinstance(n, (ast.FunctionDef, ast.AsyncFunctionDef)) and n.name == name]
    if len(fns) != 1:
        raise Unsupported("function %s%s: %d definitions in %s" % (cls + "." if cls else "", name, len(fns), path))
    if isinstance(fns[0], ast.AsyncFunctionDef):
        raise Unsupported("async function", fns[0])
    return fns[0]


INTERPRETED_BUILTINS = ("len", "abs", "min", "max", "float", "tuple", "zip", "enumerate", "range", "list", "map")
SAFE_STAR_IMPORTS = ("abc",)          # modules known not to export a name of INTERPRETED_BUILTINS


def module_shadows(tree, cls):
    """builtin names the translator gives a meaning to that the module (or the class body) rebinds"""
    bound = set()

    def scan(body):
        for n in body:
            if isinstance(n, (ast.FunctionDef, ast.AsyncFunctionDef, ast.ClassDef)):
                bound.add(n.name)
            elif isinstance(n, ast.Import):
                for a in n.names:
                    bound.add((a.asname or a.name).split(".")[0])
            elif isinstance(n, ast.ImportFrom):
                for a in n.names:
                    if a.name == "*":
                        if (n.module or "") not in SAFE_STAR_IMPORTS:
                            bound.update(INTERPRETED_BUILTINS)       # unknown: assume the worst
                    else:
                        bound.add(a.asname or a.name)
            elif isinstance(n, (ast.Assign, ast.AugAssign, ast.AnnAssign)):
                for t in (n.targets if isinstance(n, ast.Assign) else [n.target]):
                    for m in ast.walk(t):
                        if isinstance(m, ast.Name):
                            bound.add(m.id)
            elif isinstance(n, (ast.If, ast.Try, ast.With, ast.For, ast.While)):
                for fld in ("body", "orelse", "finalbody"):
                    scan(getattr(n, fld, []) or [])
                for h in getattr(n, "handlers", []) or []:
                    scan(h.body)
    scan(tree.body)
    if cls:
        for n in tree.body:
            if isinstance(n, ast.ClassDef) and n.name == cls:
                pass        # class attributes are reached through self/cls only, never as bare names
    return bound & set(INTERPRETED_BUILTINS)


def function_source(src_lines, node):
    start = min([node.lineno] + [d.lineno for d in node.decorator_list])
    return textwrap.dedent("".join(src_lines[start - 1:node.end_lineno]))


def guard_function(node, fspec, qual):
    """Guard mode (for functions outside the subset): only the `if` tests that enclose ONE designated
    statement are translated.  Returns a synthetic function

        def g(<objects>, <locals>):           # plus the declared attributes of the objects
            if test1:                         # outermost enclosing test (negated when the target sits
                if test2:                     # in the else branch)
                    return True
                return False
            return False

    whose translation is the condition, over the declared attributes and locals, under which control
    reaches the target from the start of the innermost enclosing loop body (or of the function).  How
    the locals / attributes got their values is NOT translated."""
    target = fspec["target"]
    found = []

    def walk(stmts, path):
        for st in stmts:
            try:
                txt = ast.unparse(st)
            except Exception:
                txt = None
            if txt == target:
                found.append(list(path))
            if isinstance(st, ast.If):
                walk(st.body, path + [(st.test, True)])
                walk(st.orelse, path + [(st.test, False)])
            elif isinstance(st, (ast.For, ast.While)):
                if isinstance(st, ast.While):
                    walk(st.body, [("while", None)])
                else:
                    walk(st.body, [])
                walk(st.orelse, path)
            elif isinstance(st, (ast.With, ast.Try)) or type(st).__name__ in ("TryStar", "Match", "AsyncFor", "AsyncWith"):
                for fld in ("body", "orelse", "finalbody"):
                    walk(getattr(st, fld, []) or [], path + [("block", None)])
                for h in getattr(st, "handlers", []) or []:
                    walk(h.body, path + [("block", None)])
                for c in getattr(st, "cases", []) or []:
                    walk(c.body, path + [("block", None)])
            elif isinstance(st, (ast.FunctionDef, ast.AsyncFunctionDef, ast.ClassDef)):
                walk(st.body, [("block", None)])
    walk(node.body, [])
    occ = fspec.get("occurrence")
    if occ is None:
        if len(found) != 1:
            raise Unsupported("guard mode: the statement `%s` occurs %d times in the function (exactly one expected)"
                              % (target, len(found)), node, qual)
        path = found[0]
    else:
        # "occurrence": [k, n] = the k-th (from 0, source order) of exactly n occurrences
        k, total = occ
        if len(found) != total:
            raise Unsupported("guard mode: the statement `%s` occurs %d times in the function (%d expected)"
                              % (target, len(found), total), node, qual)
        path = found[k]
    if any(pol is None for _, pol in path):
        raise Unsupported("guard mode: the statement `%s` sits under a while / with / try / nested def" % target, node, qual)
    body = [ast.Return(value=ast.Constant(value=True))]
    for test, pol in reversed(path):
        no = [ast.Return(value=ast.Constant(value=False))]
        body = [ast.If(test=test, body=body if pol else no, orelse=no if pol else body)]
    names = list(fspec.get("objects", [])) + list(fspec.get("locals", {}))
    fn = ast.FunctionDef(name=node.name, args=ast.arguments(posonlyargs=[], args=[ast.arg(arg=a) for a in names], vararg=None,
                                                            kwonlyargs=[], kw_defaults=[], kwarg=None, defaults=[]),
                         body=body, decorator_list=[], returns=None, type_comment=None)
    ast.copy_location(fn, node)
    for n in ast.walk(fn):
        if not hasattr(n, "lineno"):
            ast.copy_location(n, node)
    sp = dict(fspec)
    sp["returns"] = "bool"
    sp["params"] = dict({o: "obj" for o in fspec.get("objects", [])}, **fspec.get("locals", {}))
    return fn, sp


def function_infos(repo, spec):
    """[{"function", "sha1", "source"}] of the functions named by the spec, without translating them."""
    path = os.path.join(repo, spec["source"])
    src = open(path).read()
    tree = ast.parse(src, filename=path)
    lines = src.splitlines(keepends=True)
    out = []
    for item in spec["functions"]:
        cls, name = item[0], item[1]
        node = find_function(tree, cls or None, name, spec["source"])
        fs = function_source(lines, node)
        qual = (cls + "." if cls else "") + name
        if qual not in [i["function"] for i in out]:
            out.append({"function": qual, "sha1": hashlib.sha1(fs.encode()).hexdigest(), "source": fs})
    return out


def translate_spec(repo, spec):
    """-> (coq text, [{"function", "sha1", "source"}]); raises Unsupported."""
    path = os.path.join(repo, spec["source"])
    src = open(path).read()
    tree = ast.parse(src, filename=path)
    lines = src.splitlines(keepends=True)
    done, parts, info = {}, [], []
    for item in spec["functions"]:
        cls, name = item[0], item[1]
        qual = (cls + "." if cls else "") + name
        key = qual + ("#" + item[2] if len(item) > 2 else "")
        node = find_function(tree, cls or None, name, spec["source"])
        fs = function_source(lines, node)
        if qual not in [i["function"] for i in info]:
            info.append({"function": qual, "sha1": hashlib.sha1(fs.encode()).hexdigest(), "source": fs})
        fspec = spec.get("types", {}).get(key)
        if fspec is None:
            raise Unsupported("no typing for %s in the spec" % key)
        if fspec.get("mode") == "guard":
            gnode, gspec = guard_function(node, fspec, qual)
            ft = FnTranslator(spec["module"], None, name, gspec, gnode, done)
            ft.qual = key
            what = "guard of `%s` in %s" % (fspec["target"], qual)
        else:
            ft = FnTranslator(spec["module"], cls or None, name, fspec, node, done)
            what = "%s.%s" % (cls or "<module>", name)
        ft.shadowed_builtins = module_shadows(tree, cls)
        parts.append("(* %s, lines %d-%d of %s, sha1 %s *)\n%s" % (
            what, node.lineno, node.end_lineno, spec["source"], hashlib.sha1(fs.encode()).hexdigest(), ft.translate()))
        done[key] = ft
    head = ("(* GENERATED by tools/py2coq.py from %s - never edit, never commit.\n"
            "   Shallow Gallina definitions of: %s. *)\n"
            "From Coq Require Import List ZArith Bool Arith Floats.\nImport ListNotations.\n\n"
            % (spec["source"], ", ".join(i["function"] for i in info)))
    return head + "\n\n".join(parts) + "\n", info


def main(argv):
    import argparse
    ap = argparse.ArgumentParser(description=__doc__.split("\n")[0])
    ap.add_argument("--repo", default=os.environ.get("VERIF_REPO", "/repo"))
    ap.add_argument("--spec", required=True, help="JSON file with the spec (see the module docstring)")
    ap.add_argument("--out", default="-")
    ap.add_argument("--write-reference", metavar="DIR", default=None,
                    help="write the current source of each function to DIR/<function>.py.txt (the copy the "
                         "equivalence proofs were written for; used to report what changed) and exit")
    a = ap.parse_args(argv)
    spec = json.load(open(a.spec))
    if a.write_reference:
        for i in function_infos(a.repo, spec):
            open(os.path.join(a.write_reference, i["function"] + ".py.txt"), "w").write(i["source"])
        return 0
    try:
        text, info = translate_spec(a.repo, spec)
    except Unsupported as e:
        sys.stderr.write("py2coq: %s\n" % e)
        return 2
    except SyntaxError as e:
        sys.stderr.write("py2coq: the source does not parse: %s\n" % e)
        return 2
    if a.out == "-":
        sys.stdout.write(text)
    else:
        open(a.out, "w").write(text)
    return 0


if __name__ == "__main__":
    sys.exit(main(sys.argv[1:]))
