#!/usr/bin/env python3
"""py2coq - fail-closed translator from a small pure subset of Python to shallow Gallina.

    tools/py2coq.py --repo /repo --spec coq/theories/GenProofs/specs/DominanceGen.json --out X.v

The spec (JSON; the same dict is an entry of TRANSLATED in harness/cXX.py) names a source file,
the functions to translate and their typing:

    {"source": "artap/operators.py", "module": "DominanceGen",
     "functions": [["ParetoDominance", "compare"]],
     "types": {"ParetoDominance.compare": {"as": "pareto_compare_gen", "returns": "nat",
                                           "params": {"p": "costvec", "q": "costvec"},
                                           "attrs": [["self.epsilons", "list T"]],
                                           "oracles": [["math.pow", ["T", "T"], "T"]],
                                           "calls": {"self.clip": "Operator.clip"}}}}

Everything outside the supported subset raises `Unsupported` with the construct and its line:
the translator never guesses.  See notes/TRANSLATOR.md for the subset, the translation scheme and
the simplifying assumptions (they are the trusted part of this tool).

Stdlib only (ast, json, hashlib); runs under python3 >= 3.8.
"""
import ast
import hashlib
import json
import os
import re
import sys
import textwrap


class Unsupported(Exception):
    def __init__(self, msg, node=None, fn=None):
        self.msg, self.line, self.fn = msg, getattr(node, "lineno", None), fn
        super().__init__(msg)

    def __str__(self):
        where = ""
        if self.fn:
            where += " in %s" % self.fn
        if self.line is not None:
            where += " (line %d)" % self.line
        return "unsupported%s: %s" % (where, self.msg)


class _NeedPartial(Exception):
    pass


class _NeedLitGuess(Exception):
    def __init__(self, name, cands=("T", "Z", "nat")):
        self.name, self.cands = name, cands
        super().__init__(name)


# ----------------------------------------------------------------------------------------------
# types
# ----------------------------------------------------------------------------------------------
SCALARS = ("T", "Z", "nat", "bool")


def parse_type(s, extra=()):
    """extra: names of the opaque / record types the spec declares (they are Section type variables)"""
    s = s.strip()
    if s in SCALARS or s in ("costvec", "costvecb", "obj") or s in extra:
        return s
    if s.startswith("list "):
        return ("list", parse_type(s[5:], extra))
    if s.startswith("opt "):                   # a value or None
        return ("opt", parse_type(s[4:], extra))
    if s.startswith("dict ") and len(s.split()) >= 3:      # dict K V: an association list in insertion order
        return ("dict", parse_type(s.split()[1], extra), parse_type(s.split(None, 2)[2], extra))
    raise Unsupported("unknown type %r in the spec" % s)


def is_list(t):
    return isinstance(t, tuple) and t[0] == "list"


def coq_type(t):
    if t in SCALARS:
        return t
    if t == "costvec":
        return "(list T * Z)%type"
    if t == "costvecb":
        return "(list T * bool)%type"
    if isinstance(t, tuple) and t[0] == "list":
        inner = coq_type(t[1])
        return "(list %s)" % inner
    if isinstance(t, tuple) and t[0] == "opt":
        return "(option %s)" % coq_type(t[1])
    if isinstance(t, tuple) and t[0] == "dict":
        return "(list (%s * %s))" % (coq_type(t[1]), coq_type(t[2]))
    if isinstance(t, tuple) and t[0] == "prod":
        return "(%s * %s)%%type" % (coq_type(t[1]), coq_type(t[2]))
    if isinstance(t, tuple) and t[0] == "outcome":        # value or designated exception (front-end py2coq_eff.py)
        return "(py_outcome %s exc)" % coq_type(t[1])
    if isinstance(t, str) and t not in ("obj", "fixed") and re.fullmatch(r"[A-Za-z]\w*", t):
        return t                              # an opaque / record type declared by the spec (parse_type checked it)
    raise Unsupported("type %r has no Coq rendering" % (t,))


def is_lit(t):
    return isinstance(t, tuple) and t[0] == "lit"


RESERVED = set("""
T Z N nat bool list option Some None true false fst snd length combine fold_left nth_error removelast seq
ltb leb eqb add sub mul div neg absT negb andb orb if then else let in match with end fun forall exists as at
return Type Prop Set fix cofix struct where using Definition Record Section End Variable Context Fixpoint
st x r ret O S app rev map pair unit tt Nat Bool List
""".split())


def mangle(name):
    if name in RESERVED or name.startswith(("c_", "py_", "x_", "Build_")) or name.endswith("_gen") or "__" in name:
        return name.replace("__", "_u_") + "_v"
    return name


def const_name(v):
    """Name of the Section variable standing for the numeric literal v (Python int and float
    literals that denote the same number get the same name: 0 and 0.0 are both c_0)."""
    f = float(v)
    if f == int(f) and abs(f) < 1e15:
        s = str(int(f))
    else:
        s = repr(f)
    s = s.replace("-", "m").replace("+", "").replace(".", "_")
    return "c_" + s


FLOAT_INSTANCE = {"ltb": "PrimFloat.ltb", "leb": "PrimFloat.leb", "eqb": "PrimFloat.eqb",
                  "add": "PrimFloat.add", "sub": "PrimFloat.sub", "mul": "PrimFloat.mul", "div": "PrimFloat.div",
                  "neg": "PrimFloat.opp", "absT": "PrimFloat.abs"}


def float_literal(x):
    """exact Coq PrimFloat literal (hexadecimal) of a finite Python float"""
    h = float(x).hex()
    return h


IFACE_ORDER = ["ltb", "leb", "eqb", "add", "sub", "mul", "div", "neg", "absT", "of_nat", "of_Z"]
IFACE_TYPE = {"ltb": "T -> T -> bool", "leb": "T -> T -> bool", "eqb": "T -> T -> bool",
              "add": "T -> T -> T", "sub": "T -> T -> T", "mul": "T -> T -> T", "div": "T -> T -> T",
              "neg": "T -> T", "absT": "T -> T",
              # Python's implicit int -> float conversion in mixed arithmetic (exact below 2^53); a parameter of the
              # binary64 instance
              "of_nat": "nat -> T", "of_Z": "Z -> T"}


# ----------------------------------------------------------------------------------------------
# small AST helpers
# ----------------------------------------------------------------------------------------------
def dotted(n):
    if isinstance(n, ast.Name):
        return n.id
    if isinstance(n, ast.Attribute):
        b = dotted(n.value)
        return None if b is None else b + "." + n.attr
    return None


def attr_key(n):
    """canonical text of an attribute path: self.vector, other.vector, self.features["precision"]"""
    if isinstance(n, ast.Name):
        return n.id
    if isinstance(n, ast.Attribute):
        b = attr_key(n.value)
        return None if b is None else b + "." + n.attr
    if isinstance(n, ast.Subscript):
        sl = n.slice
        if isinstance(sl, ast.Index):
            sl = sl.value
        if isinstance(sl, ast.Constant) and isinstance(sl.value, str) and re.fullmatch(r"\w+", sl.value):
            b = attr_key(n.value)
            return None if b is None else '%s["%s"]' % (b, sl.value)
    return None


def attr_var(key):
    return re.sub(r"\W+", "_", key).strip("_")


def append_target(s):
    """`X.append(e)` as a statement -> (node of X, node of e), else None"""
    if isinstance(s, ast.Expr) and isinstance(s.value, ast.Call) and isinstance(s.value.func, ast.Attribute) \
            and s.value.func.attr == "append" and len(s.value.args) == 1 and not s.value.keywords:
        return s.value.func.value, s.value.args[0]
    return None


def str_key(sl):
    if isinstance(sl, ast.Index):
        sl = sl.value
    return isinstance(sl, ast.Constant) and isinstance(sl.value, str)


def mutation_of(s):
    """In-place list operations as statements -> (kind, node of the list X, argument nodes), else None:
         X.append(e) / X.extend(e) / X.remove(e)          ('append' | 'extend' | 'remove', X, [e])
         del X[i]                                          ('del', X, [i])
         X[i] = e  /  X[i] op= e   (i not a string key)    ('set', X, [i, e, op or None])"""
    if isinstance(s, ast.Expr) and isinstance(s.value, ast.Call) and isinstance(s.value.func, ast.Attribute) \
            and s.value.func.attr in ("append", "extend", "remove") and len(s.value.args) == 1 and not s.value.keywords:
        return s.value.func.attr, s.value.func.value, [s.value.args[0]]
    if isinstance(s, ast.Expr) and isinstance(s.value, ast.Call) and isinstance(s.value.func, ast.Attribute) \
            and s.value.func.attr == "reverse" and not s.value.args and not s.value.keywords:
        return "reverse", s.value.func.value, []
    if isinstance(s, ast.Delete) and len(s.targets) == 1 and isinstance(s.targets[0], ast.Subscript) \
            and not str_key(s.targets[0].slice):
        sl = s.targets[0].slice
        return "del", s.targets[0].value, [sl.value if isinstance(sl, ast.Index) else sl]
    if isinstance(s, ast.Assign) and len(s.targets) == 1 and isinstance(s.targets[0], ast.Subscript) \
            and not str_key(s.targets[0].slice):
        sl = s.targets[0].slice
        return "set", s.targets[0].value, [sl.value if isinstance(sl, ast.Index) else sl, s.value, None]
    if isinstance(s, ast.AugAssign) and isinstance(s.target, ast.Subscript) and not str_key(s.target.slice):
        sl = s.target.slice
        return "set", s.target.value, [sl.value if isinstance(sl, ast.Index) else sl, s.value, s.op]
    return None


def assigned_names(stmts):
    """Names bound by assignment / augmented assignment / loop targets anywhere in stmts (ordered)."""
    out = []

    def tgt(t):
        if isinstance(t, ast.Name):
            if t.id not in out:
                out.append(t.id)
        elif isinstance(t, (ast.Tuple, ast.List)):
            for e in t.elts:
                tgt(e)
        elif isinstance(t, (ast.Attribute, ast.Subscript)) and attr_key(t) and "." in attr_key(t):
            if attr_var(attr_key(t)) not in out:
                out.append(attr_var(attr_key(t)))
        elif isinstance(t, ast.Subscript) and attr_key(t) is None:
            tgt(t.value)                       # d[k].append(x): the container d is what changes

    class V(ast.NodeVisitor):
        def visit_Expr(self, n):
            a = mutation_of(n)
            if a:
                tgt(a[1])
            self.generic_visit(n)

        def visit_Delete(self, n):
            a = mutation_of(n)
            if a:
                tgt(a[1])
            self.generic_visit(n)

        def visit_Assign(self, n):
            a = mutation_of(n)
            if a:
                tgt(a[1])
            else:
                for t in n.targets:
                    tgt(t)
            self.generic_visit(n)

        def visit_AugAssign(self, n):
            a = mutation_of(n)
            tgt(a[1] if a else n.target)
            self.generic_visit(n)

        def visit_For(self, n):
            tgt(n.target)
            self.generic_visit(n)

    for s in stmts:
        V().visit(s)
    return out


def read_names(nodes):
    """Names loaded anywhere in the nodes, plus dotted attribute reads (`self.x`) as 'self.x'."""
    out = []
    for s in nodes:
        for n in ast.walk(s):
            if isinstance(n, ast.Name) and n.id not in out:
                out.append(n.id)
            if isinstance(n, ast.Attribute):
                d = dotted(n)
                if d and d not in out:
                    out.append(d)
            if isinstance(n, ast.AugAssign) and isinstance(n.target, ast.Name) and n.target.id not in out:
                out.append(n.target.id)
    return out


def has_node(stmts, kinds):
    return any(isinstance(n, kinds) for s in stmts for n in ast.walk(s))


def _stmt_exits(s):
    if isinstance(s, (ast.Return, ast.Continue, ast.Break, ast.Raise)):
        return 0
    if isinstance(s, ast.If):
        return exits(s.body) + exits(s.orelse)
    return 1


def exits(stmts):
    """Number of places from which control falls out of the end of a statement list (0 = it always
    returns / continues).  Only the last statement can contribute more than one: the rest after an
    earlier `if` with several exits is turned into a definition of its own (one call per exit)."""
    if not stmts:
        return 1
    for s in stmts[:-1]:
        if _stmt_exits(s) == 0:
            return 0
    return _stmt_exits(stmts[-1])


TOKEN = re.compile(r"[A-Za-z_][A-Za-z_0-9']*")


def tokens(code):
    return set(TOKEN.findall(code))


# ----------------------------------------------------------------------------------------------
class Ctx:
    """Where `return` / raise / the end of the block go: function level or inside a loop body."""

    def __init__(self, fn, loop=None, wl=None):
        # loop: the innermost enclosing `for` (its state record carries return / raise); wl: (continue, break)
        # code builders when the INNERMOST enclosing loop is a `while`
        self.fn, self.loop, self.wl = fn, loop, wl

    def ret_val(self, code, env):
        v = "(Some %s)" % code if self.fn.partial else code
        if self.loop is None:
            return v
        return self.loop.state(env, "(Some %s)" % v)

    def raise_(self, env):
        if not self.fn.partial:
            raise _NeedPartial()
        if self.loop is None:
            return "None"
        return self.loop.state(env, "(Some None)")

    def ret_opt(self, r, env):
        """propagate the `ret` content r of an inner loop (R if total, option R if partial)"""
        if self.loop is None:
            return r
        return self.loop.state(env, "(Some %s)" % r)

    def result_type(self):
        if self.loop is None:
            return self.fn.result_type()
        return self.loop.st_name


class Loop:
    def __init__(self, fn, k, carried, idx, brk=False):
        self.fn, self.k, self.carried, self.idx, self.brk = fn, k, carried, idx, brk
        self.st_name = "%s_l%d_st" % (fn.base, k)
        self.body_name = "%s_l%d_body" % (fn.base, k)
        self.fields = ([("idx", "nat")] if idx else []) + [("v%d" % (i + 1), t) for i, (_, t) in enumerate(carried)]

    def proj(self, f):
        return "%s_l%d_%s" % (self.fn.base, self.k, f)

    def state(self, env, ret, bump=False, brk=False):
        parts = []
        if self.idx:
            parts.append("(S %s)" % mangle(self.idx) if bump else mangle(self.idx))
        parts += [mangle(v) for v, _ in self.carried]
        if self.brk:                           # a loop with `break`: the flag stops the fold like a return does
            parts.append("true" if brk else "false")
        return "(Build_%s %s)" % (self.st_name, " ".join(parts + [ret]))


class FnTranslator:
    def __init__(self, mod, cls, name, spec, node, done):
        self.mod, self.cls, self.pyname, self.spec, self.node = mod, cls, name, spec, node
        self.qual = (cls + "." if cls else "") + name
        self.coq = spec.get("as") or re.sub(r"\W", "_", name.strip("_")) + "_gen"
        self.base = self.coq[:-4] if self.coq.endswith("_gen") else self.coq
        self.done = done                      # qualified name -> FnTranslator of already translated functions
        if "returns" not in spec:
            raise Unsupported("the spec gives no return type", node, self.qual)
        # opaque types and record types (objects: an opaque identity + one accessor function per declared field);
        # both are Section type variables, accessors / equality tests are Section variables
        self.opaque = list(spec.get("opaque", []))
        self.records = {}
        self.tnames = self.opaque + list(spec.get("records", {}))
        for nm in self.tnames:
            if not re.fullmatch(r"[A-Za-z]\w*", nm) or nm in RESERVED or nm in SCALARS or self.tnames.count(nm) != 1 \
                    or nm in ("costvec", "costvecb", "obj", "fixed", "float"):
                raise Unsupported("type name %r in the spec (reserved / declared twice)" % nm, node, self.qual)
        pt = lambda t: parse_type(t, self.tnames)
        self.ptype = pt
        for r, flds in spec.get("records", {}).items():
            self.records[r] = [(f, pt(t)) for f, t in (flds.items() if isinstance(flds, dict) else flds)]
        self.val_type = pt(spec["returns"]) if spec["returns"] != "writes" else None
        self.attrs = [(a, pt(t)) for a, t in spec.get("attrs", [])]
        self.writes = [(a, pt(t)) for a, t in spec.get("writes", [])]
        self.local_types = {v: pt(t) for v, t in spec.get("local_types", {}).items()}
        self.oracles, self.oracle_kw = [], {}
        self.oracle_once = set()
        self.constructors = set()
        self.fresh_oracles = set()
        self.samples = list(spec.get("samples", []))   # random.sample-like: f(xs, k) = k elements at pairwise different indices
        self.picks = list(spec.get("picks", []))       # random.choice-like: f(xs) = xs[k], k a fresh Section variable per call site
        self.fixed = dict(spec.get("fixed", {}))
        for entry in spec.get("oracles", []):
            o, args, r = entry[0], entry[1], entry[2]
            if len(entry) > 3:
                if entry[3] == "once":
                    self.oracle_once.add(o)
                elif entry[3] == "constructor":      # a pure function of the VALUE of its arguments that keeps a
                    self.constructors.add(o)         # reference to them: a mutated list must not escape into it
                elif entry[3] == "fresh":            # a pure function that returns a NEW list on every call
                    self.fresh_oracles.add(o)        # (np.zeros(n)): the result may be modified in place
                else:
                    raise Unsupported("oracle flag %r in the spec" % entry[3], node, self.qual)
            kws = [a.split("=")[0].strip() if "=" in a else None for a in args]
            # an argument of type "any" is not translated: the oracle is not a function of it (it must be a parameter
            # of which only the truth value is used)
            self.oracles.append((o, [("any" if a == "any" else pt(a.split("=")[-1])) for a in args], pt(r)))
            self.oracle_kw[o] = kws
        if spec["returns"] == "writes" and not self.writes:
            raise Unsupported("returns = writes, but the spec lists no written attribute", node, self.qual)
        # the result: the returned value, then the final values of the written attributes / in-out parameters
        ts = ([self.val_type] if self.val_type is not None else []) + [t for _, t in self.writes] \
            + ([("list", "nat")] if spec.get("events") else [])
        self.ret_type = ts[0]
        for t in ts[1:]:
            self.ret_type = ("prod", self.ret_type, t)
        # boolean expressions the spec names instead of translating (`'predict' in dir(self.problem)`): a bool parameter
        self.flags = dict(spec.get("flags", {}))
        # oracles whose CALLS are observable (they have effects): every call appends its number (position in this
        # list, from 1) to the event log, the last component of the result
        self.events = list(spec.get("events", []))
        for ev in self.events:
            if ev not in [o for o, _, _ in self.oracles]:
                raise Unsupported("event %s is not a declared oracle" % ev, node, self.qual)
        self.skip = {}
        for item in spec.get("skip", []):
            txt, cnt = (item, 1) if isinstance(item, str) else (item[0], item[1])
            self.skip[txt] = cnt
        self.calls = dict(spec.get("calls", {}))
        self.partial = False

    # -- bookkeeping --------------------------------------------------------------------------
    def reset(self):
        self.used, self.consts, self.used_oracles, self.helpers = set(), set(), [], set()
        self.defs, self.nloop, self.ncont, self.nfresh = [], 0, 0, 0
        self.once_sites = {}
        self.pre = None
        self.callee_ifaces = []
        self.used_acc, self.used_eq, self.pick_sites, self.skipped = [], [], [], {}
        self.sample_vars = []

    def use(self, op):
        self.used.add(op)
        return op

    def const(self, v):
        n = const_name(v)
        self.consts.add((n, float(v)))
        return n

    def fresh(self):
        self.nfresh += 1
        return "x_%d" % self.nfresh

    def result_type(self):
        t = coq_type(self.ret_type)
        return "(option %s)" % t if self.partial else t

    def err(self, msg, node):
        return Unsupported(msg, node, self.qual)

    # hooks of the front-end tools/py2coq_eff.py (effects): locals that a statement list changes without an
    # assignment in the source (the event log), and the element type of the event log
    def hidden_assigned(self, stmts):
        return []

    def evlog_elem(self):
        return "nat"

    # -- interface ----------------------------------------------------------------------------
    def iface(self):
        """Section variables in canonical order: [(name, coq type)]."""
        out = [(o, IFACE_TYPE[o]) for o in IFACE_ORDER if o in self.used]
        out += [(n, "T") for n, _ in sorted(self.consts)]
        # accessors of the record fields that are read, in the order of the spec
        for r, flds in self.records.items():
            for f, t in flds:
                if (r, f) in self.used_acc:
                    out.append((self.acc_name(r, f), "%s -> %s" % (r, coq_type(t))))
        # Python's == on an opaque / record type (identity or __eq__, whatever the class says): `eqb_X a b` is a == b
        for nm in self.tnames:
            if nm in self.used_eq:
                out.append(("eqb_" + nm, "%s -> %s -> bool" % (nm, nm)))
        for o, args, r in self.oracles:
            if o in self.used_oracles:
                out.append((self.oracle_name(o), " -> ".join([coq_type(a) for a in args if a != "any"] + [coq_type(r)])))
        # one index variable per call site of a pick function (random.choice(xs) = xs[pick_k])
        for k in sorted(self.pick_sites):
            out.append(("pick_%d" % k, "nat"))
        for kname in sorted(self.sample_vars):
            out.append((kname, "nat"))
        return out

    @staticmethod
    def acc_name(r, f):
        return "f_%s_%s" % (r, attr_var(f))

    @staticmethod
    def oracle_name(o):
        return "o_" + o.replace(".", "_")

    # -- expressions --------------------------------------------------------------------------
    def coerce(self, code, t, want, node):
        if not is_lit(t):
            if want is not None and t != want:
                raise self.err("type mismatch: expected %s, found %s" % (want, t), node)
            return code, t
        v = t[1]
        if want == "T":
            return self.const(v), "T"
        if isinstance(v, float):
            raise self.err("float literal %r where %s is expected" % (v, want), node)
        if want == "Z":
            return "(%d)%%Z" % v, "Z"
        if want == "nat":
            if v < 0:
                raise self.err("negative literal where a natural number is expected", node)
            return "%d%%nat" % v, "nat"
        if want is None:
            return code, t
        raise self.err("numeric literal %r where %s is expected" % (v, want), node)

    def unify(self, a, ta, b, tb, node):
        if is_lit(ta) and is_lit(tb):
            raise self.err("operation on two numeric literals (fold it in the source or extend the translator)", node)
        if is_lit(ta):
            a, ta = self.coerce(a, ta, tb, node)
        if is_lit(tb):
            b, tb = self.coerce(b, tb, ta, node)
        if ta == "T" and tb in ("nat", "Z"):
            b, tb = "(%s %s)" % (self.use("of_" + tb), b), "T"
        elif tb == "T" and ta in ("nat", "Z"):
            a, ta = "(%s %s)" % (self.use("of_" + ta), a), "T"
        if ta != tb:
            raise self.err("operands of different types %s and %s" % (ta, tb), node)
        return a, b, ta

    def bind_partial(self, opt_code):
        """hoist a partial operation (evaluated before the statement's own expression)"""
        if self.pre is None:
            raise Unsupported("partial operation outside a statement context")
        if not self.partial:
            raise _NeedPartial()
        x = self.fresh()
        self.pre.append(("bind", x, opt_code))
        return x

    def guard(self, cond_code):
        if not self.partial:
            raise _NeedPartial()
        self.pre.append(("guard", cond_code))

    def no_partial(self, f, what, node):
        """evaluate f() and reject partial operations inside it (conditionally evaluated operand)"""
        n0 = len(self.pre) if self.pre is not None else 0
        r = f()
        if self.pre is not None and len(self.pre) != n0:
            e = self.err("an operation that can raise inside %s (evaluated conditionally)" % what, node)
            e.cond_partial = True
            raise e
        return r

    def expr(self, n, env, want=None):
        code, t = self._expr(n, env, want)
        if want is not None:
            code, t = self.coerce(code, t, want, n)
        return code, t

    def _expr(self, n, env, want):
        if self.flags and isinstance(n, (ast.Compare, ast.BoolOp, ast.Name, ast.UnaryOp, ast.Call)) \
                and ast.unparse(n) in self.flags:
            # a boolean expression the spec names instead of translating: its value is a parameter
            return mangle(self.flags[ast.unparse(n)]), "bool"
        if isinstance(n, ast.Constant):
            v = n.value
            if isinstance(v, bool):
                return ("true" if v else "false"), "bool"
            if isinstance(v, int):
                return str(v), ("lit", v)
            if isinstance(v, float):
                if v != v or v in (float("inf"), float("-inf")):
                    raise self.err("non-finite float literal", n)
                return self.const(v), "T"
            raise self.err("literal %r" % (v,), n)
        if isinstance(n, ast.Name):
            if n.id not in env:
                raise self.err("name %r is not a parameter or a local that is certainly bound here" % n.id, n)
            t = env[n.id]
            if t == "fixed":
                raise self.err("the fixed parameter %r is used other than in a comparison the spec decides" % n.id, n)
            if t == "obj":
                raise self.err("object %r used as a value (only its declared attributes can be read)" % n.id, n)
            if n.id in self.appended and self.alias_context:
                raise self.err("the list %r is appended to in this function and is aliased here" % n.id, n)
            return mangle(n.id), t
        if isinstance(n, (ast.Attribute, ast.Subscript)) and attr_key(n) and attr_key(n) in [a for a, _ in self.writes] \
                and env.get(attr_key(n).split(".")[0].split("[")[0]) in self.records:
            # a field of a record-typed parameter that this function writes: the current value is a local
            key = attr_key(n)
            var = attr_var(key)
            if var not in env:
                raise self.err("attribute %s is read before it is certainly assigned" % key, n)
            if var in self.appended and self.alias_context:
                raise self.err("the list %s is modified in place in this function and is aliased here" % key, n)
            return mangle(var), env[var]
        if isinstance(n, (ast.Attribute, ast.Subscript)) and attr_key(n) and attr_key(n).split(".")[0].split("[")[0] in env \
                and env[attr_key(n).split(".")[0].split("[")[0]] == "obj":
            key = attr_key(n)
            var = attr_var(key)
            if var in env and (key in [a for a, _ in self.attrs] or key in [a for a, _ in self.writes]):
                if var in self.appended and self.alias_context:
                    raise self.err("the list %s is appended to in this function and is aliased here" % key, n)
                return mangle(var), env[var]
            if key in [a for a, _ in self.writes]:
                raise self.err("attribute %s is read before it is certainly assigned" % key, n)
            raise self.err("attribute read %s has no declared type (attrs in the spec: %s)"
                           % (key, [a for a, _ in self.attrs]), n)
        if isinstance(n, ast.UnaryOp):
            if isinstance(n.op, ast.Not):
                c, _ = self.expr(n.operand, env, "bool")
                return "(negb %s)" % c, "bool"
            if isinstance(n.op, ast.USub):
                if isinstance(n.operand, ast.Constant) and isinstance(n.operand.value, (int, float)) \
                        and not isinstance(n.operand.value, bool):
                    v = -n.operand.value
                    return (str(v), ("lit", v)) if isinstance(v, int) else (self.const(v), "T")
                c, t = self.expr(n.operand, env)
                if t == "T":
                    return "(%s %s)" % (self.use("neg"), c), "T"
                if t == "Z":
                    return "(Z.opp %s)" % c, "Z"
                raise self.err("unary minus on %s" % (t,), n)
            raise self.err("unary operator %s" % type(n.op).__name__, n)
        if isinstance(n, ast.BoolOp):
            op = "andb" if isinstance(n.op, ast.And) else "orb"
            parts = [self.expr(n.values[0], env, "bool")[0]]
            for v in n.values[1:]:
                parts.append(self.no_partial(lambda v=v: self.expr(v, env, "bool")[0],
                                             "the right operand of and/or", v))
            code = parts[-1]
            for p in reversed(parts[:-1]):
                code = "(%s %s %s)" % (op, p, code)
            return code, "bool"
        if isinstance(n, ast.IfExp):
            c, _ = self.expr(n.test, env, "bool")
            a, ta = self.no_partial(lambda: self.expr(n.body, env, want), "a conditional expression", n)
            b, tb = self.no_partial(lambda: self.expr(n.orelse, env, want), "a conditional expression", n)
            a, b, t = self.unify(a, ta, b, tb, n)
            return "(if %s then %s else %s)" % (c, a, b), t
        if isinstance(n, ast.Compare) and len(n.ops) == 1 and isinstance(n.ops[0], (ast.In, ast.NotIn)):
            d, td = self.expr(n.comparators[0], env)
            if not (isinstance(td, tuple) and td[0] == "dict"):
                raise self.err("`in` on a value of type %s (only dictionaries built in the function)" % (td,), n)
            kc, _ = self.expr(n.left, env, td[1])
            self.ghelpers.add("py_dict")
            c = "(py_dict_has %s %s %s)" % (self.eq_fn(td[1], n), kc, d)
            return (c if isinstance(n.ops[0], ast.In) else "(negb %s)" % c), "bool"
        if isinstance(n, ast.Compare):
            if len(n.ops) != 1:
                raise self.err("chained comparison", n)
            # parameters fixed by the spec (a string selector such as distribution="uniform", or "not None"):
            # the comparison is decided here and the branch not taken is never looked at
            if isinstance(n.left, ast.Name) and n.left.id in self.fixed and n.left.id in env:
                fx, op, rhs = self.fixed[n.left.id], n.ops[0], n.comparators[0]
                if isinstance(rhs, ast.Constant) and isinstance(rhs.value, str) and isinstance(fx, dict) and "str" in fx \
                        and isinstance(op, (ast.Eq, ast.NotEq)):
                    return ("true" if (fx["str"] == rhs.value) == isinstance(op, ast.Eq) else "false"), "bool"
                if isinstance(rhs, ast.Constant) and rhs.value is None and fx == "not None" and isinstance(op, (ast.Is, ast.IsNot)):
                    return ("true" if isinstance(op, ast.IsNot) else "false"), "bool"
                raise self.err("comparison of the fixed parameter %r that the spec does not decide" % n.left.id, n)
            a, ta = self.expr(n.left, env)
            b, tb = self.expr(n.comparators[0], env)
            a, b, t = self.unify(a, ta, b, tb, n)
            return self.compare(n.ops[0], a, b, t, n), "bool"
        if isinstance(n, ast.BinOp):
            a, ta = self.expr(n.left, env)
            b, tb = self.expr(n.right, env)
            if is_lit(ta) and is_lit(tb) and want is not None:
                a, ta = self.coerce(a, ta, want, n)
            a, b, t = self.unify(a, ta, b, tb, n)
            if t == "nat" and isinstance(n.op, ast.Sub):
                # Python's int subtraction is exact: natural numbers are embedded into Z (an index computed this
                # way follows Python's rule for negative indices, see `index`)
                return "(Z.sub (Z.of_nat %s) (Z.of_nat %s))" % (a, b), "Z"
            return self.binop(n.op, a, b, t, n), t
        if isinstance(n, ast.Attribute) or (isinstance(n, ast.Subscript) and self.key_of(n.slice, env) is not None):
            return self.field_read(n, env)
        if isinstance(n, ast.Subscript):
            return self.subscript(n, env)
        if isinstance(n, ast.List):
            if not n.elts:
                raise self.err("empty list literal (its element type is not determined)", n)
            parts = [self.expr(e, env) for e in n.elts]
            t0 = next((t for _, t in parts if not is_lit(t)), None)
            if t0 is None:
                raise self.err("list literal of bare numeric literals (its element type is not determined)", n)
            codes = [self.coerce(c, t, t0, n)[0] for c, t in parts]
            return "[%s]" % "; ".join(codes), ("list", t0)
        if isinstance(n, ast.ListComp):
            if len(n.generators) != 1 or n.generators[0].ifs or getattr(n.generators[0], "is_async", 0):
                raise self.err("comprehension with a condition / several generators", n)
            g = n.generators[0]
            if isinstance(g.target, ast.Name):
                return self.map_lambda([g.target.id], n.elt, [g.iter], env, n)
            if isinstance(g.target, (ast.Tuple, ast.List)) and len(g.target.elts) == 2 \
                    and all(isinstance(e, ast.Name) for e in g.target.elts) and isinstance(g.iter, ast.Call) \
                    and dotted(g.iter.func) == "zip" and "zip" not in env and len(g.iter.args) == 2 and not g.iter.keywords:
                return self.map_lambda([e.id for e in g.target.elts], n.elt, g.iter.args, env, n)
            raise self.err("comprehension target / iterable", n)
        if isinstance(n, ast.Call):
            return self.call(n, env, want)
        raise self.err("expression %s" % type(n).__name__, n)

    def key_of(self, sl, env):
        """the string a subscript denotes: a string literal, or a parameter the spec fixes to a string"""
        if isinstance(sl, ast.Index):
            sl = sl.value
        if isinstance(sl, ast.Constant) and isinstance(sl.value, str):
            return sl.value
        if isinstance(sl, ast.Name) and env.get(sl.id) == "fixed" and isinstance(self.fixed.get(sl.id), dict) \
                and "str" in self.fixed[sl.id]:
            return self.fixed[sl.id]["str"]
        return None

    def field_read(self, n, env):
        """e.name, e.features["key"], e["key"] on an expression e of a record type: the declared accessor
        (a Section variable, a function of the object) applied to e"""
        steps = []
        while True:
            if isinstance(n, ast.Attribute):
                steps.append(n.attr)
                n = n.value
            elif isinstance(n, ast.Subscript) and self.key_of(n.slice, env) is not None:
                kv = self.key_of(n.slice, env)
                if not re.fullmatch(r"\w+", kv):
                    raise self.err("string key %r" % kv, n)
                steps.append('["%s"]' % kv)
                n = n.value
            else:
                break
        steps.reverse()
        code, t = self.expr(n, env)
        while steps:
            if t not in self.records:
                raise self.err("attribute / key %s of a value of type %s (not a record type of the spec)" % (steps[0], t), n)
            hit = None
            for k in range(len(steps), 0, -1):            # the longest declared field first
                name = steps[0] + "".join(x if x.startswith("[") else "." + x for x in steps[1:k])
                for f, ft in self.records[t]:
                    if f == name:
                        hit = (k, f, ft)
                        break
                if hit:
                    break
            if not hit:
                raise self.err("field %s of the record type %s has no declared type (fields in the spec: %s)"
                               % (steps[0], t, [f for f, _ in self.records[t]]), n)
            k, f, ft = hit
            for a, _ in self.writes:
                base = a.split(".")[0].split("[")[0]
                if env.get(base) == t and a[len(base):].lstrip(".") == f:
                    # the other expression may denote the same object: its field is the accessor's value (the value
                    # at entry) only as long as no write to the field can have happened, i.e. every write follows
                    # this read in the source and no loop around this read contains one
                    wl = self.write_lines.get(attr_var(a), [])
                    in_loop = any(body[0].lineno <= ln <= max(getattr(x, "end_lineno", 0) or 0 for y in body for x in ast.walk(y))
                                  for body in self.loop_stack for ln in wl)
                    if any(ln <= n.lineno for ln in wl) or in_loop:
                        raise self.err("field %s of a %s is written by this function through %s and read here through "
                                       "another expression (it may be the same object) after / in a loop with a write"
                                       % (f, t, base), n)
            if (t, f) not in self.used_acc:
                self.used_acc.append((t, f))
            code, t, steps = "(%s %s)" % (self.acc_name(t, f), code), ft, steps[k:]
        return code, t

    def check_escape(self, arg, node):
        """a list that is modified in place and is stored by a constructor / appended to another list: the stored
        reference must never see a later modification.  Allowed only when no modification of the list follows in
        the source and, inside a loop, the innermost loop body rebinds the name to a new list (top level of the
        body) before every modification of it: each iteration then works on an object of its own."""
        key = attr_key(arg) if isinstance(arg, (ast.Name, ast.Attribute, ast.Subscript)) else None
        name = attr_var(key) if key else None
        if name is None or name not in self.appended:
            return
        lines = self.append_lines.get(name, [])
        if any(ln > node.lineno for ln in lines):
            raise self.err("the list %r is stored here and modified in place afterwards" % name, node)
        if self.loop_stack:
            body = self.loop_stack[-1]
            rebind = [st for st in body if isinstance(st, ast.Assign) and len(st.targets) == 1
                      and attr_key(st.targets[0]) == key and self.fresh_list_expr(st.value)]
            first, last = body[0].lineno, max(getattr(nd, "end_lineno", 0) or 0 for st in body for nd in ast.walk(st))
            if not rebind or any(not (rebind[0].lineno < ln <= last) for ln in lines) or not rebind[0].lineno < node.lineno:
                raise self.err("the list %r is stored here inside a loop whose body does not rebind it to a new list "
                               "before modifying it" % name, node)

    def callee_head(self, f, n):
        """`@callee T <types> <interface>`: a translated function applied to its Section variables, which become
        (the same) Section variables of this function: operators, literals, accessors, equality tests, oracles"""
        q = self.calls[f]
        if q not in self.done:
            raise self.err("call of %s = %s, which is not translated before this function" % (f, q), n)
        callee = self.done[q]
        if callee.writes or callee.pick_sites or callee.sample_vars or callee.oracle_once & set(callee.used_oracles) \
                or getattr(callee, "has_while", False) or callee.events:
            raise self.err("call of %s, which has writes / pick functions / impure oracles" % f, n)
        for nm in callee.tvars:
            if nm not in self.tnames:
                raise self.err("call of %s, whose type %s this function's spec does not declare" % (f, nm), n)
            if nm in self.records and nm in callee.records and dict(self.records[nm]) != dict(callee.records[nm]):
                pass
        names = []
        for name, ty in callee.iface():
            if name in IFACE_TYPE:
                self.use(name)
            elif name.startswith("c_"):
                self.consts.add((name, dict(callee.consts)[name]))
            elif name.startswith("f_"):
                hit = [(r, fl) for (r, fl) in callee.used_acc if callee.acc_name(r, fl) == name]
                r, fl = hit[0]
                if dict(self.records.get(r, [])).get(fl) != dict(callee.records[r])[fl]:
                    raise self.err("call of %s, which reads the field %s of %s: not declared (with the same type) in this "
                                   "function's spec" % (f, fl, r), n)
                if (r, fl) not in self.used_acc:
                    self.used_acc.append((r, fl))
            elif name.startswith("eqb_"):
                if name[4:] not in self.used_eq:
                    self.used_eq.append(name[4:])
            elif name.startswith("o_"):
                o = [o for o, _, _ in callee.oracles if callee.oracle_name(o) == name][0]
                mine = [x for x in self.oracles if x[0] == o]
                if not mine or mine[0] != [x for x in callee.oracles if x[0] == o][0]:
                    raise self.err("call of %s, which uses the oracle %s: not declared (with the same type) in this "
                                   "function's spec" % (f, o), n)
                if o not in self.used_oracles:
                    self.used_oracles.append(o)
            else:
                raise self.err("call of %s: interface member %s" % (f, name), n)
            names.append(name)
        return callee, " ".join(["@" + callee.coq] + (["T"] if callee.uses_T else []) + list(callee.tvars) + names)

    def eq_fn(self, t, node):
        """the Coq function for Python's == on values of type t"""
        if t == "T":
            return self.use("eqb")
        if t == "nat":
            return "Nat.eqb"
        if t == "Z":
            return "Z.eqb"
        if t == "bool":
            return "Bool.eqb"
        if t in self.tnames:
            if t not in self.used_eq:
                self.used_eq.append(t)
            return "eqb_" + t
        raise self.err("== on values of type %s" % (t,), node)

    def index(self, sl, env, base, node):
        """code of the position (nat) that the subscript sl denotes in the list `base`; an integer (Z) index goes
        through Python's rule for negative indices (len + k), out of range = exception"""
        if self.is_minus1(sl):
            return "(Nat.pred (length %s))" % base
        c, t = self.expr(sl, env)
        if is_lit(t):
            if t[1] >= 0 and not isinstance(t[1], float):
                return "%d%%nat" % t[1]
            c, t = self.coerce(c, t, "Z", node)
        if t == "nat":
            return c
        if t == "Z":
            self.ghelpers.add("py_zindex")
            return self.bind_partial("(py_zindex %s (length %s))" % (c, base))
        raise self.err("index of type %s" % (t,), node)

    def compare(self, op, a, b, t, node):
        k = type(op).__name__
        if t in self.tnames:
            if k == "Eq":
                return "(%s %s %s)" % (self.eq_fn(t, node), a, b)
            if k == "NotEq":
                return "(negb (%s %s %s))" % (self.eq_fn(t, node), a, b)
            raise self.err("comparison %s on values of type %s" % (k, t), node)
        if t == "T":
            tab = {"Lt": "(%s %s %s)" % ("ltb", a, b), "Gt": "(%s %s %s)" % ("ltb", b, a),
                   "LtE": "(%s %s %s)" % ("leb", a, b), "GtE": "(%s %s %s)" % ("leb", b, a),
                   "Eq": "(%s %s %s)" % ("eqb", a, b), "NotEq": "(negb (%s %s %s))" % ("eqb", a, b)}
            if k not in tab:
                raise self.err("comparison %s on numbers" % k, node)
            self.use({"Lt": "ltb", "Gt": "ltb", "LtE": "leb", "GtE": "leb", "Eq": "eqb", "NotEq": "eqb"}[k])
            return tab[k]
        if t in ("Z", "nat"):
            m = "Z" if t == "Z" else "Nat"
            tab = {"Lt": "(%s.ltb %s %s)" % (m, a, b), "Gt": "(%s.ltb %s %s)" % (m, b, a),
                   "LtE": "(%s.leb %s %s)" % (m, a, b), "GtE": "(%s.leb %s %s)" % (m, b, a),
                   "Eq": "(%s.eqb %s %s)" % (m, a, b), "NotEq": "(negb (%s.eqb %s %s))" % (m, a, b)}
            if k not in tab:
                raise self.err("comparison %s on integers" % k, node)
            return tab[k]
        if t == "bool":
            if k == "Eq":
                return "(Bool.eqb %s %s)" % (a, b)
            if k == "NotEq":
                return "(negb (Bool.eqb %s %s))" % (a, b)
            raise self.err("comparison %s on booleans" % k, node)
        raise self.err("comparison %s on %s" % (k, t), node)

    def binop(self, op, a, b, t, node):
        k = type(op).__name__
        if t == "T":
            tab = {"Add": "add", "Sub": "sub", "Mult": "mul", "Div": "div"}
            if k not in tab:
                raise self.err("operator %s on numbers" % k, node)
            return "(%s %s %s)" % (self.use(tab[k]), a, b)
        if t in ("nat", "Z"):
            m = "Nat" if t == "nat" else "Z"
            if k == "Add":
                return "(%s.add %s %s)" % (m, a, b)
            if k == "Mult":
                return "(%s.mul %s %s)" % (m, a, b)
            if k == "Sub":
                if t == "nat":
                    raise self.err("subtraction of natural numbers in this position", node)
                return "(Z.sub %s %s)" % (a, b)
            if k == "Mod":
                # Python raises ZeroDivisionError for a zero divisor; for a non-negative dividend and a
                # positive divisor Python's % is Nat.modulo / Z.modulo (floor), equal on these arguments
                self.guard("(%s.eqb %s %s)" % (m, b, "0%nat" if t == "nat" else "0%Z"))
                return "(%s.modulo %s %s)" % (m, a, b)
            raise self.err("operator %s on integers" % k, node)
        raise self.err("operator %s on %s" % (k, t), node)

    def subscript(self, n, env):
        sl = n.slice
        if isinstance(sl, ast.Index):          # python 3.8
            sl = sl.value
        base_t = None
        if isinstance(n.value, ast.Name) and env.get(n.value.id) == "costvec":
            p = mangle(n.value.id)
            if isinstance(sl, ast.UnaryOp) and isinstance(sl.op, ast.USub) and isinstance(sl.operand, ast.Constant) \
                    and sl.operand.value == 1:
                return "(snd %s)" % p, "Z"
            if isinstance(sl, ast.Slice) and sl.lower is None and sl.step is None and self.is_minus1(sl.upper):
                return "(fst %s)" % p, ("list", "T")
            raise self.err("a signed-cost vector supports only v[-1] (marker) and v[:-1] (objectives)", n)
        base, base_t = self.expr(n.value, env)
        if not (isinstance(base_t, tuple) and base_t[0] == "list"):
            raise self.err("subscript of a value of type %s" % (base_t,), n)
        if isinstance(sl, ast.Slice):
            if sl.lower is None and sl.step is None and self.is_minus1(sl.upper):
                return "(removelast %s)" % base, base_t
            if sl.lower is None and sl.step is None and sl.upper is not None:
                # xs[:n] for a natural number n: the first n elements (a negative n would count from the end)
                c, t = self.expr(sl.upper, env)
                if is_lit(t) and not isinstance(t[1], float) and t[1] >= 0:
                    c, t = "%d%%nat" % t[1], "nat"
                if t == "nat":
                    return "(firstn %s %s)" % (c, base), base_t
            raise self.err("slice other than xs[:-1] / xs[:n] with a natural number n", n)
        # safe idiom: xs[i] inside `for i in range(len(xs))`
        if isinstance(sl, ast.Name):
            for (lst_dump, ivar, evar) in self.safe_index:
                if sl.id == ivar and ast.dump(n.value) == lst_dump:
                    return evar, base_t[1]
        idx = self.index(sl, env, base, n)
        return self.bind_partial("(nth_error %s %s)" % (base, idx)), base_t[1]

    @staticmethod
    def is_minus1(n):
        return isinstance(n, ast.UnaryOp) and isinstance(n.op, ast.USub) and isinstance(n.operand, ast.Constant) \
            and n.operand.value == 1 and not isinstance(n.operand.value, bool)

    def map_lambda(self, lam_args, body, iters, env, node):
        """list(map(lambda a, b: E, xs, ys)) / [E for a, b in zip(xs, ys)]: map over the zipped lists"""
        if len(lam_args) != len(iters) or not 1 <= len(iters) <= 2:
            raise self.err("map / comprehension over other than one or two lists", node)
        codes, ets = [], []
        for it in iters:
            c, t = self.expr(it, env)
            if not (isinstance(t, tuple) and t[0] == "list"):
                raise self.err("map over a value of type %s" % (t,), it)
            codes.append(c)
            ets.append(t[1])
        env2 = dict(env)
        for a, t in zip(lam_args, ets):
            if a in env:
                raise self.err("lambda / comprehension variable %r shadows a bound name" % a, node)
            env2[a] = t
        saved = self.loop_targets
        self.loop_targets = self.loop_targets | set(lam_args)
        try:
            e, te = self.no_partial(lambda: self.expr(body, env2), "a lambda / comprehension body", node)
        finally:
            self.loop_targets = saved
        if is_lit(te):
            raise self.err("lambda / comprehension body is a bare literal", node)
        if len(iters) == 1:
            return "(map (fun %s => %s) %s)" % (mangle(lam_args[0]), e, codes[0]), ("list", te)
        return "(map (fun '(%s, %s) => %s) (combine %s %s))" % (mangle(lam_args[0]), mangle(lam_args[1]), e,
                                                                 codes[0], codes[1]), ("list", te)

    def call(self, n, env, want):
        if isinstance(n.func, ast.Attribute) and n.func.attr == "copy" and not n.args and not n.keywords:
            a, t = self.expr(n.func.value, env)
            if not is_list(t):
                raise self.err(".copy() of a value of type %s" % (t,), n)
            return a, t                                  # a new list object with the same elements
        f = dotted(n.func)
        if f is None:
            raise self.err("call of a computed function", n)
        if f in ("min", "max") and len(n.args) == 1 and len(n.keywords) == 1 and n.keywords[0].arg == "key" \
                and isinstance(n.keywords[0].value, ast.Lambda) and f not in env:
            # min(xs, key=lambda x: E) / max(...): the FIRST element with the smallest / largest key; ValueError on an
            # empty sequence; the key is evaluated on every element (an exception in it is the call's exception)
            lam = n.keywords[0].value
            la = lam.args
            if la.vararg or la.kwarg or la.kwonlyargs or la.defaults or getattr(la, "posonlyargs", []) or len(la.args) != 1:
                raise self.err("key function of %s() is not a one-argument lambda" % f, lam)
            xs, t = self.expr(n.args[0], env)
            if not is_list(t):
                raise self.err("%s() of a value of type %s" % (f, t), n)
            v = la.args[0].arg
            if v in env:
                raise self.err("lambda variable %r shadows a bound name" % v, lam)
            saved, saved_partial = self.loop_targets, self.partial
            self.loop_targets = self.loop_targets | {v}
            if not self.partial:
                raise _NeedPartial()
            try:
                (kc, _), kpre = self.with_pre(lambda: self.expr(lam.body, dict(env, **{v: t[1]}), "T"))
            finally:
                self.loop_targets = saved
            kcode = "(Some %s)" % kc
            for item in reversed(kpre):
                if item[0] == "bind":
                    kcode = "match %s with Some %s => %s | None => None end" % (item[2], item[1], kcode)
                elif item[0] == "guard":
                    kcode = "if %s then None else %s" % (item[1], kcode)
                else:
                    raise self.err("an observable call inside a key function", lam)
            self.use("ltb")
            self.ghelpers.add("py_extreme_by")
            better = "(fun py_k py_b => ltb py_k py_b)" if f == "min" else "(fun py_k py_b => ltb py_b py_k)"
            return self.bind_partial("(py_extreme_by %s (fun %s => %s) %s)" % (better, mangle(v), kcode, xs)), t[1]
        if f == "sorted" and "sorted" not in env and f not in getattr(self, "shadowed_builtins", ()):
            # sorted(xs, key=lambda x: E) with numeric keys: the STABLE sort by `<` on the keys (insertion from the
            # right, as Base/StableSort.v; for keys on which < is not a strict weak order - NaN - Python's result is
            # unspecified, and so is the meaning of this term)
            kw = n.keywords[0].value if len(n.keywords) == 1 and n.keywords[0].arg == "key" else None
            if len(n.args) == 1 and isinstance(kw, ast.Call) and dotted(kw.func) in ("functools.cmp_to_key", "cmp_to_key") \
                    and len(kw.args) == 1 and not kw.keywords and dotted(kw.args[0]) in self.calls \
                    and dotted(kw.func).split(".")[0] not in env:
                # sorted(xs, key=cmp_to_key(f)) with a translated comparison f: the only question the sort asks is
                # K(a) < K(b), i.e. f(a, b) < 0; stable insertion sort with leb a b = not (f(b, a) < 0)
                xs, t = self.expr(n.args[0], env)
                if not is_list(t):
                    raise self.err("sorted() of a value of type %s" % (t,), n)
                callee, head = self.callee_head(dotted(kw.args[0]), n)
                pl = callee.param_list()
                if callee.partial or callee.ret_type != "Z" or [p[1] for p in pl] != [t[1], t[1]] or any(p[2] != "param" for p in pl):
                    raise self.err("cmp_to_key of a function that is not a total integer-valued comparison of two elements", n)
                self.ghelpers.add("py_sorted")
                return "(py_sorted (fun cmp_a cmp_b => negb (Z.ltb (%s cmp_b cmp_a) (0)%%Z)) %s)" % (head, xs), t
            if len(n.args) != 1 or not isinstance(kw, ast.Lambda):
                raise self.err("sorted() other than sorted(xs, key=lambda x: E) / key=cmp_to_key(f)", n)
            lam = n.keywords[0].value
            la = lam.args
            if la.vararg or la.kwarg or la.kwonlyargs or la.defaults or getattr(la, "posonlyargs", []) or len(la.args) != 1:
                raise self.err("key function of sorted() is not a one-argument lambda", lam)
            xs, t = self.expr(n.args[0], env)
            if not is_list(t):
                raise self.err("sorted() of a value of type %s" % (t,), n)
            v = la.args[0].arg
            if v in env:
                raise self.err("lambda variable %r shadows a bound name" % v, lam)
            saved = self.loop_targets
            self.loop_targets = self.loop_targets | {v}
            try:
                ka = self.no_partial(lambda: self.expr(lam.body, dict(env, **{v: t[1]}), "T"), "a key function", lam)[0]
            finally:
                self.loop_targets = saved
            a_, b_ = mangle(v) + "_a", mangle(v) + "_b"
            kb = re.sub(r"\b%s\b" % re.escape(mangle(v)), b_, ka)
            ka = re.sub(r"\b%s\b" % re.escape(mangle(v)), a_, ka)
            self.use("ltb")
            self.ghelpers.add("py_sorted")
            return "(py_sorted (fun %s %s => negb (ltb %s %s)) %s)" % (a_, b_, kb, ka, xs), t
        if f in self.samples:
            # random.sample(xs, k) for a literal k: the elements at k pairwise different indices, each a Section
            # variable of its own (ValueError when k > len(xs): an index beyond the end; equal indices are not a
            # behaviour of the function: None)
            if len(n.args) != 2 or n.keywords or not (isinstance(n.args[1], ast.Constant) and isinstance(n.args[1].value, int)
                                                      and not isinstance(n.args[1].value, bool) and 1 <= n.args[1].value <= 4):
                raise self.err("sample function %s other than f(xs, k) with a literal 1 <= k <= 4" % f, n)
            if f.split(".")[0] in env and env[f.split(".")[0]] != "obj":
                raise self.err("call through the local name %r" % f.split(".")[0], n)
            if self.loop_targets:
                raise self.err("the sample function %s is called inside a loop / lambda" % f, n)
            a, t = self.expr(n.args[0], env)
            if not is_list(t):
                raise self.err("%s of a value of type %s" % (f, t), n)
            site = self.all_sample_sites.index((n.lineno, n.col_offset)) + 1
            ks = ["smp_%d_%d" % (site, j + 1) for j in range(n.args[1].value)]
            for kname in ks:
                if kname not in self.sample_vars:
                    self.sample_vars.append(kname)
            same = ["(Nat.eqb %s %s)" % (ks[i_], ks[j_]) for i_ in range(len(ks)) for j_ in range(i_ + 1, len(ks))]
            if same:
                cond = same[-1]
                for c_ in reversed(same[:-1]):
                    cond = "(orb %s %s)" % (c_, cond)
                self.guard(cond)
            xs = [self.bind_partial("(nth_error %s %s)" % (a, kname)) for kname in ks]
            return "[%s]" % "; ".join(xs), t
        if f in self.picks:
            # random.choice(xs): the element at an index that is a Section variable of its own for this call site
            # (IndexError on an empty sequence; an index beyond the end is not a behaviour of the function: None)
            if len(n.args) != 1 or n.keywords:
                raise self.err("pick function %s with other than one argument" % f, n)
            if f.split(".")[0] in env and env[f.split(".")[0]] != "obj":
                raise self.err("call through the local name %r" % f.split(".")[0], n)
            if self.loop_targets:
                raise self.err("the pick function %s is called inside a loop / lambda" % f, n)
            a, t = self.expr(n.args[0], env)
            if not is_list(t):
                raise self.err("%s of a value of type %s" % (f, t), n)
            k = self.all_pick_sites.index((n.lineno, n.col_offset)) + 1      # numbered in source order
            if k not in self.pick_sites:
                self.pick_sites.append(k)
            return self.bind_partial("(nth_error %s pick_%d)" % (a, k)), t[1]
        if n.keywords:
            if f not in self.oracle_kw:
                raise self.err("keyword arguments in a call", n)
            kws = self.oracle_kw[f]
            args = list(n.args) + [None] * (len(kws) - len(n.args))
            for kw in n.keywords:
                if kw.arg not in kws or kws.index(kw.arg) < len(n.args) or args[kws.index(kw.arg)] is not None:
                    raise self.err("keyword argument %r of %s" % (kw.arg, f), n)
                args[kws.index(kw.arg)] = kw.value
            if any(a is None for a in args):
                raise self.err("oracle %s called with missing arguments" % f, n)
            n = ast.copy_location(ast.Call(func=n.func, args=args, keywords=[]), n)
        args = n.args
        if f == "list" and len(args) == 1 and "list" not in env and isinstance(args[0], ast.Call) \
                and dotted(args[0].func) == "map" and "map" not in env and not args[0].keywords \
                and len(args[0].args) >= 2 and isinstance(args[0].args[0], ast.Lambda):
            lam = args[0].args[0]
            la = lam.args
            if la.vararg or la.kwarg or la.kwonlyargs or la.defaults or getattr(la, "posonlyargs", []):
                raise self.err("lambda with defaults / *args", lam)
            return self.map_lambda([a.arg for a in la.args], lam.body, args[0].args[1:], env, n)
        if any(isinstance(a, ast.Starred) for a in args):
            raise self.err("starred argument", n)
        if f == "list" and len(args) == 1 and "list" not in env and f not in getattr(self, "shadowed_builtins", ()):
            a, t = self.expr(args[0], env)
            if not is_list(t):
                raise self.err("list() of a value of type %s" % (t,), n)
            return a, t                                  # a new list object with the same elements
        shadow = f.split(".")[0]
        if shadow in env and env[shadow] != "obj":
            raise self.err("call through the local name %r" % shadow, n)
        if f in getattr(self, "shadowed_builtins", ()):
            raise self.err("the module rebinds the builtin %r (import / definition / star import)" % f, n)
        if f == "len" and len(args) == 1:
            a, t = self.expr(args[0], env)
            if not (isinstance(t, tuple) and t[0] == "list"):
                raise self.err("len() of a value of type %s" % (t,), n)
            return "(length %s)" % a, "nat"
        if f == "abs" and len(args) == 1:
            a, t = self.expr(args[0], env)
            if t == "T":
                return "(%s %s)" % (self.use("absT"), a), "T"
            if t == "Z":
                return "(Z.abs %s)" % a, "Z"
            raise self.err("abs() of a value of type %s" % (t,), n)
        if f in ("min", "max") and len(args) == 2:
            a, ta = self.expr(args[0], env)
            b, tb = self.expr(args[1], env)
            a, b, t = self.unify(a, ta, b, tb, n)
            if t != "T":
                raise self.err("%s() on %s" % (f, t), n)
            self.use("ltb")
            self.helpers.add("py_" + f)
            return "(py_%s %s %s)" % (f, a, b), "T"
        if f == "float" and len(args) == 1:
            a, t = self.expr(args[0], env, "T")
            return a, "T"
        if f == "tuple" and len(args) == 1:
            a, t = self.expr(args[0], env)
            if not (isinstance(t, tuple) and t[0] == "list"):
                raise self.err("tuple() of a value of type %s" % (t,), n)
            return a, t
        for o, ats, rt in self.oracles:
            if o == f:
                if len(args) != len(ats):
                    raise self.err("oracle %s called with %d arguments, declared with %d" % (o, len(args), len(ats)), n)
                for a, t in zip(args, ats):
                    if t == "any" and not (isinstance(a, ast.Name) and env.get(a.id) == "fixed"):
                        raise self.err("argument of %s that the spec leaves untranslated is not an opaque parameter" % o, n)
                cs = [self.expr(a, env, t)[0] for a, t in zip(args, ats) if t != "any"]
                if o in self.constructors:
                    for a in args:
                        self.check_escape(a, n)
                if o in self.oracle_once:
                    # an impure oracle (a random draw): one Section variable stands for its single result, so it
                    # may be called at one place only, outside every loop / lambda
                    if self.loop_targets or self.once_sites.setdefault(o, (n.lineno, n.col_offset)) != (n.lineno, n.col_offset):
                        raise self.err("the impure oracle %s is called more than once / inside a loop" % o, n)
                if o not in self.used_oracles:
                    self.used_oracles.append(o)
                if o in self.events:
                    if self.loop_targets or self.pre is None:
                        raise self.err("the observable oracle %s is called inside a loop / lambda" % o, n)
                    self.pre.append(("event", self.events.index(o) + 1))
                return ("(%s %s)" % (self.oracle_name(o), " ".join(cs)) if cs else self.oracle_name(o)), rt
        if f in self.calls:
            callee, head = self.callee_head(f, n)
            ptypes = callee.param_list()
            if len(args) != len([p for p in ptypes if p[2] == "param"]) or any(p[2] not in ("param", "attr") for p in ptypes):
                raise self.err("call of %s with an argument list that does not match its parameters" % f, n)
            cs = [self.expr(a, env, t)[0] for a, (_, t, _) in zip(args, [p for p in ptypes if p[2] == "param"])]
            for nm, t, kind in ptypes:
                if kind == "attr":
                    # an attribute the callee reads (self.individuals): the same attribute of the same object here,
                    # declared with the same type and not modified by this function
                    if not (f.split(".")[0] == self.self_name and callee.self_name is not None) or env.get(nm) != t \
                            or nm in self.appended or nm in [attr_var(a) for a, _ in self.writes] \
                            or nm not in [attr_var(a) for a, _ in self.attrs]:
                        raise self.err("call of %s, which reads the attribute %s: not declared (with the same type, "
                                       "unmodified) in this function's spec, or not a method of the same object" % (f, nm), n)
                    cs.append(mangle(nm))
            code = "(%s)" % " ".join([head] + cs)
            if callee.partial:
                return self.bind_partial(code), callee.ret_type
            return code, callee.ret_type
        raise self.err("call of %s (not a supported builtin, declared oracle or translated function)" % f, n)

    # -- statements ---------------------------------------------------------------------------
    def wrap(self, pre, inner, ctx, env):
        for item in reversed(pre):
            if item[0] == "bind":
                inner = "match %s with\n| Some %s =>\n%s\n| None => %s\nend" % (
                    item[2], item[1], textwrap.indent(inner, "  "), ctx.raise_(env))
            elif item[0] == "event":
                inner = "let evlog := (evlog ++ [%d%%nat]) in\n%s" % (item[1], inner)
            else:
                inner = "if %s then %s else\n%s" % (item[1], ctx.raise_(env), inner)
        return inner

    def with_pre(self, f):
        """run f() collecting hoisted partial operations; returns (result, pre)"""
        saved, self.pre = self.pre, []
        try:
            r = f()
            return r, self.pre
        finally:
            self.pre = saved

    def simple(self, stmts):
        """only assignments to names / pass / nested simple ifs"""
        for s in stmts:
            if isinstance(s, ast.Pass):
                continue
            if isinstance(s, (ast.Assign, ast.AugAssign)):
                continue
            if isinstance(s, ast.If) and self.simple(s.body) and self.simple(s.orelse):
                continue
            return False
        return True

    def block(self, stmts, env, ctx, k):
        """code of the statement list followed by the continuation k(env)"""
        if not stmts:
            return k(env)
        s, rest = stmts[0], stmts[1:]
        if isinstance(s, ast.Expr) and isinstance(s.value, ast.Constant) and isinstance(s.value.value, str):
            return self.block(rest, env, ctx, k)          # docstring
        if isinstance(s, ast.Pass):
            return self.block(rest, env, ctx, k)
        if isinstance(s, (ast.Expr, ast.Assign, ast.AugAssign, ast.Delete)) and self.skip and ast.unparse(s) in self.skip:
            # a statement the spec designates as NOT translated (an effect on other objects that the result
            # of the translated function does not contain); counted in _translate, listed in the generated file
            return self.block(rest, env, ctx, k)
        if isinstance(s, ast.Return):
            if rest:
                raise self.err("unreachable statement after return", rest[0])
            if (s.value is None) != (self.val_type is None):
                raise self.err("return without a value in a function with a declared result / return of a value in a "
                               "function whose result is its writes", s)
            if s.value is None:
                return ctx.ret_val(self.result_code(None, env, s), env)
            (c, _), pre = self.with_pre(lambda: self.expr(s.value, env, self.val_type))
            return self.wrap(pre, ctx.ret_val(self.result_code(c, env, s), env), ctx, env)
        if isinstance(s, (ast.Continue, ast.Break)) and ctx.wl is not None:
            if rest:
                raise self.err("unreachable statement after continue / break", rest[0])
            return ctx.wl[0 if isinstance(s, ast.Continue) else 1](env)
        if isinstance(s, ast.While):
            return self.while_(s, rest, env, ctx, k)
        if isinstance(s, ast.Continue):
            if ctx.loop is None:
                raise self.err("continue outside a loop", s)
            if rest:
                raise self.err("unreachable statement after continue", rest[0])
            return ctx.loop.state(env, "None", bump=True)
        if isinstance(s, ast.Break):
            if ctx.loop is None or not ctx.loop.brk:
                raise self.err("break outside a for loop", s)
            if rest:
                raise self.err("unreachable statement after break", rest[0])
            return ctx.loop.state(env, "None", brk=True)
        if mutation_of(s):
            return self.mutate(s, rest, env, ctx, k)
        if isinstance(s, (ast.Assign, ast.AugAssign)):
            return self.assign(s, rest, env, ctx, k)
        if isinstance(s, ast.If):
            return self.if_(s, rest, env, ctx, k)
        if isinstance(s, ast.For):
            return self.for_(s, rest, env, ctx, k)
        raise self.err("statement %s" % type(s).__name__, s)

    def assign(self, s, rest, env, ctx, k):
        if isinstance(s, ast.Assign):
            if len(s.targets) != 1:
                raise self.err("chained assignment", s)
            tgt, val = s.targets[0], s.value
            if isinstance(tgt, (ast.Tuple, ast.List)):
                return self.tuple_assign(s, tgt, val, rest, env, ctx, k)
        else:
            tgt = s.target
            left = ast.parse(ast.unparse(tgt), mode="eval").body        # the target, read
            for nd in ast.walk(left):
                ast.copy_location(nd, s)
            val = ast.BinOp(left=left, op=s.op, right=s.value)
            ast.copy_location(val, s)
        if isinstance(tgt, (ast.Attribute, ast.Subscript)) and attr_key(tgt) in [a for a, _ in self.writes]:
            name = attr_var(attr_key(tgt))
        elif not isinstance(tgt, ast.Name):
            raise self.err("assignment to %s (only local names and the attributes listed under `writes` in the "
                           "spec can be assigned)" % (attr_key(tgt) or type(tgt).__name__), s)
        else:
            name = tgt.id
        if name in self.loop_idx_names or (name in self.loop_targets and name not in env):
            raise self.err("assignment to the loop index / lambda variable %r" % name, s)
        if env.get(name) == "obj" or name == "self":
            raise self.err("assignment to the object parameter %r" % name, s)
        want = env.get(name)
        # a bare name / attribute on the right-hand side makes the target an alias of it
        # (harmless when the appends are all over: every append to the source precedes this statement, the
        # target is never appended to, and the statement is not inside a loop)
        src = attr_key(val) if isinstance(val, (ast.Name, ast.Attribute, ast.Subscript)) else None
        src = (attr_var(src) if "." in src else src) if src else None
        done_appending = src in self.appended and ctx.loop is None and name not in self.appended \
            and all(ln < s.lineno for ln in self.append_lines.get(src, []))
        self.alias_context = isinstance(val, (ast.Name, ast.Attribute, ast.Subscript)) and attr_key(val) is not None \
            and not done_appending
        declared = want or dict((attr_var(a), t) for a, t in self.writes).get(name) or self.local_types.get(name)
        try:
            if isinstance(val, ast.Constant) and val.value is None:
                # None: the local is an optional value; its type comes from local_types or is found by trial
                if not (isinstance(declared, tuple) and declared[0] == "opt"):
                    if name not in self.lit_guess:
                        raise _NeedLitGuess(name, tuple(("opt", c) for c in ("T", "nat", "Z", "bool") + tuple(self.tnames)))
                    declared = self.lit_guess[name]
                (c, t), pre = ("(@None %s)" % coq_type(declared[1]), declared), []
            elif isinstance(val, ast.Dict) and not val.keys:
                # an empty dictionary: its type is the declared one (local_types, or the declared result type)
                if not (isinstance(declared, tuple) and declared[0] == "dict"):
                    declared = self.val_type
                if not (isinstance(declared, tuple) and declared[0] == "dict"):
                    raise self.err("empty dictionary assigned to %r, whose type the spec does not declare" % name, s)
                (c, t), pre = ("[]", declared), []
            elif isinstance(val, ast.List) and not val.elts:
                # an empty list literal: its element type comes from the declaration (writes / local_types)
                # else it is typed by trial, like a bare integer literal: the first element type under which the
                # whole function is well typed (what is appended to it later decides)
                if not is_list(declared):
                    if name not in self.lit_guess:
                        raise _NeedLitGuess(name, tuple(("list", c) for c in ("T", "nat", "Z", "bool") + tuple(self.tnames)))
                    declared = self.lit_guess[name]
                (c, t), pre = ("[]", declared), []
            else:
                (c, t), pre = self.with_pre(lambda: self.expr(val, env, want if want in SCALARS else None))
        finally:
            self.alias_context = False
        if name in self.appended and not self.fresh_list_expr(val):
            raise self.err("%r is modified in place in this function but is bound here to a list that may be shared" % name, s)
        if name in self.local_types and not is_lit(t) and t != self.local_types[name] and ("opt", t) != self.local_types[name]:
            raise self.err("local %r has type %s, the spec declares %s" % (name, t, self.local_types[name]), s)
        if is_lit(t):
            # a bare integer literal: number, integer marker or index?  Python's int is exact in all three,
            # so the first typing (T, Z, nat in this order) under which the whole function is well typed is used
            if name not in self.lit_guess:
                raise _NeedLitGuess(name)
            c, t = self.coerce(c, t, self.lit_guess[name], s)
        if want is not None and want != t and want != ("opt", t) and t != ("opt", want):
            # (an optional local may be rebound to a value and back: the joins lift a value to an optional one)
            raise self.err("local %r changes its type from %s to %s" % (name, want, t), s)
        env2 = dict(env)
        env2[name] = t
        inner = "let %s := %s in\n%s" % (mangle(name), c, self.block(rest, env2, ctx, k))
        return self.wrap(pre, inner, ctx, env)

    def tuple_assign(self, s, tgt, val, rest, env, ctx, k):
        """a, b = e1, e2 (all right-hand sides are evaluated first) and q, r = divmod(x, y) on integers (floor
        division and modulus as Python defines them for a positive divisor; ZeroDivisionError for y = 0)"""
        if not all(isinstance(e, ast.Name) for e in tgt.elts) or len({e.id for e in tgt.elts}) != len(tgt.elts):
            raise self.err("tuple assignment to other than distinct local names", s)
        names = [e.id for e in tgt.elts]
        for nm in names:
            if nm in self.loop_idx_names or env.get(nm) in ("obj", "fixed") or nm == "self" or nm in self.appended:
                raise self.err("tuple assignment to %r (a loop index / object / list modified in place)" % nm, s)

        def build():
            if isinstance(val, (ast.Tuple, ast.List)) and len(val.elts) == len(names):
                out = []
                for nm, e in zip(names, val.elts):
                    want = env.get(nm)
                    c, t = self.expr(e, env, want if want in SCALARS else None)
                    if is_lit(t):
                        if nm not in self.lit_guess:
                            raise _NeedLitGuess(nm)
                        c, t = self.coerce(c, t, self.lit_guess[nm], s)
                    if want is not None and want != t:
                        raise self.err("local %r changes its type from %s to %s" % (nm, want, t), s)
                    if isinstance(e, (ast.Name, ast.Attribute, ast.Subscript)) and is_list(t):
                        raise self.err("tuple assignment of a list (an alias)", s)
                    out.append((c, t))
                return out
            if isinstance(val, ast.Call) and dotted(val.func) == "divmod" and "divmod" not in env and len(val.args) == 2 \
                    and not val.keywords and len(names) == 2 and "divmod" not in getattr(self, "shadowed_builtins", ()):
                a, ta = self.expr(val.args[0], env)
                b, tb = self.expr(val.args[1], env)
                a, b, t = self.unify(a, ta, b, tb, val)
                if t not in ("nat", "Z"):
                    raise self.err("divmod() on %s" % (t,), val)
                m = "Nat" if t == "nat" else "Z"
                if t == "Z":
                    # Python's floor division / modulus agree with Z.div / Z.modulo for every non-zero divisor
                    pass
                self.guard("(%s.eqb %s %s)" % (m, b, "0%nat" if t == "nat" else "0%Z"))
                for nm in names:
                    if env.get(nm) not in (None, t):
                        raise self.err("local %r changes its type from %s to %s" % (nm, env[nm], t), s)
                return [("(%s.div %s %s)" % (m, a, b), t), ("(%s.modulo %s %s)" % (m, a, b), t)]
            raise self.err("tuple assignment from other than a tuple of the same length / divmod()", s)
        vals, pre = self.with_pre(build)
        env2 = dict(env)
        for nm, (_, t) in zip(names, vals):
            env2[nm] = t
        inner = "let '(%s) := (%s) in\n%s" % (", ".join(mangle(nm) for nm in names), ", ".join(c for c, _ in vals),
                                               self.block(rest, env2, ctx, k))
        return self.wrap(pre, inner, ctx, env)

    def fresh_list_expr(self, v):
        """expressions that build a new list object"""
        if isinstance(v, ast.Call) and dotted(v.func) in self.fresh_oracles:
            return True
        if isinstance(v, (ast.List, ast.ListComp)) or (isinstance(v, ast.Dict) and not v.keys):
            return True
        if isinstance(v, ast.Call) and dotted(v.func) in ("list", "sorted") and len(v.args) == 1:
            return True
        if isinstance(v, ast.Call) and isinstance(v.func, ast.Attribute) and v.func.attr == "copy" and not v.args:
            return True
        if isinstance(v, ast.Subscript) and isinstance(v.slice, ast.Slice):
            return True
        return False

    def mutate(self, s, rest, env, ctx, k):
        """An in-place operation on a list this function may modify: a list built here (never shared) or an
        in-out parameter / attribute listed under `writes`.  The local standing for the list is rebound:
          xs.append(e)    xs ++ [e]          (the feasibility marker appended to a list of numbers gives a
                                              signed-cost vector (list, marker))
          xs.extend(ys)   xs ++ ys
          xs.remove(e)    without the first item that == e; ValueError if there is none
          del xs[i]       without position i; IndexError out of range
          xs[i] = e       position i replaced; IndexError out of range       (xs[i] op= e likewise)"""
        kind, tgt, args = mutation_of(s)
        key = attr_key(tgt)
        if key is None and isinstance(tgt, ast.Subscript) and attr_key(tgt.value) \
                and isinstance(env.get(attr_var(attr_key(tgt.value))), tuple) and env[attr_var(attr_key(tgt.value))][0] == "dict":
            return self.dict_entry_mutate(s, kind, tgt, args, rest, env, ctx, k)
        if key is None:
            raise self.err("in-place modification of a computed target", s)
        name = attr_var(key)
        if isinstance(env.get(name), tuple) and env[name][0] == "dict":
            return self.dict_mutate(s, kind, name, args, rest, env, ctx, k)
        if name not in env:
            raise self.err("%s of %s, which is not certainly bound here" % (kind, key), s)
        if name not in self.appended:
            raise AssertionError("mutated list not pre-scanned")
        if name in self.loop_targets:
            raise self.err("in-place modification of the loop variable %r" % name, s)
        t = env[name]
        if not is_list(t):
            raise self.err("%s on a value of type %s" % (kind, t), s)
        me = mangle(name)

        def build():
            if kind == "append":
                self.check_escape(args[0], s)
                c, ta = self.expr(args[0], env)
                if is_lit(ta):
                    c, ta = self.coerce(c, ta, t[1], args[0])
                if ta == t[1]:
                    return "(%s ++ [%s])" % (me, c), t
                if t == ("list", "T") and ta == "bool":
                    return "(%s, %s)" % (me, c), "costvecb"
                if t == ("list", "T") and ta == "Z":
                    return "(%s, %s)" % (me, c), "costvec"
                raise self.err("append of a %s to a list of %s" % (ta, t[1]), s)
            if kind == "reverse":
                return "(rev %s)" % me, t
            if kind == "extend":
                c, ta = self.expr(args[0], env)
                if ta != t:
                    raise self.err("extend of a %s by a %s" % (t, ta), s)
                return "(%s ++ %s)" % (me, c), t
            if kind == "remove":
                c, ta = self.expr(args[0], env, t[1])
                self.ghelpers.add("py_remove")
                return self.bind_partial("(py_remove %s %s %s)" % (self.eq_fn(t[1], s), c, me)), t
            if kind == "del":
                if isinstance(args[0], ast.Slice):
                    raise self.err("deletion of a slice", s)
                idx = self.index(args[0], env, me, s)
                self.ghelpers.add("py_del_nth")
                return self.bind_partial("(py_del_nth %s %s)" % (idx, me)), t
            if kind == "set":
                sl, val, op = args
                if isinstance(sl, ast.Slice):
                    raise self.err("assignment to a slice", s)
                if op is not None:
                    cur = ast.copy_location(ast.Subscript(value=tgt, slice=sl, ctx=ast.Load()), s)
                    val = ast.copy_location(ast.BinOp(left=cur, op=op, right=val), s)
                idx = self.index(sl, env, me, s)
                c, _ = self.expr(val, env, t[1])
                self.ghelpers.add("py_set_nth")
                return self.bind_partial("(py_set_nth %s %s %s)" % (idx, c, me)), t
            raise AssertionError(kind)
        (code, t2), pre = self.with_pre(build)
        env2 = dict(env)
        env2[name] = t2
        inner = "let %s := %s in\n%s" % (me, code, self.block(rest, env2, ctx, k))
        return self.wrap(pre, inner, ctx, env)

    def dict_mutate(self, s, kind, name, args, rest, env, ctx, k):
        """d[key] = value on a dictionary built in this function: the entry is replaced in place, or added at the end"""
        t = env[name]
        if kind != "set" or args[2] is not None:
            raise self.err("%s on a dictionary" % kind, s)
        if name in self.loop_targets:
            raise self.err("in-place modification of the loop variable %r" % name, s)

        def build():
            kc, _ = self.expr(args[0], env, t[1])
            if isinstance(args[1], ast.List) and not args[1].elts and is_list(t[2]):
                vc = "[]"
            else:
                if is_list(t[2]) and not self.fresh_list_expr(args[1]):
                    raise self.err("a list that may be shared is stored in a dictionary", s)
                vc, vt = self.expr(args[1], env, t[2] if t[2] in SCALARS else None)
                if vt != t[2]:
                    raise self.err("value of type %s stored in a dictionary of %s" % (vt, t[2]), s)
            self.ghelpers.add("py_dict")
            return "(py_dict_set %s %s %s %s)" % (self.eq_fn(t[1], s), kc, vc, mangle(name))
        code, pre = self.with_pre(build)
        inner = "let %s := %s in\n%s" % (mangle(name), code, self.block(rest, dict(env), ctx, k))
        return self.wrap(pre, inner, ctx, env)

    def dict_entry_mutate(self, s, kind, tgt, args, rest, env, ctx, k):
        """d[key].append(x) on a dictionary of lists built in this function (KeyError when the key is missing)"""
        name = attr_var(attr_key(tgt.value))
        t = env[name]
        if kind != "append" or not is_list(t[2]):
            raise self.err("%s on an entry of a dictionary" % kind, s)
        if name in self.loop_targets:
            raise self.err("in-place modification of the loop variable %r" % name, s)

        def build():
            sl = tgt.slice.value if isinstance(tgt.slice, ast.Index) else tgt.slice
            kc, _ = self.expr(sl, env, t[1])
            self.check_escape(args[0], s)
            xc, xt = self.expr(args[0], env, t[2][1] if t[2][1] in SCALARS else None)
            if xt != t[2][1]:
                raise self.err("append of a %s to a list of %s" % (xt, t[2][1]), s)
            self.ghelpers.add("py_dict")
            return self.bind_partial("(py_dict_upd %s %s (fun py_old => py_old ++ [%s]) %s)" % (self.eq_fn(t[1], s), kc, xc, mangle(name)))
        code, pre = self.with_pre(build)
        inner = "let %s := %s in\n%s" % (mangle(name), code, self.block(rest, dict(env), ctx, k))
        return self.wrap(pre, inner, ctx, env)

    def lift(self, rest, env, ctx, k):
        """turn `rest; k` into a separate definition and return a continuation that calls it"""
        if not rest:
            return k
        body = self.block(rest, env, ctx, k)
        self.ncont += 1
        name = "%s_k%d" % (self.base, self.ncont)
        toks = tokens(body)
        params = [v for v in env if env[v] not in ("obj", "fixed") and mangle(v) in toks]
        self.defs.append("Definition %s %s : %s :=\n%s." % (
            name, " ".join("(%s : %s)" % (mangle(v), coq_type(env[v])) for v in params), ctx.result_type(),
            textwrap.indent(body, "  ")))
        return lambda e, name=name, params=params: "(%s)" % " ".join([name] + [mangle(v) for v in params]) \
            if params else name

    def attr_of(self, v):
        for a, _ in self.attrs:
            if attr_var(a) == v:
                return a
        return None

    @staticmethod
    def in_loop_state(loop, v):
        return v == loop.idx or any(v == c for c, _ in loop.carried)

    def none_test(self, test, env):
        """`x is None` / `x is not None` on a local of an optional type -> (x, True | False), else None"""
        if isinstance(test, ast.Compare) and len(test.ops) == 1 and isinstance(test.ops[0], (ast.Is, ast.IsNot)) \
                and isinstance(test.left, ast.Name) and isinstance(test.comparators[0], ast.Constant) \
                and test.comparators[0].value is None and isinstance(env.get(test.left.id), tuple) \
                and env[test.left.id][0] == "opt" and test.left.id not in self.fixed:
            return test.left.id, isinstance(test.ops[0], ast.Is)
        return None

    @staticmethod
    def render_if(cond, a, b):
        if cond[0] == "bool":
            return "if %s then\n%s\nelse\n%s" % (cond[1], textwrap.indent(a, "  "), textwrap.indent(b, "  "))
        none_code, some_code = (a, b) if cond[2] else (b, a)
        return "match %s with\n| None =>\n%s\n| Some %s =>\n%s\nend" % (
            cond[1], textwrap.indent(none_code, "  "), cond[1], textwrap.indent(some_code, "  "))

    def if_(self, s, rest, env, ctx, k):
        nt = self.none_test(s.test, env)
        if nt:
            # `if x is None:` on an optional local: a match; in the other branch x is the value itself
            if rest and exits(s.body) + exits(s.orelse) == 0:
                raise self.err("unreachable statement after an if whose branches all return", rest[0])
            name, is_none = nt
            env_some = dict(env)
            env_some[name] = env[name][1]
            cond = ("none", mangle(name), is_none)
            env_a, env_b = (env, env_some) if is_none else (env_some, env)
            return self.if_general(s, cond, [], rest, env, env_a, env_b, ctx, k)
        try:
            (c, _), pre = self.with_pre(lambda: self.expr(s.test, env, "bool"))
        except Unsupported as e:
            # `if a and b:` with an operation in b that can raise: b is evaluated only when a holds, which
            # is exactly `if a: (if b: BODY else: ELSE) else: ELSE`
            if getattr(e, "cond_partial", False) and isinstance(s.test, ast.BoolOp) and isinstance(s.test.op, ast.And):
                first, others = s.test.values[0], s.test.values[1:]
                inner_test = others[0] if len(others) == 1 else ast.copy_location(ast.BoolOp(op=ast.And(), values=others), s.test)
                inner = ast.copy_location(ast.If(test=inner_test, body=s.body, orelse=s.orelse), s)
                outer = ast.copy_location(ast.If(test=first, body=[inner], orelse=s.orelse), s)
                return self.if_(outer, rest, env, ctx, k)
            raise
        if c in ("true", "false") and not pre and not isinstance(s.test, ast.Constant):
            # decided by the spec's fixed parameters: only the live branch is translated
            live = s.body if c == "true" else s.orelse
            return self.block(list(live) + list(rest), env, ctx, k)
        if rest and exits(s.body) + exits(s.orelse) == 0:
            raise self.err("unreachable statement after an if whose branches all return", rest[0])
        return self.if_general(s, ("bool", c), pre, rest, env, env, env, ctx, k)

    def if_general(self, s, cond, pre, rest, env, env_a, env_b, ctx, k):
        if self.simple(s.body) and self.simple(s.orelse) and rest:
            # join through the tuple of the locals assigned in the branches; a branch with an
            # operation that can raise falls back to the general scheme below
            try:
                return self.wrap(pre, self.if_join(s, cond, rest, env, env_a, env_b, ctx, k), ctx, env)
            except _NoJoin:
                pass
        if exits(s.body) + exits(s.orelse) > 1 and rest:
            # more than one path reaches the rest: the rest becomes a definition of its own; locals
            # bound in only one branch are not certainly bound afterwards
            # ... unless every path that falls through assigns them.  A dry run finds the type of every local at the
            # end of every path that falls through; a local that is a value on some paths and optional on others
            # is optional afterwards (the value is wrapped in Some where it is passed on)
            env_k = dict(env)
            new = [v for v in assigned_names([s]) if v not in env and self.always_assigns([s], v)]
            cand = [v for v in env if env[v] not in ("obj", "fixed")] + new
            saved = (list(self.defs), self.nloop, self.ncont, self.nfresh)
            seen = {}

            def probe(e):
                for v in cand:
                    if v in e and e[v] not in seen.setdefault(v, []):
                        seen[v].append(e[v])
                return "tt"
            try:
                self.with_pre(lambda: (self.block(s.body, env_a, ctx, probe), self.block(s.orelse, env_b, ctx, probe)))
            finally:
                self.defs, self.nloop, self.ncont, self.nfresh = saved
            for v in cand:
                ts = seen.get(v, [])
                if len(ts) == 1:
                    env_k[v] = ts[0]
                elif len(ts) == 2 and (("opt", ts[0]) == ts[1] or ("opt", ts[1]) == ts[0]):
                    env_k[v] = ts[0] if ts[0] == ("opt", ts[1]) else ts[1]
                elif ts:
                    raise self.err("local %r has different types on different paths: %s" % (v, ts), s)
            both = [v for v in env_k]
            k2 = self.lift(rest, env_k, ctx, k)

            def k3(e, k2=k2):
                e2 = {}
                for v in both:
                    if e[v] != env_k[v]:
                        e2[v] = ("wrap", v)
                # the lifted continuation is called with (Some v) for the locals that are optional after the join
                code = k2({v: e[v] for v in both})
                for v in e2:
                    code = re.sub(r"(?<![\w'])%s(?![\w'])" % re.escape(mangle(v)), "(Some %s)" % mangle(v), code)
                return code
            a = self.block(s.body, env_a, ctx, k3)
            b = self.block(s.orelse, env_b, ctx, k3)
        else:
            kk = (lambda e: self.block(rest, {v: e[v] for v in e if v in env or exits(s.body) + exits(s.orelse) == 1},
                                       ctx, k)) if rest else k
            a = self.block(s.body, env_a, ctx, kk)
            b = self.block(s.orelse, env_b, ctx, kk)
        return self.wrap(pre, self.render_if(cond, a, b), ctx, env)

    def if_join(self, s, cond, rest, env, env_a, env_b, ctx, k):
        names = [v for v in assigned_names([s]) if v in env]
        for v in assigned_names([s]):
            if v not in env:
                # bound in a branch only: certainly bound afterwards only if bound in both branches
                if v in assigned_names(s.body) and v in assigned_names(s.orelse) and self.always_assigns(s.body, v) \
                        and self.always_assigns(s.orelse, v):
                    names.append(v)
        if self.events and "evlog" not in names and any(
                isinstance(nd, ast.Call) and dotted(nd.func) in self.events for nd in ast.walk(s)):
            names.append("evlog")
        if cond[0] == "none":
            # the tested optional local: its refinement in the `Some` branch ends at the join
            nm = [v for v in env if mangle(v) == cond[1] and v in env_a and v in env_b and env_a[v] != env_b[v]]
            names += [v for v in nm if v not in names]
        if not names:
            if cond[0] == "none":
                raise _NoJoin()
            return self.block(rest, env, ctx, k)
        # first pass (dry): the type of every joined local at the end of every path; a local that is a value
        # on some paths and an optional value (or None) on others is optional after the join
        seen = {v: [] for v in names}
        saved = (list(self.defs), self.nloop, self.ncont, self.nfresh)

        def collect(e):
            for v in names:
                if e[v] not in seen[v]:
                    seen[v].append(e[v])
            return "tt"
        try:
            self.block(s.body, env_a, _JoinCtx(self), collect)
            self.block(s.orelse, env_b, _JoinCtx(self), collect)
        finally:
            self.defs, self.nloop, self.ncont, self.nfresh = saved
        types = {}
        for v in names:
            ts = seen[v]
            if len(ts) == 1:
                types[v] = ts[0]
            elif len(ts) == 2 and (("opt", ts[0]) == ts[1] or ("opt", ts[1]) == ts[0]):
                types[v] = ts[0] if ts[0] == ("opt", ts[1]) else ts[1]
            else:
                raise self.err("local %r has different types on different paths: %s" % (v, ts), s)

        def fin(e):
            vals = [mangle(v) if e[v] == types[v] else "(Some %s)" % mangle(v) for v in names]
            return "(%s)" % ", ".join(vals) if len(vals) != 1 else vals[0]
        a = self.block(s.body, env_a, _JoinCtx(self), fin)
        b = self.block(s.orelse, env_b, _JoinCtx(self), fin)
        env2 = dict(env)
        for v in names:
            env2[v] = types[v]
        pat = "'(%s)" % ", ".join(mangle(v) for v in names) if len(names) != 1 else mangle(names[0])
        return "let %s :=\n%s in\n%s" % (pat, textwrap.indent(self.render_if(cond, a, b), "  "), self.block(rest, env2, ctx, k))

    def always_assigns(self, stmts, v):
        """every path that falls out of the end of stmts has assigned v"""
        for s in stmts:
            if isinstance(s, (ast.Assign, ast.AugAssign)) and v in assigned_names([s]) and not mutation_of(s):
                return True
            if isinstance(s, ast.If) and exits(s.body) + exits(s.orelse) > 0 \
                    and (exits(s.body) == 0 or self.always_assigns(s.body, v)) \
                    and (exits(s.orelse) == 0 or self.always_assigns(s.orelse, v)):
                return True
        return False

    def iter_spec(self, it, target, env, body_assigned=()):
        """-> (list code, element type, pattern code, {name: type} bound by the target, idx name or None,
               safe-index triple or None)"""
        def names_of(t, ty):
            if isinstance(t, ast.Name):
                return mangle(t.id), {t.id: ty}
            if isinstance(t, (ast.Tuple, ast.List)) and isinstance(ty, tuple) and ty[0] == "prod" and len(t.elts) == 2:
                a, ba = names_of(t.elts[0], ty[1])
                b, bb = names_of(t.elts[1], ty[2])
                if set(ba) & set(bb):
                    raise self.err("a name bound twice in a loop target", t)
                ba.update(bb)
                return "(%s, %s)" % (a, b), ba
            raise self.err("loop target does not match the shape of the iterated values", t)

        def range_len(e):
            """range(len(xs)) -> node of xs, else None"""
            if isinstance(e, ast.Call) and dotted(e.func) == "range" and "range" not in env and len(e.args) == 1 \
                    and not e.keywords and isinstance(e.args[0], ast.Call) and dotted(e.args[0].func) == "len" \
                    and "len" not in env and len(e.args[0].args) == 1 and not e.args[0].keywords:
                return e.args[0].args[0]
            return None

        def listy(e):
            if range_len(e) is not None:
                # range(len(xs)) as an operand of zip: the positions 0 .. len(xs)-1, computed at loop entry
                lst, t = self.expr(range_len(e), env)
                if not is_list(t):
                    raise self.err("len() of a value of type %s" % (t,), e)
                return "(seq 0 (length %s))" % lst, "nat"
            if isinstance(e, ast.Call) and dotted(e.func) == "zip" and "zip" not in env:
                if len(e.args) != 2 or e.keywords:
                    raise self.err("zip() with other than two arguments", e)
                a, ta = listy(e.args[0])
                b, tb = listy(e.args[1])
                return "(combine %s %s)" % (a, b), ("prod", ta, tb)
            c, t = self.expr(e, env)
            if not (isinstance(t, tuple) and t[0] == "list"):
                raise self.err("iteration over a value of type %s" % (t,), e)
            return c, t[1]

        if isinstance(it, ast.Call) and dotted(it.func) == "enumerate" and "enumerate" not in env:
            if len(it.args) != 1 or it.keywords:
                raise self.err("enumerate() with a start value / keyword", it)
            if not (isinstance(target, (ast.Tuple, ast.List)) and len(target.elts) == 2
                    and isinstance(target.elts[0], ast.Name)):
                raise self.err("target of enumerate() must be `i, x`", target)
            lst, et = listy(it.args[0])
            pat, bound = names_of(target.elts[1], et)
            idx = target.elts[0].id
            if idx in bound:
                raise self.err("a name bound twice in a loop target", target)
            return lst, et, pat, bound, idx, None
        if isinstance(it, ast.Call) and dotted(it.func) == "range" and "range" not in env:
            if len(it.args) != 1 or it.keywords or not isinstance(target, ast.Name):
                raise self.err("range() with other than one argument", it)
            a = it.args[0]
            if isinstance(a, ast.Call) and dotted(a.func) == "len" and len(a.args) == 1 and "len" not in env:
                lst, t = self.expr(a.args[0], env)
                if not (isinstance(t, tuple) and t[0] == "list"):
                    raise self.err("len() of a value of type %s" % (t,), a)
                k_ = attr_key(a.args[0]) if isinstance(a.args[0], (ast.Name, ast.Attribute, ast.Subscript)) else None
                if k_ is None or attr_var(k_) in body_assigned:
                    # the body rebinds / modifies xs: the loop runs over the positions computed at entry and
                    # xs[i] is an ordinary (checked) read of the current list
                    return "(seq 0 (length %s))" % lst, "nat", mangle(target.id), {target.id: "nat"}, None, None
                ev = self.fresh()
                return lst, t[1], ev, {}, target.id, (ast.dump(a.args[0]), target.id, ev)
            c, _ = self.expr(a, env, "nat")
            return "(seq 0 %s)" % c, "nat", mangle(target.id), {target.id: "nat"}, None, None
        if isinstance(it, ast.List) and it.elts and isinstance(target, ast.Name) and all(
                isinstance(e, ast.Constant) and isinstance(e.value, (int, float)) and not isinstance(e.value, bool)
                or (isinstance(e, ast.UnaryOp) and isinstance(e.op, ast.USub) and isinstance(e.operand, ast.Constant)
                    and isinstance(e.operand.value, (int, float)) and not isinstance(e.operand.value, bool)) for e in it.elts):
            # a literal list of bare numbers: the loop variable is typed by trial, like a literal assigned to a local
            if target.id not in self.lit_guess:
                raise _NeedLitGuess(target.id)
            g = self.lit_guess[target.id]
            cs = [self.expr(e, env, g)[0] for e in it.elts]
            return "[%s]" % "; ".join(cs), g, mangle(target.id), {target.id: g}, None, None
        lst, et = listy(it)
        pat, bound = names_of(target, et)
        return lst, et, pat, bound, None, None

    def while_(self, s, rest, env, ctx, k):
        """`while test: body` as a structural recursion on a fuel parameter of the function (`fuel`, its last
        parameter): every iteration uses one unit; running out of fuel is not a value (None, like an exception), so a
        theorem about the generated definition holds for every fuel that is enough.  The locals assigned in the
        body are the arguments of the recursion; `continue` is the recursive call, `break` the code after the loop,
        `return` returns (the enclosing for loop's state, if any, as usual)."""
        if s.orelse:
            raise self.err("while ... else", s)
        if not self.partial:
            raise _NeedPartial()
        if "fuel" not in env or env["fuel"] != "nat" or not self.has_while:
            raise self.err("while loop, but no fuel parameter (internal)", s)
        body_assigned = assigned_names(s.body)
        if "fuel" in body_assigned:
            raise self.err("assignment to the name `fuel` (reserved for the fuel of while loops)", s)
        occ = {}
        for nd in sorted((nd for st_ in s.body for nd in ast.walk(st_) if isinstance(nd, (ast.Name, ast.Attribute, ast.Subscript))),
                         key=lambda nd: (nd.lineno, nd.col_offset, 0 if isinstance(nd, ast.Name) else 1)):
            if isinstance(nd, ast.Name):
                occ.setdefault(nd.id, len(occ))
            elif attr_key(nd) and "." in attr_key(nd):
                occ.setdefault(attr_var(attr_key(nd)), len(occ))
        carried = sorted([(v, env[v]) for v in env if v in body_assigned], key=lambda vt: occ[vt[0]])
        for v, t in carried:
            if t in ("obj", "fixed"):
                raise self.err("assignment to the object parameter %r" % v, s)
        self.nloop += 1
        kk = self.nloop
        loop_name, after_name = "%s_w%d_loop" % (self.base, kk), "%s_w%d_after" % (self.base, kk)
        cvars = [mangle(v) for v, _ in carried]
        # what follows the loop: a definition of the carried locals (and of the other locals it reads)
        after = self.block(rest, dict(env), ctx, k)
        toks = tokens(after)
        aparams = [v for v in env if env[v] not in ("obj", "fixed") and v not in body_assigned and mangle(v) in toks]
        self.defs.append("(* while loop %d of %s (line %d): the recursion carries %s *)\nDefinition %s %s : %s :=\n%s." % (
            kk, self.qual, s.lineno, ", ".join(v for v, _ in carried) or "nothing", after_name,
            " ".join("(%s : %s)" % (mangle(v), coq_type(env[v])) for v in aparams + [c for c, _ in carried]),
            ctx.result_type(), textwrap.indent(after, "  ")))

        def after_call(e):
            for v, t in carried:
                if e.get(v) != t:
                    raise self.err("local %r changes its type in a while loop" % v, s)
            return "(%s)" % " ".join([after_name] + [mangle(v) for v in aparams] + cvars)

        def rec_call(e):
            for v, t in carried:
                if e.get(v) != t:
                    raise self.err("local %r changes its type in a while loop" % v, s)
            return "(%s)" % " ".join([loop_name] + ["@PARAMS@", "fuel'"] + cvars)
        wctx = Ctx(self, ctx.loop, (rec_call, after_call))
        saved_targets = self.loop_targets
        self.loop_targets = self.loop_targets | {"<while>"}         # impure oracles are not allowed inside
        self.loop_stack.append(s.body)
        try:
            (c, _), pre = self.with_pre(lambda: self.expr(s.test, env, "bool"))
            body = self.block(s.body, env, wctx, rec_call)
        finally:
            self.loop_stack.pop()
            self.loop_targets = saved_targets
        step = self.wrap(pre, "if %s then\n%s\nelse\n  %s" % (c, textwrap.indent(body, "  "), after_call(env)), ctx, env)
        toks = tokens(step)
        lparams = [v for v in env if env[v] not in ("obj", "fixed") and v not in body_assigned and v != "fuel" and mangle(v) in toks]
        step = step.replace("@PARAMS@", " ".join(mangle(v) for v in lparams))
        self.defs.append("Fixpoint %s %s (fuel : nat) %s {struct fuel} : %s :=\n  match fuel with\n  | O => %s\n  | S fuel' =>\n%s\n  end." % (
            loop_name, " ".join("(%s : %s)" % (mangle(v), coq_type(env[v])) for v in lparams),
            " ".join("(%s : %s)" % (mangle(v), coq_type(t)) for v, t in carried), ctx.result_type(),
            ctx.raise_(env), textwrap.indent(step, "    ")))
        return "(%s)" % " ".join([loop_name] + [mangle(v) for v in lparams] + ["fuel"] + cvars)

    def for_(self, s, rest, env, ctx, k):
        if s.orelse:
            raise self.err("for ... else", s)
        for nd in ast.walk(s.iter):
            if isinstance(nd, ast.Call) and dotted(nd.func) in getattr(self, "shadowed_builtins", ()):
                raise self.err("the module rebinds the builtin %r" % dotted(nd.func), nd)
        # the iterated list must not be rebound / appended to by the body (the fold runs over its value at entry)
        iter_names = set()
        # a list that only occurs as range(len(xs)) is read once, at loop entry (its length): the body may modify it
        len_only = set()
        for nd in ast.walk(s.iter):
            if isinstance(nd, ast.Call) and dotted(nd.func) == "range" and len(nd.args) == 1 and isinstance(nd.args[0], ast.Call) \
                    and dotted(nd.args[0].func) == "len" and len(nd.args[0].args) == 1:
                for m in ast.walk(nd.args[0].args[0]):
                    len_only.add(id(m))
            # ... and so is a snapshot list(xs) / xs.copy(): the loop runs over the copy made at entry
            if isinstance(nd, ast.Call) and dotted(nd.func) == "list" and len(nd.args) == 1 and not nd.keywords \
                    and "list" not in env and "list" not in getattr(self, "shadowed_builtins", ()):
                for m in ast.walk(nd.args[0]):
                    len_only.add(id(m))
            if isinstance(nd, ast.Call) and isinstance(nd.func, ast.Attribute) and nd.func.attr == "copy" and not nd.args:
                for m in ast.walk(nd.func.value):
                    len_only.add(id(m))
        for nd in ast.walk(s.iter):
            if id(nd) in len_only:
                continue
            if isinstance(nd, ast.Name):
                iter_names.add(nd.id)
            k_ = attr_key(nd) if isinstance(nd, (ast.Attribute, ast.Subscript)) else None
            if k_ and "." in k_:
                iter_names.add(attr_var(k_))
        clash = iter_names & set(assigned_names(s.body))
        if clash:
            raise self.err("the loop body assigns / appends to %s, which the loop iterates over" % sorted(clash), s)

        def own_break(stmts):
            for st_ in stmts:
                if isinstance(st_, ast.Break):
                    return True
                if isinstance(st_, ast.If) and (own_break(st_.body) or own_break(st_.orelse)):
                    return True
                if isinstance(st_, (ast.With, ast.Try)) and has_node([st_], (ast.Break,)):
                    raise self.err("break under with / try", st_)
            return False
        has_brk = own_break(s.body)
        (lst, et, pat, bound, idx, safe), pre = self.with_pre(
            lambda: self.iter_spec(s.iter, s.target, env, set(assigned_names(s.body))))
        for v in list(bound) + ([idx] if idx else []):
            if v in env:
                raise self.err("loop variable %r re-uses a name that is already bound" % v, s)
        body_assigned = assigned_names(s.body) + [v for v in self.hidden_assigned(s.body) if v in env]
        # loop-carried locals = bound before the loop and assigned in its body; their order in the state
        # record is the order of their first occurrence in the body (source order), so that neither a
        # renaming nor a reordering of the initialisations before the loop changes the generated text
        occ = {}
        for nd in sorted((nd for st_ in s.body for nd in ast.walk(st_) if isinstance(nd, (ast.Name, ast.Attribute, ast.Subscript))),
                         key=lambda nd: (nd.lineno, nd.col_offset, 0 if isinstance(nd, ast.Name) else 1)):
            if isinstance(nd, ast.Name):
                occ.setdefault(nd.id, len(occ))
            elif attr_key(nd) and "." in attr_key(nd):
                occ.setdefault(attr_var(attr_key(nd)), len(occ))
        carried = sorted([(v, env[v]) for v in env if v in body_assigned], key=lambda vt: occ.get(vt[0], len(occ)))
        for v, t in carried:
            if t == "obj":
                raise self.err("assignment to the object parameter %r" % v, s)
        self.nloop += 1
        loop = Loop(self, self.nloop, carried, idx, has_brk)
        rt = coq_type(self.ret_type)
        ret_t = "(option (option %s))" % rt if self.partial else "(option %s)" % rt
        fields = ["%s : %s" % (loop.proj(f), coq_type(t)) for f, t in loop.fields] \
            + (["%s : bool" % loop.proj("brk")] if has_brk else []) + ["%s : %s" % (loop.proj("ret"), ret_t)]
        comment = "(* loop %d of %s (line %d): %s *)" % (
            loop.k, self.qual, s.lineno,
            ", ".join(["%s = %s" % (f, v) for (f, _), v in zip(loop.fields, ([idx] if idx else []) + [c for c, _ in carried])]) or "no loop-carried locals")
        self.defs.append("%s\nRecord %s := { %s }." % (comment, loop.st_name, "; ".join(fields)))
        # body
        env_b = dict(env)
        if idx:
            env_b[idx] = "nat"
        env_b.update(bound)
        saved_targets, saved_safe = self.loop_targets, self.safe_index
        self.loop_targets = self.loop_targets | set(bound) | ({idx} if idx else set())
        saved_idx = self.loop_idx_names
        self.loop_idx_names = self.loop_idx_names | ({idx} if idx else set())
        self.safe_index = self.safe_index + ([safe] if safe else [])
        bctx = Ctx(self, loop)
        self.loop_stack.append(s.body)
        try:
            body = self.block(s.body, env_b, bctx, lambda e: loop.state(e, "None", bump=True))
        finally:
            self.loop_stack.pop()
        if has_brk:
            body = "if %s st then st else\n%s" % (loop.proj("brk"), body)
        self.loop_targets, self.safe_index = saved_targets, saved_safe
        self.loop_idx_names = saved_idx
        toks = tokens(body)
        params = [v for v in env if env[v] not in ("obj", "fixed") and v not in body_assigned and mangle(v) in toks]
        unpack = "".join("let %s := %s st in\n" % (mangle(v), loop.proj(f))
                         for (f, _), v in zip(loop.fields, ([idx] if idx else []) + [c for c, _ in carried]))
        if pat != "x":
            unpack += "let '%s := x in\n" % pat if pat.startswith("(") else "let %s := x in\n" % pat
        et_c = coq_type(et)
        self.defs.append("Definition %s %s (st : %s) (x : %s) : %s :=\n  match %s st with\n  | Some _ => st\n  | None =>\n%s\n  end." % (
            loop.body_name, " ".join("(%s : %s)" % (mangle(v), coq_type(env[v])) for v in params), loop.st_name, et_c,
            loop.st_name, loop.proj("ret"), textwrap.indent(unpack + body, "    ")))
        # the loop with its continuation: a definition parameterised by the iterated list, the start
        # index and the initial values of the loop-carried locals (so that a proof can generalise them)
        st = "st_%d" % loop.k
        cnames = [mangle(v) for v, _ in carried]
        init = "(Build_%s %s)" % (loop.st_name, " ".join((["i0"] if idx else []) + cnames + (["false"] if has_brk else []) + ["None"]))
        body_app = "(%s)" % " ".join([loop.body_name] + [mangle(v) for v in params]) if params else loop.body_name
        repack = "".join("let %s := %s %s in\n" % (mangle(v), loop.proj("v%d" % (i + 1)), st) for i, (v, _) in enumerate(carried))
        after = self.block(rest, dict(env), ctx, k)
        # the carried locals are read back from the final state before the match: a `return` inside the
        # loop may propagate into an enclosing loop's state, which is built from the current locals
        after_body = "%smatch %s %s with\n| Some r => %s\n| None =>\n%s\nend" % (
            repack, loop.proj("ret"), st, ctx.ret_opt("r", env), textwrap.indent(after, "  "))
        toks = tokens(after_body)
        aparams = [v for v in env if env[v] not in ("obj", "fixed") and v not in body_assigned and mangle(v) in toks]
        after_name = "%s_l%d_after" % (self.base, loop.k)
        self.defs.append("Definition %s %s : %s :=\n%s." % (
            after_name, " ".join(["(%s : %s)" % (mangle(v), coq_type(env[v])) for v in aparams] + ["(%s : %s)" % (st, loop.st_name)]),
            ctx.result_type(), textwrap.indent(after_body, "  ")))
        rparams = [v for v in env if v in aparams or v in params]
        run_name = "%s_l%d_run" % (self.base, loop.k)
        binders = ["(%s : %s)" % (mangle(v), coq_type(env[v])) for v in rparams] + ["(l : (list %s))" % et_c] \
            + (["(i0 : nat)"] if idx else []) + ["(%s : %s)" % (mangle(v), coq_type(t)) for v, t in carried]
        self.defs.append("Definition %s %s : %s :=\n  %s (fold_left %s l %s)." % (
            run_name, " ".join(binders), ctx.result_type(),
            " ".join([after_name] + [mangle(v) for v in aparams]), body_app, init))
        code = "(%s)" % " ".join([run_name] + [mangle(v) for v in rparams] + [lst] + (["0%nat"] if idx else []) + cnames)
        return self.wrap(pre, code, ctx, env)

    # -- the function -------------------------------------------------------------------------
    def param_list(self):
        """[(python name, type, 'param'|'attr')] in the order of the generated definition"""
        out = []
        a = self.node.args
        if a.vararg or a.kwarg or a.kwonlyargs or getattr(a, "posonlyargs", []):
            raise self.err("*args / **kwargs / keyword-only parameters", self.node)
        names = [x.arg for x in a.args]
        decos = [dotted(d) for d in self.node.decorator_list]
        for d in decos:
            if d not in ("staticmethod", "classmethod"):
                raise self.err("decorator %s" % (d or "<expression>"), self.node)
        if self.cls and "staticmethod" not in decos:
            self.self_name = names[0]
            names = names[1:]
        else:
            self.self_name = None
        ptypes = self.spec.get("params", {})
        for nme in names:
            if nme in self.fixed and isinstance(self.fixed[nme], dict) and "str" in self.fixed[nme]:
                out.append((nme, "fixed", "fixed"))
                continue
            if nme in self.flags and nme not in ptypes:
                out.append((nme, "fixed", "fixed"))       # only its truth value is used (a flag of the spec)
                continue
            if nme not in ptypes:
                raise self.err("parameter %r has no type in the spec" % nme, self.node)
            t = self.ptype(ptypes[nme])
            out.append((nme, t, "param"))
        for extra in ptypes:
            if extra not in names:
                raise self.err("the spec types a parameter %r that the function does not have" % extra, self.node)
        for attr, t in self.attrs:
            out.append((attr_var(attr), t, "attr"))
        for txt, var in self.flags.items():
            out.append((var, "bool", "flag"))
        return out

    def translate(self, guesses=None):
        self.lit_guess = dict(guesses or {})
        try:
            return self._translate_modes()
        except _NeedLitGuess as g:
            errs = []
            for t in g.cands:
                try:
                    return self.translate({**(guesses or {}), g.name: t})
                except Unsupported as e:
                    errs.append(e)
            # report the attempt that got furthest in the source (the most informative of the failed typings)
            raise max(errs, key=lambda e: (e.line or 0))

    def _translate_modes(self):
        for partial in (False, True):
            self.partial = partial
            self.reset()
            try:
                return self._translate()
            except _NeedPartial:
                if partial:
                    raise
        raise AssertionError

    def _translate(self):
        self.loop_targets, self.safe_index, self.shadowed_attrs = set(), [], set()
        self.loop_idx_names = set()
        plist = self.param_list()
        env = {}
        if self.self_name:
            env[self.self_name] = "obj"
        for nme, t, kind in plist:
            if nme in env:
                raise self.err("parameter / attribute name clash on %r" % nme, self.node)
            env[nme] = t
        self.has_while = has_node(self.node.body, (ast.While,))
        if self.has_while:
            if "fuel" in env:
                raise self.err("a function with a while loop has a parameter / attribute named fuel", self.node)
            env["fuel"] = "nat"
            plist = plist + [("fuel", "nat", "fuel")]
        if has_node(self.node.body, (ast.FunctionDef, ast.AsyncFunctionDef, ast.ClassDef, ast.Global,
                                     ast.Nonlocal, ast.Yield, ast.YieldFrom, ast.Await)):
            raise self.err("nested function / global / yield", self.node)
        self.alias_context = False
        self.loop_stack = []
        self.ghelpers = set()
        write_vars = {attr_var(a): t for a, t in self.writes}
        # statements the spec designates as not translated: each must occur exactly as often as declared
        for txt, cnt in self.skip.items():
            found = sum(1 for st_ in ast.walk(self.node) if isinstance(st_, (ast.Expr, ast.Assign, ast.AugAssign, ast.Delete))
                        and ast.unparse(st_) == txt)
            if found != cnt:
                raise self.err("the skipped statement `%s` occurs %d times (the spec says %d)" % (txt, found, cnt), self.node)
        self.skipped = dict(self.skip)
        # lists that are modified in place (append / extend / remove / del / item assignment) must be built in
        # this function by every assignment to them, or be an in-out parameter / attribute listed under `writes`
        self.appended, self.append_lines, self.write_lines = set(), {}, {}
        for st_ in ast.walk(self.node):
            a = mutation_of(st_) if isinstance(st_, ast.stmt) else None
            if isinstance(st_, (ast.Assign, ast.AugAssign)) and not ast.unparse(st_) in self.skip:
                for tg in (st_.targets if isinstance(st_, ast.Assign) else [st_.target]):
                    if isinstance(tg, (ast.Attribute, ast.Subscript)) and attr_key(tg):
                        self.write_lines.setdefault(attr_var(attr_key(tg)), []).append(st_.lineno)
            if a and not ast.unparse(st_) in self.skip:
                if attr_key(a[1]):
                    self.write_lines.setdefault(attr_var(attr_key(a[1])), []).append(st_.lineno)
                key = attr_key(a[1])
                if key is None and isinstance(a[1], ast.Subscript) and attr_key(a[1].value):
                    key = attr_key(a[1].value)          # d[k].append(x): an entry of the dictionary d
                if key is None:
                    raise self.err("in-place modification of a computed target", st_)
                self.appended.add(attr_var(key))
                self.append_lines.setdefault(attr_var(key), []).append(st_.lineno)
        for nme, _, _ in plist:
            if nme in self.appended and nme not in write_vars:
                raise self.err("in-place modification of the parameter / attribute %r (a list the caller shares; "
                               "not listed under `writes`)" % nme, self.node)
        # call sites of the pick functions, numbered in source order
        self.all_sample_sites = sorted((nd.lineno, nd.col_offset) for nd in ast.walk(self.node)
                                       if isinstance(nd, ast.Call) and dotted(nd.func) in self.samples)
        self.all_pick_sites = sorted((nd.lineno, nd.col_offset) for nd in ast.walk(self.node)
                                     if isinstance(nd, ast.Call) and dotted(nd.func) in self.picks)
        # writes: `self.x` (an attribute, in-out when it is also listed under attrs), a parameter name (in-out),
        # `p.field` of a record-typed parameter p (in-out when the record declares the field: it starts as the
        # accessor's value)
        prelude = []
        for a, t in self.writes:
            base = a.split(".")[0].split("[")[0]
            v = attr_var(a)
            if base == a:
                if env.get(a) != t:
                    raise self.err("writes lists %r, which is not a parameter of type %s" % (a, t), self.node)
            elif env.get(base) == "obj":
                pass
            elif env.get(base) in self.records:
                if v in env:
                    raise self.err("name clash on %r" % v, self.node)
                fld = a[len(base):].lstrip(".")
                ft = dict(self.records[env[base]]).get(fld)
                if ft is not None:
                    if ft != t:
                        raise self.err("writes types %s as %s, the record as %s" % (a, t, ft), self.node)
                    if (env[base], fld) not in self.used_acc:
                        self.used_acc.append((env[base], fld))
                    prelude.append("let %s := (%s %s) in" % (mangle(v), self.acc_name(env[base], fld), mangle(base)))
                    env[v] = t
            else:
                raise self.err("writes lists %s, whose base is neither an object, a record-typed parameter nor a "
                               "parameter" % a, self.node)
        if self.events:
            if "evlog" in env:
                raise self.err("name clash on 'evlog'", self.node)
            env["evlog"] = ("list", self.evlog_elem())
            prelude.append("let evlog := (@nil %s) in" % coq_type(self.evlog_elem()))
        ctx = Ctx(self)

        def fall_off(e):
            if self.val_type is None:
                return ctx.ret_val(self.result_code(None, e, self.node), e)
            raise self.err("the function can fall off its end without a return", self.node)
        body = self.block(list(self.node.body), env, ctx, fall_off)
        if prelude:
            body = "\n".join(prelude) + "\n" + body
        params = " ".join("(%s : %s)" % (mangle(n), coq_type(t)) for n, t, _ in plist if t not in ("obj", "fixed"))
        self.defs.append("Definition %s %s : %s :=\n%s." % (self.coq, params, self.result_type(), textwrap.indent(body, "  ")))
        text = "\n\n".join(self.defs)
        text = text.replace("(py_min ", "(%s_py_min " % self.base).replace("(py_max ", "(%s_py_max " % self.base)
        toks = tokens(text) | tokens(" ".join(ty for _, ty in self.iface()))
        self.tvars = [nm for nm in self.tnames if nm in toks]        # the declared types the definitions mention
        out = ["Section %s_section." % self.base, "  Context {T : Type}."]
        if self.tvars:
            out.append("  Context %s." % " ".join("{%s : Type}" % nm for nm in self.tvars))
        for n, ty in self.iface():
            out.append("  Variable %s : %s." % (n, ty))
        if "py_min" in self.helpers:
            out.append("  (* Python: min(a, b) is a unless b < a *)\n  Definition %s_py_min (a b : T) : T := if ltb b a then b else a." % self.base)
        if "py_max" in self.helpers:
            out.append("  (* Python: max(a, b) is a unless b > a *)\n  Definition %s_py_max (a b : T) : T := if ltb a b then b else a." % self.base)
        out.append(textwrap.indent(text, "  "))
        out.append("End %s_section." % self.base)
        # the binary64 instance: every interface member and every literal is pinned here (the Section
        # abstracts them positionally, so only this instance says WHICH comparison / constant is meant)
        self.uses_T = "T" in toks
        if self.uses_T and (any(t in ("T", ("list", "T"), "costvec") for _, t, _ in plist) or self.ret_type == "T" or self.iface()):
            inst, lam = [], []
            for n, ty in self.iface():
                if n in FLOAT_INSTANCE:
                    inst.append(FLOAT_INSTANCE[n])
                elif n.startswith("c_"):
                    inst.append("(%s)%%float" % float_literal(dict(self.consts)[n]))
                else:
                    lam.append("(%s : %s)" % (n, re.sub(r"\bT\b", "float", ty)))
                    inst.append(n)
            tv = "".join(" {%s : Type}" % nm for nm in self.tvars)
            out.append("(* binary64 instance of %s: Python's < <= == + - * / abs on floats are the IEEE-754 operations of\n"
                       "   PrimFloat, literals are exact (hexadecimal); oracles stay parameters *)" % self.coq)
            out.append("Definition %s_f%s %s := @%s float %s." % (self.coq, tv, " ".join(lam), self.coq,
                                                                 " ".join(self.tvars + inst)))
        return "\n".join(out)

    def result_code(self, c, env, node):
        """the result of the function at a `return` / at its end: the returned value (if the spec declares one),
        then the current values of the written attributes / in-out parameters"""
        parts = [c] if self.val_type is not None else []
        for a, t in self.writes:
            v = attr_var(a)
            if v not in env:
                raise self.err("attribute %s is not certainly assigned at this return / at the end of the function" % a, node)
            if env[v] != t:
                raise self.err("attribute %s ends with type %s, the spec says %s" % (a, env[v], t), node)
            parts.append(mangle(v))
        if self.events:
            parts.append("evlog")
        code = parts[0]
        for v in parts[1:]:
            code = "(%s, %s)" % (code, v)
        return code


class _NoJoin(Exception):
    pass


class _JoinCtx(Ctx):
    """context of a branch that is joined through a tuple: nothing in it may return or raise"""

    def __init__(self, fn):
        super().__init__(fn, None)

    def ret_val(self, code, env):
        raise _NoJoin()

    def raise_(self, env):
        if not self.fn.partial:
            raise _NeedPartial()
        raise _NoJoin()

    def ret_opt(self, r, env):
        raise _NoJoin()


# ----------------------------------------------------------------------------------------------
# Python's list operations, emitted at the top of a generated module when a function uses them
GLOBAL_HELPERS = {
    "py_set_nth": """(* Python: xs[i] = x for 0 <= i; IndexError (None) when i >= len(xs) *)
Fixpoint py_set_nth {A : Type} (i : nat) (x : A) (l : list A) : option (list A) :=
  match l, i with
  | [], _ => None
  | _ :: l', O => Some (x :: l')
  | y :: l', S i' => match py_set_nth i' x l' with Some r => Some (y :: r) | None => None end
  end.""",
    "py_del_nth": """(* Python: del xs[i] for 0 <= i; IndexError (None) when i >= len(xs) *)
Fixpoint py_del_nth {A : Type} (i : nat) (l : list A) : option (list A) :=
  match l, i with
  | [], _ => None
  | _ :: l', O => Some l'
  | y :: l', S i' => match py_del_nth i' l' with Some r => Some (y :: r) | None => None end
  end.""",
    "py_remove": """(* Python: xs.remove(v) deletes the first item with item == v (eq item v); ValueError (None) if there is none *)
Fixpoint py_remove {A : Type} (eq : A -> A -> bool) (v : A) (l : list A) : option (list A) :=
  match l with
  | [] => None
  | y :: l' => if eq y v then Some l' else match py_remove eq v l' with Some r => Some (y :: r) | None => None end
  end.""",
    "py_sorted": """(* Python: sorted(xs, key=k) as the stable insertion sort from the right; leb a b = not (k b < k a) *)
Fixpoint py_insert {A : Type} (leb : A -> A -> bool) (x : A) (l : list A) : list A :=
  match l with
  | [] => [x]
  | y :: l' => if leb x y then x :: l else y :: py_insert leb x l'
  end.
Definition py_sorted {A : Type} (leb : A -> A -> bool) (l : list A) : list A := fold_right (py_insert leb) [] l.""",
    "py_dict": """(* Python dictionaries as association lists in insertion order (eq k' k is k' == k):
   k in d;  d[k] = v (replaced in place or added at the end);  d[k] updated (KeyError = None when k is missing) *)
Fixpoint py_dict_has {K V : Type} (eq : K -> K -> bool) (k : K) (d : list (K * V)) : bool :=
  match d with [] => false | (k', _) :: d' => if eq k' k then true else py_dict_has eq k d' end.
Fixpoint py_dict_set {K V : Type} (eq : K -> K -> bool) (k : K) (v : V) (d : list (K * V)) : list (K * V) :=
  match d with
  | [] => [(k, v)]
  | (k', v') :: d' => if eq k' k then (k', v) :: d' else (k', v') :: py_dict_set eq k v d'
  end.
Fixpoint py_dict_upd {K V : Type} (eq : K -> K -> bool) (k : K) (f : V -> V) (d : list (K * V)) : option (list (K * V)) :=
  match d with
  | [] => None
  | (k', v') :: d' => if eq k' k then Some ((k', f v') :: d')
                      else match py_dict_upd eq k f d' with Some r => Some ((k', v') :: r) | None => None end
  end.""",
    "py_extreme_by": """(* Python: min(xs, key=k) / max(xs, key=k): the first element whose key is better than that of every
   earlier one (better = strictly smaller / larger); ValueError (None) on an empty sequence; an exception
   in the key function (None) is the exception of the call *)
Fixpoint py_best_by {A K : Type} (better : K -> K -> bool) (key : A -> option K) (best : A) (kb : K) (l : list A) : option A :=
  match l with
  | [] => Some best
  | y :: l' => match key y with
               | None => None
               | Some ky => if better ky kb then py_best_by better key y ky l' else py_best_by better key best kb l'
               end
  end.
Definition py_extreme_by {A K : Type} (better : K -> K -> bool) (key : A -> option K) (l : list A) : option A :=
  match l with
  | [] => None
  | x :: l' => match key x with None => None | Some kx => py_best_by better key x kx l' end
  end.""",
    "py_zindex": """(* Python: the position an integer index k denotes in a sequence of length n (k < 0 counts from the end);
   IndexError (None) when it lies before the first element; a position >= n fails at the access *)
Definition py_zindex (k : Z) (n : nat) : option nat :=
  if (0 <=? k)%Z then Some (Z.to_nat k)
  else if (0 <=? Z.of_nat n + k)%Z then Some (Z.to_nat (Z.of_nat n + k)) else None.""",
}


def find_function(tree, cls, name, path):
    scope = tree.body
    if cls:
        cands = [n for n in tree.body if isinstance(n, ast.ClassDef) and n.name == cls]
        if len(cands) != 1:
            raise Unsupported("class %s: %d definitions in %s" % (cls, len(cands), path))
        scope = cands[0].body
    fns = [n for n in scope if isinstance(n, (ast.FunctionDef, ast.AsyncFunctionDef)) and n.name == name]
    if len(fns) != 1:
        raise Unsupported("function %s%s: %d definitions in %s" % (cls + "." if cls else "", name, len(fns), path))
    if isinstance(fns[0], ast.AsyncFunctionDef):
        raise Unsupported("async function", fns[0])
    return fns[0]


INTERPRETED_BUILTINS = ("len", "abs", "min", "max", "float", "tuple", "zip", "enumerate", "range", "list", "map", "sorted", "divmod")
SAFE_STAR_IMPORTS = ("abc",)          # modules known not to export a name of INTERPRETED_BUILTINS


def module_shadows(tree, cls):
    """builtin names the translator gives a meaning to that the module (or the class body) rebinds"""
    bound = set()

    def scan(body):
        for n in body:
            if isinstance(n, (ast.FunctionDef, ast.AsyncFunctionDef, ast.ClassDef)):
                bound.add(n.name)
            elif isinstance(n, ast.Import):
                for a in n.names:
                    bound.add((a.asname or a.name).split(".")[0])
            elif isinstance(n, ast.ImportFrom):
                for a in n.names:
                    if a.name == "*":
                        if (n.module or "") not in SAFE_STAR_IMPORTS:
                            bound.update(INTERPRETED_BUILTINS)       # unknown: assume the worst
                    else:
                        bound.add(a.asname or a.name)
            elif isinstance(n, (ast.Assign, ast.AugAssign, ast.AnnAssign)):
                for t in (n.targets if isinstance(n, ast.Assign) else [n.target]):
                    for m in ast.walk(t):
                        if isinstance(m, ast.Name):
                            bound.add(m.id)
            elif isinstance(n, (ast.If, ast.Try, ast.With, ast.For, ast.While)):
                for fld in ("body", "orelse", "finalbody"):
                    scan(getattr(n, fld, []) or [])
                for h in getattr(n, "handlers", []) or []:
                    scan(h.body)
    scan(tree.body)
    if cls:
        for n in tree.body:
            if isinstance(n, ast.ClassDef) and n.name == cls:
                pass        # class attributes are reached through self/cls only, never as bare names
    return bound & set(INTERPRETED_BUILTINS)


def function_source(src_lines, node):
    start = min([node.lineno] + [d.lineno for d in node.decorator_list])
    return textwrap.dedent("".join(src_lines[start - 1:node.end_lineno]))


def guard_function(node, fspec, qual):
    """Guard mode (for functions outside the subset): only the `if` tests that enclose ONE designated
    statement are translated.  Returns a synthetic function

        def g(<objects>, <locals>):           # plus the declared attributes of the objects
            if test1:                         # outermost enclosing test (negated when the target sits
                if test2:                     # in the else branch)
                    return True
                return False
            return False

    whose translation is the condition, over the declared attributes and locals, under which control
    reaches the target from the start of the innermost enclosing loop body (or of the function).  How
    the locals / attributes got their values is NOT translated."""
    target = fspec["target"]
    found = []

    def walk(stmts, path):
        for st in stmts:
            try:
                txt = ast.unparse(st)
            except Exception:
                txt = None
            if txt == target:
                found.append(list(path))
            if isinstance(st, ast.If):
                walk(st.body, path + [(st.test, True)])
                walk(st.orelse, path + [(st.test, False)])
            elif isinstance(st, (ast.For, ast.While)):
                if isinstance(st, ast.While):
                    walk(st.body, [("while", None)])
                else:
                    walk(st.body, [])
                walk(st.orelse, path)
            elif isinstance(st, (ast.With, ast.Try)) or type(st).__name__ in ("TryStar", "Match", "AsyncFor", "AsyncWith"):
                for fld in ("body", "orelse", "finalbody"):
                    walk(getattr(st, fld, []) or [], path + [("block", None)])
                for h in getattr(st, "handlers", []) or []:
                    walk(h.body, path + [("block", None)])
                for c in getattr(st, "cases", []) or []:
                    walk(c.body, path + [("block", None)])
            elif isinstance(st, (ast.FunctionDef, ast.AsyncFunctionDef, ast.ClassDef)):
                walk(st.body, [("block", None)])
    walk(node.body, [])
    occ = fspec.get("occurrence")
    if occ is None:
        if len(found) != 1:
            raise Unsupported("guard mode: the statement `%s` occurs %d times in the function (exactly one expected)"
                              % (target, len(found)), node, qual)
        path = found[0]
    else:
        # "occurrence": [k, n] = the k-th (from 0, source order) of exactly n occurrences
        k, total = occ
        if len(found) != total:
            raise Unsupported("guard mode: the statement `%s` occurs %d times in the function (%d expected)"
                              % (target, len(found), total), node, qual)
        path = found[k]
    if any(pol is None for _, pol in path):
        raise Unsupported("guard mode: the statement `%s` sits under a while / with / try / nested def" % target, node, qual)
    body = [ast.Return(value=ast.Constant(value=True))]
    for test, pol in reversed(path):
        no = [ast.Return(value=ast.Constant(value=False))]
        body = [ast.If(test=test, body=body if pol else no, orelse=no if pol else body)]
    names = list(fspec.get("objects", [])) + list(fspec.get("locals", {}))
    fn = ast.FunctionDef(name=node.name, args=ast.arguments(posonlyargs=[], args=[ast.arg(arg=a) for a in names], vararg=None,
                                                            kwonlyargs=[], kw_defaults=[], kwarg=None, defaults=[]),
                         body=body, decorator_list=[], returns=None, type_comment=None)
    ast.copy_location(fn, node)
    for n in ast.walk(fn):
        if not hasattr(n, "lineno"):
            ast.copy_location(n, node)
    sp = dict(fspec)
    sp["returns"] = "bool"
    sp["params"] = dict({o: "obj" for o in fspec.get("objects", [])}, **fspec.get("locals", {}))
    return fn, sp


def body_function(node, fspec, qual):
    """Body mode (for methods that update a list of objects one by one): the body of ONE designated `for` loop
    (`"loop": "for particle in population"` = the text `for <target> in <iter>`, which must occur exactly once, or
    `"occurrence": [k, n]`) is translated as a function of its loop variable - an object of the record type
    `"element"` - of the declared attributes of the other `"objects"` and of the declared `"locals"`; its result is
    the final values of the attributes of the loop variable listed under `writes` (in-out when the record declares
    them).  `continue` at the top level of the body ends it; `return` / `break` out of the designated loop are
    rejected.  With `"sole": true` the loop must be the whole body of the method (after the docstring; a bare
    trailing `return` is allowed).  NOT translated: what the loop iterates over (only its text is pinned), the code
    around the loop, and whether two elements share the written objects."""
    header = fspec["loop"]
    found = []

    def walk(stmts):
        for st in stmts:
            if isinstance(st, (ast.FunctionDef, ast.AsyncFunctionDef, ast.ClassDef)):
                continue
            if isinstance(st, ast.For) and "for %s in %s" % (ast.unparse(st.target), ast.unparse(st.iter)) == header:
                found.append(st)
            for fld in ("body", "orelse", "finalbody"):
                walk(getattr(st, fld, []) or [])
            for h in getattr(st, "handlers", []) or []:
                walk(h.body)
    walk(node.body)
    occ = fspec.get("occurrence")
    k, total = occ if occ else (0, 1)
    if len(found) != total:
        raise Unsupported("body mode: the loop `%s` occurs %d times in the function (%d expected)" % (header, len(found), total), node, qual)
    loop = found[k]
    if loop.orelse or not isinstance(loop.target, ast.Name):
        raise Unsupported("body mode: the loop `%s` has an else branch / a target that is not a name" % header, loop, qual)
    if fspec.get("sole"):
        rest = [st for st in node.body if not (isinstance(st, ast.Expr) and isinstance(st.value, ast.Constant)
                                                and isinstance(st.value.value, str))]
        if rest and isinstance(rest[-1], ast.Return) and rest[-1].value is None:
            rest = rest[:-1]
        if rest != [loop]:
            raise Unsupported("body mode: the loop `%s` is not the whole body of the function (spec: sole)" % header, node, qual)

    class Tr(ast.NodeTransformer):
        def visit_For(self, n):
            if has_node(n.body + n.orelse, (ast.Return,)):
                raise Unsupported("body mode: return inside the designated loop", n, qual)
            return n                          # continue / break of an inner loop stay as they are

        visit_While = visit_For

        def visit_Continue(self, n):
            return ast.copy_location(ast.Return(value=None), n)

        def visit_Break(self, n):
            raise Unsupported("body mode: break out of the designated loop", n, qual)

        def visit_Return(self, n):
            raise Unsupported("body mode: return inside the designated loop", n, qual)
    import copy
    body = [Tr().visit(copy.deepcopy(st)) for st in loop.body]
    names = list(fspec.get("objects", [])) + [loop.target.id] + list(fspec.get("locals", {}))
    fn = ast.FunctionDef(name=node.name, args=ast.arguments(posonlyargs=[], args=[ast.arg(arg=a) for a in names], vararg=None,
                                                            kwonlyargs=[], kw_defaults=[], kwarg=None, defaults=[]),
                         body=body, decorator_list=[], returns=None, type_comment=None)
    ast.copy_location(fn, loop)
    for n in ast.walk(fn):
        if not hasattr(n, "lineno"):
            ast.copy_location(n, loop)
    sp = dict(fspec)
    sp["returns"] = "writes"
    if "element" not in fspec:
        raise Unsupported("body mode: the spec does not give the record type of the loop variable (element)", node, qual)
    sp["params"] = dict({o: "obj" for o in fspec.get("objects", [])}, **{loop.target.id: fspec["element"]}, **fspec.get("locals", {}))
    return fn, sp


def function_infos(repo, spec):
    """[{"function", "sha1", "source"}] of the functions named by the spec, without translating them."""
    path = os.path.join(repo, spec["source"])
    src = open(path).read()
    tree = ast.parse(src, filename=path)
    lines = src.splitlines(keepends=True)
    out = []
    for item in spec["functions"]:
        cls, name = item[0], item[1]
        node = find_function(tree, cls or None, name, spec["source"])
        fs = function_source(lines, node)
        qual = (cls + "." if cls else "") + name
        if qual not in [i["function"] for i in out]:
            out.append({"function": qual, "sha1": hashlib.sha1(fs.encode()).hexdigest(), "source": fs})
    return out


def _frontend(name):
    """other front-ends of the translator (tools/py2coq_<name>.py; same spec format, same entry points): a spec with
    "frontend": "<name>" is translated by that module (py2coq_bench: numeric benchmark code over R, C15/C16)"""
    import importlib.util
    if not re.fullmatch(r"[a-z][a-z0-9_]*", name):
        raise Unsupported("front-end name %r in the spec" % (name,))
    path = os.path.join(os.path.dirname(os.path.abspath(__file__)), "py2coq_%s.py" % name)
    sp = importlib.util.spec_from_file_location("py2coq_%s" % name, path)
    m = importlib.util.module_from_spec(sp)
    sp.loader.exec_module(m)
    return m


LAST_TRANSLATORS = {}       # qualified name -> FnTranslator of the last translate_spec call (read by the self-test)


def translate_spec(repo, spec):
    """-> (coq text, [{"function", "sha1", "source"}]); raises Unsupported."""
    if spec.get("frontend"):
        return _frontend(spec["frontend"]).translate_spec(repo, spec)
    path = os.path.join(repo, spec["source"])
    src = open(path).read()
    tree = ast.parse(src, filename=path)
    lines = src.splitlines(keepends=True)
    done, parts, info, helpers = {}, [], [], set()
    for item in spec["functions"]:
        cls, name = item[0], item[1]
        qual = (cls + "." if cls else "") + name
        key = qual + ("#" + item[2] if len(item) > 2 else "")
        node = find_function(tree, cls or None, name, spec["source"])
        fs = function_source(lines, node)
        if qual not in [i["function"] for i in info]:
            info.append({"function": qual, "sha1": hashlib.sha1(fs.encode()).hexdigest(), "source": fs})
        fspec = spec.get("types", {}).get(key)
        if fspec is None:
            raise Unsupported("no typing for %s in the spec" % key)
        if fspec.get("mode") == "guard":
            gnode, gspec = guard_function(node, fspec, qual)
            ft = FnTranslator(spec["module"], None, name, gspec, gnode, done)
            ft.qual = key
            what = "guard of `%s` in %s" % (fspec["target"], qual)
        elif fspec.get("mode") == "body":
            gnode, gspec = body_function(node, fspec, qual)
            ft = FnTranslator(spec["module"], None, name, gspec, gnode, done)
            ft.qual = key
            what = "body of the loop `%s` in %s%s" % (fspec["loop"], qual, " (the whole method)" if fspec.get("sole") else "")
        else:
            ft = FnTranslator(spec["module"], cls or None, name, fspec, node, done)
            what = "%s.%s" % (cls or "<module>", name)
        ft.shadowed_builtins = module_shadows(tree, cls)
        code = ft.translate()
        note = ""
        if ft.skipped:
            note = "\n(* NOT translated (designated by the spec; effects outside the result): %s *)" % "; ".join(
                "`%s` x%d" % (t.replace("*)", "* )"), c) for t, c in sorted(ft.skipped.items()))
        parts.append("(* %s, lines %d-%d of %s, sha1 %s *)%s\n%s" % (
            what, node.lineno, node.end_lineno, spec["source"], hashlib.sha1(fs.encode()).hexdigest(), note, code))
        helpers |= ft.ghelpers
        done[key] = ft
        LAST_TRANSLATORS[key] = ft
    head = ("(* GENERATED by tools/py2coq.py from %s - never edit, never commit.\n"
            "   Shallow Gallina definitions of: %s. *)\n"
            "From Coq Require Import List ZArith Bool Arith Floats.\nImport ListNotations.\n\n"
            % (spec["source"], ", ".join(i["function"] for i in info)))
    head += "".join(GLOBAL_HELPERS[h] + "\n\n" for h in sorted(helpers))
    return head + "\n\n".join(parts) + "\n", info


def main(argv):
    import argparse
    ap = argparse.ArgumentParser(description=__doc__.split("\n")[0])
    ap.add_argument("--repo", default=os.environ.get("VERIF_REPO", "/repo"))
    ap.add_argument("--spec", required=True, help="JSON file with the spec (see the module docstring)")
    ap.add_argument("--out", default="-")
    ap.add_argument("--write-reference", metavar="DIR", default=None,
                    help="write the current source of each function to DIR/<function>.py.txt (the copy the "
                         "equivalence proofs were written for; used to report what changed) and exit")
    a = ap.parse_args(argv)
    spec = json.load(open(a.spec))
    if a.write_reference:
        for i in function_infos(a.repo, spec):
            open(os.path.join(a.write_reference, i["function"] + ".py.txt"), "w").write(i["source"])
        return 0
    try:
        text, info = translate_spec(a.repo, spec)
    except Unsupported as e:
        sys.stderr.write("py2coq: %s\n" % e)
        return 2
    except SyntaxError as e:
        sys.stderr.write("py2coq: the source does not parse: %s\n" % e)
        return 2
    if a.out == "-":
        sys.stdout.write(text)
    else:
        open(a.out, "w").write(text)
    return 0


if __name__ == "__main__":
    sys.exit(main(sys.argv[1:]))
