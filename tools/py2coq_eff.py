#!/usr/bin/env python3
"""py2coq_eff - front-end of the fail-closed translator for EFFECTFUL control code: the evaluation path of
artap (job.py `Job.evaluate`, operators.py `Evaluator.*`, `WorstCaseEvaluator / GradientEvaluator.evaluate / run`,
algorithm_sweep.py `SweepAlgorithm.run`, datastore.py `sync_individual / sync_all`).

    tools/py2coq_eff.py --repo /repo --spec coq/theories/GenProofs/specs/JobGen.json --out X.v

Same spec format and entry points as tools/py2coq.py (`translate_spec`, `function_infos`; a spec with
`"frontend": "eff"` is routed here by py2coq.translate_spec).  The translator proper is py2coq.FnTranslator; this
module is a subclass that adds, on top of its subset (notes/TRANSLATOR.md):

* EFFECTS (`"effects": [{"call": "self.problem.surrogate.evaluate", "args": [...], "returns": "list T", ...}]`): calls
  of code that is outside the translation and has effects.  Every effect is a Section variable `o_<name>`.  Flags:
    "event": true      the call is observable: `(ev_<name> <arguments>)` is appended to the EVENT LOG `evlog : list ev`
                       (the last component of the result; `ev` is a Section type, `ev_<name>` a Section variable), in
                       program order, before the call is made;
    "history": true    the result may depend on everything that happened before: the oracle gets the event log (with
                       its own event) as its first argument (a random draw, the state of the outside world);
    "raises": true     the call has an OUTCOME: `PyVal v` or `PyExc e` (`py_outcome`, `e : exc` a Section type); an
                       exception goes to the enclosing `try` or leaves the function;
    "new": true        the call returns a NEW object of a record type: the local it is bound to may have its fields
                       assigned (`x.f = e` is `let x := s_<rec>_<f> x e`, a Section variable) until it is used as a value;
    "sets": [a, ...]   (an expression statement only) the call assigns the written attributes a, ... (`writes` of the
                       spec): their new values are the oracle's result;
    "self_fields": [f] a method call `p.m(args)` on a record-typed `p`: the oracle is a function of the arguments and
                       of the CURRENT values of the fields f of p;
  an argument `{"fields_of": "ind", "fields": [f, ...]}` is an object of that record type passed by the CURRENT values
  of the listed fields (what the callee may read of it); a record field listed under `"volatile": {"ind": [f]}` may be
  changed by effects on other references: its accessor takes the event log as first argument;
* `try: ... except (A, B) as e: ... except: ...` (no else / finally): an exception of a raising effect / a `raise` inside
  the body goes through the handlers in order, `except (A, B)` is `isinst e "A" || isinst e "B"` (`isinst : exc -> string
  -> bool`, a Section variable: the class test of the outside world), a bare `except:` catches everything; no match =
  the exception propagates.  Handlers see the locals / written attributes as they are at the point of the exception;
* `raise X(...)` is the result `PyExc (new_exc "X")` (the arguments are not translated), a bare `raise` re-raises the
  caught exception, `raise e` the named one.  With `"raises": true` the first component of the function's result is
  `PyVal value | PyExc e` (value `tt` for a function that returns nothing);
* enumeration constants (`"constants": {"individual.State.EMPTY": "dstate"}`): Section variables `k_<name>`, listed in
  the interface in alphabetical order of their text;
* `all(E for v in xs)` / `any(...)`: `forallb` / `existsb`;  `print(...)` of plain values: no effect;
* `"untracked": {"targets": [...], "sources": ["time.time"]}`: an assignment `<target> = <source>()` is dropped (time
  stamps), `<target>.append(E)` evaluates E for its effects only (the list is outside the translation); the targets
  cannot be read;  `"fixed": {"self.problem": "not None"}` also decides `self.problem is not None`;
* `"abstract_loops": {"for individual in self.individuals": "body"}`: a loop that is translated on its own (body mode
  of py2coq.py) is replaced by the event `ev_loop_body x` for every element x in order.

Everything else is `Unsupported` (never a guess): try/else, finally, loops that can raise inside a try, an operation
that can raise an untracked exception (IndexError ...) inside a try, effects inside lambdas / conditionally evaluated
operands, break under try.

Trusted on top of the assumptions of py2coq.py: an effect does nothing to the locals and written attributes of the
translated function beyond what the spec says (`sets`, `volatile`); effects not flagged `raises` do not raise;
`print`, the untracked targets and the arguments of exception constructors are not observed; the constructor of a
`new` effect returns an object nobody else holds.

Stdlib only.
"""
import ast
import copy
import hashlib
import importlib.util
import json
import os
import re
import sys
import textwrap

HERE = os.path.dirname(os.path.abspath(__file__))


def _load_base():
    """tools/py2coq.py: the copy that is already loaded when this front-end is reached through it (so that
    `Unsupported` is one class), else a private copy"""
    path = os.path.join(HERE, "py2coq.py")
    for m in list(sys.modules.values()):
        f = getattr(m, "__file__", None)
        if f and os.path.abspath(f) == path and hasattr(m, "Unsupported") and hasattr(m, "FnTranslator"):
            return m
    spec = importlib.util.spec_from_file_location("py2coq_base_for_eff", path)
    m = importlib.util.module_from_spec(spec)
    sys.modules["py2coq_base_for_eff"] = m
    spec.loader.exec_module(m)
    return m


base = _load_base()
Unsupported = base.Unsupported
dotted, attr_key, attr_var, mangle, coq_type = base.dotted, base.attr_key, base.attr_var, base.mangle, base.coq_type
mutation_of = base.mutation_of

def call_name(func):
    """the name a call goes to: a dotted name, or `super().m`"""
    d = dotted(func)
    if d is not None:
        return d
    if isinstance(func, ast.Attribute) and isinstance(func.value, ast.Call) and isinstance(func.value.func, ast.Name) \
            and func.value.func.id == "super" and not func.value.args and not func.value.keywords:
        return "super()." + func.attr
    return None


EXTRA_BUILTINS = ("all", "any", "print", "str", "repr", "type", "super")

EFF_HELPERS = {
    "py_outcome": """(* the outcome of a call that can raise a designated exception: a value or the exception *)
Inductive py_outcome (A E : Type) : Type := PyVal (a : A) | PyExc (e : E).
Arguments PyVal {A E} a.
Arguments PyExc {A E} e.""",
}


class Effect:
    def __init__(self, tr, d, node):
        self.name = d["call"]
        self.var = attr_var(self.name)
        known = {"call", "args", "returns", "event", "history", "raises", "new", "sets", "self_fields", "receiver", "comment"}
        if set(d) - known:
            raise Unsupported("effect %s: unknown keys %s in the spec" % (self.name, sorted(set(d) - known)), node, tr.qual)
        self.args = []
        for a in d.get("args", []):
            if isinstance(a, dict):
                if set(a) != {"fields_of", "fields"} or a["fields_of"] not in tr.records:
                    raise Unsupported("effect %s: object argument %r" % (self.name, a), node, tr.qual)
                rec = dict(tr.records[a["fields_of"]])
                for f in a["fields"]:
                    if f not in rec:
                        raise Unsupported("effect %s: field %s of %s is not declared" % (self.name, f, a["fields_of"]), node, tr.qual)
                self.args.append(("fields", a["fields_of"], list(a["fields"])))
            else:
                self.args.append(("value", tr.ptype(a)))
        self.ret = tr.ptype(d["returns"]) if d.get("returns") else None
        self.event, self.history, self.raises, self.new = (bool(d.get(k)) for k in ("event", "history", "raises", "new"))
        self.sets = list(d.get("sets", []))
        self.self_fields = list(d.get("self_fields", []))
        # a method of a LOCAL object of an opaque type (conn.commit()): the object is the oracle's first argument
        self.receiver = tr.ptype(d["receiver"]) if d.get("receiver") else None
        if self.receiver is not None and (self.self_fields or self.name != "<%s>.%s" % (self.receiver, self.name.split(".")[-1])):
            raise Unsupported("effect %s: a receiver effect is named `<TYPE>.<method>` with its receiver's type" % self.name, node, tr.qual)
        if self.new and self.ret not in tr.records:
            raise Unsupported("effect %s: `new` needs a record type as result" % self.name, node, tr.qual)
        if self.sets and self.ret is not None:
            raise Unsupported("effect %s: `sets` and `returns` together" % self.name, node, tr.qual)

    def arg_types(self, tr, recv_rec=None):
        out = [coq_type(self.receiver)] if self.receiver is not None else []
        for a in self.args:
            if a[0] == "value":
                out.append(coq_type(a[1]))
            else:
                out += [coq_type(dict(tr.records[a[1]])[f]) for f in a[2]]
        if self.self_fields:
            out += [coq_type(dict(tr.records[recv_rec])[f]) for f in self.self_fields]
        return out


class EffTranslator(base.FnTranslator):
    def __init__(self, mod, cls, name, spec, node, done):
        spec2 = dict(spec)
        self.raises = bool(spec.get("raises"))
        effs = list(spec.get("effects", []))
        opaque = list(spec.get("opaque", []))
        need_exc = self.raises or any(e.get("raises") for e in effs)
        self.abstract_loops = dict(spec.get("abstract_loops", {}))
        need_ev = any(e.get("event") for e in effs) or bool(self.abstract_loops) or bool(spec.get("submit"))
        if need_exc and "exc" not in opaque:
            opaque.append("exc")
        if need_ev and "ev" not in opaque:
            opaque.append("ev")
        spec2["opaque"] = opaque
        if spec.get("events"):
            raise Unsupported("the effects front-end has its own event log (flag `event` of an effect), not `events`", node)
        self.novalue = spec.get("returns") in ("none", "writes")
        if self.novalue:
            spec2["returns"] = "bool"            # placeholder for the base constructor (reset below)
        spec2["writes"] = list(spec.get("writes", []))
        super().__init__(mod, cls, name, spec2, node, done)
        if self.novalue:
            self.val_type = None
        self.constants = {k: self.ptype(v) for k, v in spec.get("constants", {}).items()}
        for k in self.constants:
            if not re.fullmatch(r"[A-Za-z_]\w*(\.[A-Za-z_]\w*)+", k):
                raise Unsupported("constant %r in the spec is not a dotted name" % k, node, self.qual)
        un = spec.get("untracked", {})
        self.untracked_targets, self.untracked_sources = list(un.get("targets", [])), list(un.get("sources", []))
        self.silent = list(spec.get("silent", []))          # logging calls: like print
        # expressions the spec names instead of translating (their text is pinned): a history-dependent oracle of the
        # listed locals, `"terms": {"<text>": {"name": "row", "args": ["individual"], "type": "ROW"}}`
        self.terms = {}
        for txt, d in spec.get("terms", {}).items():
            if set(d) != {"name", "args", "type"} or not re.fullmatch(r"[a-z]\w*", d["name"]):
                raise Unsupported("term %r in the spec" % txt, node, self.qual)
            self.terms[txt] = (d["name"], list(d["args"]), self.ptype(d["type"]))
        self.submit = spec.get("submit")                    # the joblib idiom, see submit_stmt
        self.volatile = {r: list(fs) for r, fs in spec.get("volatile", {}).items()}
        for r, fs in self.volatile.items():
            if r not in self.records or any(f not in dict(self.records[r]) for f in fs):
                raise Unsupported("volatile fields %s of %s are not declared" % (fs, r), node, self.qual)
        self.effects = {}
        for d in effs:
            e = Effect(self, d, node)
            if e.name in self.effects or e.name in [o for o, _, _ in self.oracles]:
                raise Unsupported("effect %s declared twice" % e.name, node, self.qual)
            self.effects[e.name] = e
        for e in self.effects.values():
            for a in e.sets:
                if a not in [w for w, _ in self.writes]:
                    raise Unsupported("effect %s sets %s, which is not listed under writes" % (e.name, a), node, self.qual)
        for t in self.untracked_targets:
            if t in [w for w, _ in self.writes] or t in [a for a, _ in self.attrs]:
                raise Unsupported("untracked target %s is also declared as an attribute" % t, node, self.qual)
        # the names the base class consults to join the event log through an `if`
        self.events = [e.name for e in self.effects.values() if e.event] or (["<event log>"] if need_ev else [])
        self.has_evlog = need_ev
        first = ("outcome", self.val_type if self.val_type is not None else "unit") if self.raises else self.val_type
        ts = ([first] if first is not None else []) + [t for _, t in self.writes] + ([("list", "ev")] if self.has_evlog else [])
        if not ts:
            raise Unsupported("the function has no result (no value, no writes, no events)", node, self.qual)
        self.ret_type = ts[0]
        for t in ts[1:]:
            self.ret_type = ("prod", self.ret_type, t)

    # -- bookkeeping --------------------------------------------------------------------------
    def reset(self):
        super().reset()
        self.used_setters, self.used_constants, self.used_effects, self.used_evs = [], [], [], []
        self.used_exc = set()
        self.owned = {}
        self.nexc = 0
        self.abstracted = {}
        self.submit_type = None
        self.used_terms = []
        self.term_env = {}

    def evlog_elem(self):
        return "ev"

    def eff_name(self, func, env=None):
        """the declared effect a call goes to (its key in self.effects), or None: by dotted name / `super().m`, or - a
        method of a local object of an opaque type R - by `<R>.m` (without an environment: of any such type)"""
        nm = call_name(func)
        if nm in self.effects:
            return nm
        if isinstance(func, ast.Attribute) and isinstance(func.value, ast.Name):
            for key in self.effects:
                mt = re.fullmatch(r"<(\w+)>\.(\w+)", key)
                if mt and mt.group(2) == func.attr and (env is None or env.get(func.value.id) == mt.group(1)):
                    return key
        return None

    def hidden_assigned(self, stmts):
        """the event log changes wherever an observable effect is called / an abstracted loop stands"""
        out = []
        for st in stmts:
            for nd in ast.walk(st):
                if isinstance(nd, ast.Call) and self.eff_name(nd.func) in self.events and "evlog" not in out:
                    out.append("evlog")
                if isinstance(nd, ast.For) and self.loop_header(nd) in self.abstract_loops and "evlog" not in out:
                    out.append("evlog")
                if self.submit and isinstance(nd, ast.Call) and isinstance(nd.func, ast.Call) \
                        and dotted(nd.func.func) == self.submit.get("pool") and "evlog" not in out:
                    out.append("evlog")
                if isinstance(nd, ast.Call) and self.eff_name(nd.func) in self.effects:
                    # attributes that an effect assigns (`sets`)
                    for a in self.effects[self.eff_name(nd.func)].sets:
                        if attr_var(a) not in out:
                            out.append(attr_var(a))
        return out

    @staticmethod
    def loop_header(nd):
        return "for %s in %s" % (ast.unparse(nd.target), ast.unparse(nd.iter))

    def is_volatile(self, r, f):
        return f in self.volatile.get(r, [])

    def iface(self):
        out = []
        for n, ty in super().iface():
            # accessors of volatile fields read the world as it is after the events so far
            hit = [(r, f) for (r, f) in self.used_acc if self.acc_name(r, f) == n and self.is_volatile(r, f)]
            out.append((n, "(list ev) -> " + ty) if hit else (n, ty))
        for r, flds in self.records.items():
            for f, t in flds:
                if (r, f) in self.used_setters:
                    out.append((self.set_name(r, f), "%s -> %s -> %s" % (r, coq_type(t), r)))
        for k in sorted(self.constants):
            if k in self.used_constants:
                out.append(("k_" + attr_var(k), coq_type(self.constants[k])))
        if "isinst" in self.used_exc:
            out.append(("isinst", "exc -> String.string -> bool"))
        if "new_exc" in self.used_exc:
            out.append(("new_exc", "String.string -> exc"))
        for hdr, nm in self.abstract_loops.items():
            if hdr in self.abstracted:
                out.append(("ev_loop_" + nm, "%s -> ev" % coq_type(self.abstracted[hdr])))
        for txt, (name, args, ty) in self.terms.items():
            if name in self.used_terms:
                out.append(("t_" + name, " -> ".join(["(list ev)"] + [coq_type(self.term_arg_type(a)) for a in args] + [coq_type(ty)])))
        if self.submit_type is not None:
            out.append(("ev_submit", "(list %s) -> ev" % coq_type(self.submit_type)))
        for e in self.effects.values():
            if e.name in self.used_evs:
                out.append(("ev_" + e.var, " -> ".join(e.arg_types(self, self.recv_rec.get(e.name)) + ["ev"])))
        for e in self.effects.values():
            if e.name in self.used_effects:
                rt = self.effect_result_type(e)
                out.append(("o_" + e.var, " -> ".join((["(list ev)"] if e.history else [])
                                                      + e.arg_types(self, self.recv_rec.get(e.name)) + [rt])))
        return out

    def term_arg_type(self, a):
        return self.term_env.get(a)

    def effect_result_type(self, e):
        if e.sets:
            ts = [coq_type(dict(self.writes)[a]) for a in e.sets]
            rt = ts[0]
            for t in ts[1:]:
                rt = "(%s * %s)%%type" % (rt, t)
        else:
            rt = coq_type(e.ret) if e.ret is not None else "unit"
        return "(py_outcome %s exc)" % rt if e.raises else rt

    @staticmethod
    def set_name(r, f):
        return "s_%s_%s" % (r, attr_var(f))

    # -- expressions --------------------------------------------------------------------------
    def _expr(self, n, env, want):
        if self.terms and isinstance(n, (ast.List, ast.Call, ast.Dict, ast.Tuple, ast.BinOp, ast.Subscript, ast.Attribute)) \
                and ast.unparse(n) in self.terms:
            name, args, ty = self.terms[ast.unparse(n)]
            if self.pre is None or "evlog" not in env:
                raise self.err("named term outside a statement context / without an event log", n)
            cs = []
            for a in args:
                if a not in env or env[a] in ("obj", "fixed"):
                    raise self.err("named term over %r, which is not a value bound here" % a, n)
                if self.term_env.setdefault(a, env[a]) != env[a]:
                    raise self.err("named term over %r with two types" % a, n)
                cs.append(mangle(a))
            if name not in self.used_terms:
                self.used_terms.append(name)
            x = self.fresh()
            self.pre.append(("let", x, "(%s)" % " ".join(["t_" + name, "evlog"] + cs)))
            return x, ty
        if isinstance(n, ast.Attribute) and dotted(n) in self.constants:
            k = dotted(n)
            head = k.split(".")[0]
            if head in env and env[head] not in self.records and env[head] not in ("obj",):
                raise self.err("constant %s read through the local %r" % (k, head), n)
            if k not in self.used_constants:
                self.used_constants.append(k)
            return "k_" + attr_var(k), self.constants[k]
        if isinstance(n, ast.Compare) and len(n.ops) == 1 and isinstance(n.ops[0], (ast.Is, ast.IsNot)) \
                and isinstance(n.left, ast.Attribute) and attr_key(n.left) in self.fixed \
                and self.fixed[attr_key(n.left)] == "not None" and isinstance(n.comparators[0], ast.Constant) \
                and n.comparators[0].value is None and env.get(attr_key(n.left).split(".")[0]) == "obj":
            return ("true" if isinstance(n.ops[0], ast.IsNot) else "false"), "bool"
        return super()._expr(n, env, want)

    def field_read(self, n, env):
        code, t = super().field_read(n, env)
        return self.volatile_fix(code), t

    def volatile_fix(self, code):
        """accessors of volatile fields get the current event log"""
        for (r, f) in self.used_acc:
            if self.is_volatile(r, f):
                nm = self.acc_name(r, f)
                code = re.sub(r"\(%s (?!evlog )" % re.escape(nm), "(%s evlog " % nm, code)
        return code

    def call(self, n, env, want):
        f = self.eff_name(n.func, env) or call_name(n.func)
        if f is not None and f.startswith("super().") and ("super" in env or "super" in self.shadowed_extra):
            raise self.err("the name super is rebound", n)
        if f in ("all", "any") and f not in env:
            if f in self.shadowed_extra:
                raise self.err("the module rebinds the builtin %r" % f, n)
            if len(n.args) != 1 or n.keywords or not isinstance(n.args[0], (ast.GeneratorExp, ast.ListComp)):
                raise self.err("%s() of other than one generator expression / comprehension" % f, n)
            g = n.args[0]
            if len(g.generators) != 1 or g.generators[0].ifs or getattr(g.generators[0], "is_async", 0) \
                    or not isinstance(g.generators[0].target, ast.Name):
                raise self.err("%s(): generator with a condition / several clauses / a tuple target" % f, n)
            v = g.generators[0].target.id
            if v in env:
                raise self.err("generator variable %r shadows a bound name" % v, n)
            xs, t = self.expr(g.generators[0].iter, env)
            if not base.is_list(t):
                raise self.err("%s() over a value of type %s" % (f, t), n)
            saved = self.loop_targets
            self.loop_targets = self.loop_targets | {v}
            try:
                c = self.no_partial(lambda: self.expr(g.elt, dict(env, **{v: t[1]}), "bool")[0], "a generator expression", n)
            finally:
                self.loop_targets = saved
            return "(%s (fun %s => %s) %s)" % ("forallb" if f == "all" else "existsb", mangle(v), c, xs), "bool"
        if f in self.effects:
            e = self.effects[f]
            if e.sets:
                raise self.err("effect %s assigns attributes: it can only be called as a statement" % f, n)
            return self.effect_call(n, e, env)
        return super().call(n, env, want)

    def if_join(self, s, cond, rest, env, env_a, env_b, ctx, k):
        # the base class joins the event log through an `if` when it sees a call of an observable oracle by its dotted
        # name; `super().m(...)` has none: no join, the general scheme threads the log
        for nd in ast.walk(s):
            if isinstance(nd, ast.Call) and self.eff_name(nd.func) in self.effects and dotted(nd.func) not in self.events:
                raise base._NoJoin()
        return super().if_join(s, cond, rest, env, env_a, env_b, ctx, k)

    def field_node(self, name, field, at):
        nd = ast.parse("%s.%s" % (name, field) if not field.startswith("[") else name + field, mode="eval").body
        for x in ast.walk(nd):
            ast.copy_location(x, at)
        return nd

    def effect_call(self, n, e, env):
        """the value and type of a call of a declared effect; events / outcomes are hoisted into the statement's
        prelude in evaluation order, the result is let-bound where the call stands"""
        if n.keywords or any(isinstance(a, ast.Starred) for a in n.args):
            raise self.err("keyword / starred arguments in a call of the effect %s" % e.name, n)
        if len(n.args) != len(e.args):
            raise self.err("effect %s called with %d arguments, declared with %d" % (e.name, len(n.args), len(e.args)), n)
        if self.pre is None:
            raise self.err("effect %s outside a statement context" % e.name, n)
        head = e.name.split(".")[0]
        cs = []
        if e.receiver is not None:
            recv = n.func.value.id
            if env.get(recv) != e.receiver or e.receiver not in self.opaque:
                raise self.err("receiver of %s is not a local of the opaque type %s" % (e.name, e.receiver), n)
            cs.append(mangle(recv))
        elif head in env and env[head] not in ("obj",) and not (e.self_fields and env[head] in self.records):
            raise self.err("call through the local name %r" % head, n)
        for a, spec in zip(n.args, e.args):
            if spec[0] == "value":
                cs.append(self.expr(a, env, spec[1])[0])
            else:
                if not (isinstance(a, ast.Name) and env.get(a.id) == spec[1]):
                    raise self.err("argument of %s must be a local / parameter of the record type %s" % (e.name, spec[1]), a)
                self.use_object(a.id, n)
                cs += [self.expr(self.field_node(a.id, f, n), env)[0] for f in spec[2]]
        if e.self_fields:
            recv = n.func.value
            if not (isinstance(recv, ast.Name) and env.get(recv.id) in self.records):
                raise self.err("method effect %s on other than a record-typed local / parameter" % e.name, n)
            rec = env[recv.id]
            if self.recv_rec.setdefault(e.name, rec) != rec:
                raise self.err("method effect %s on objects of two record types" % e.name, n)
            for f in e.self_fields:
                if f not in dict(self.records[rec]):
                    raise self.err("method effect %s reads the field %s, not declared for %s" % (e.name, f, rec), n)
            cs += [self.expr(self.field_node(recv.id, f, n), env)[0] for f in e.self_fields]
        if e.event:
            if "evlog" not in env:
                raise self.err("event outside the scope of the event log", n)
            if e.name not in self.used_evs:
                self.used_evs.append(e.name)
            self.pre.append(("event_t", "(%s)" % " ".join(["ev_" + e.var] + cs) if cs else "ev_" + e.var))
        if e.history and "evlog" not in env:
            raise self.err("history-dependent effect %s in a function without an event log" % e.name, n)
        if e.ret is None and not e.raises and not e.sets and not e.history:
            # nothing comes back from the call: only its event is visible
            if not e.event:
                raise self.err("effect %s has neither a result nor an event" % e.name, n)
            return "tt", "unit"
        if e.name not in self.used_effects:
            self.used_effects.append(e.name)
        code = " ".join(["o_" + e.var] + (["evlog"] if e.history else []) + cs)
        code = "(%s)" % code if " " in code else code
        x = self.fresh()
        if e.raises:
            self.pre.append(("obind", x, code, n))
        else:
            self.pre.append(("let", x, code))
        return x, (e.ret if e.ret is not None else "unit")

    def use_object(self, name, node):
        """an owned object is used as a value: its fields can no longer be assigned"""
        if name in self.owned:
            self.owned[name] = "escaped"

    # -- statements ---------------------------------------------------------------------------
    def wrap(self, pre, inner, ctx, env):
        for item in reversed(pre):
            if item[0] == "obind":
                self.nexc += 1
                en = "py_e%d" % self.nexc
                inner = "match %s with\n| PyVal %s =>\n%s\n| PyExc %s =>\n%s\nend" % (
                    item[2], item[1], textwrap.indent(inner, "  "), en,
                    textwrap.indent(self.raise_exc(ctx, en, env, item[3]), "  "))
            elif item[0] == "let":
                inner = "let %s := %s in\n%s" % (item[1], item[2], inner)
            elif item[0] == "event_t":
                inner = "let evlog := (evlog ++ [%s]) in\n%s" % (item[1], inner)
            else:
                inner = super().wrap([item], inner, ctx, env)
        return inner

    def raise_exc(self, ctx, ecode, env, node):
        h = getattr(ctx, "handler", None)
        if h is not None:
            return h(ecode, env)
        if not self.raises:
            raise self.err("an exception can leave the function, but the spec does not say `raises`", node)
        return ctx.ret_val(self.result_exc(ecode, env, node), env)

    def result_code(self, c, env, node):
        if not self.raises:
            if self.val_type is None and not self.writes:
                return "evlog"
            return super().result_code(c, env, node)
        return self.result_parts("(PyVal %s)" % (c if c is not None else "tt"), env, node)

    def result_exc(self, ecode, env, node):
        return self.result_parts("(PyExc %s)" % ecode, env, node)

    def result_parts(self, first, env, node):
        parts = [first]
        for a, t in self.writes:
            v = attr_var(a)
            if v not in env:
                raise self.err("attribute %s is not certainly assigned at this return / raise" % a, node)
            if env[v] != t:
                raise self.err("attribute %s ends with type %s, the spec says %s" % (a, env[v], t), node)
            parts.append(mangle(v))
        if self.has_evlog:
            parts.append("evlog")
        code = parts[0]
        for v in parts[1:]:
            code = "(%s, %s)" % (code, v)
        return code

    def can_raise(self, stmts):
        for st in stmts:
            for nd in ast.walk(st):
                if isinstance(nd, ast.Raise):
                    return True
                if isinstance(nd, ast.Call) and self.eff_name(nd.func) in self.effects and self.effects[self.eff_name(nd.func)].raises:
                    return True
        return False

    def inert(self, e, env):
        """an expression without effects that `print` may be given"""
        if isinstance(e, ast.Constant):
            return True
        if isinstance(e, ast.Name):
            return True
        if isinstance(e, ast.Attribute):
            return self.inert(e.value, env)
        if isinstance(e, ast.Subscript):
            sl = e.slice.value if isinstance(e.slice, ast.Index) else e.slice
            return self.inert(e.value, env) and isinstance(sl, ast.Constant)
        if isinstance(e, ast.Call) and not e.keywords:
            f = dotted(e.func)
            if f == "sys.exc_info" and not e.args and "sys" not in env:
                return True
            if f in ("str", "repr", "type") and f not in env and f not in self.shadowed_extra and len(e.args) == 1:
                return self.inert(e.args[0], env)
            if isinstance(e.func, ast.Attribute) and e.func.attr == "format" and isinstance(e.func.value, ast.Constant) \
                    and isinstance(e.func.value.value, str):
                return all(self.inert(a, env) for a in e.args)
        return False

    def untracked_expr(self, e, env):
        """an expression over the untracked sources / targets only (time stamps and their differences)"""
        if isinstance(e, ast.Constant) and isinstance(e.value, (int, float)):
            return True
        if isinstance(e, ast.Call):
            return dotted(e.func) in self.untracked_sources and not e.args and not e.keywords \
                and dotted(e.func).split(".")[0] not in env
        if isinstance(e, (ast.Name, ast.Attribute, ast.Subscript)):
            return self.target_key(e) in self.untracked_targets and self.target_key(e) not in env
        if isinstance(e, ast.BinOp):
            return self.untracked_expr(e.left, env) and self.untracked_expr(e.right, env)
        return False

    def target_key(self, t):
        return t.id if isinstance(t, ast.Name) else attr_key(t)

    def block(self, stmts, env, ctx, k):
        if not stmts:
            return k(env)
        s, rest = stmts[0], stmts[1:]
        if isinstance(s, ast.Try):
            return self.try_(s, rest, env, ctx, k)
        if isinstance(s, ast.Raise):
            return self.raise_(s, rest, env, ctx)
        if isinstance(s, ast.For) and self.loop_header(s) in self.abstract_loops:
            return self.abstract_loop(s, rest, env, ctx, k)
        if isinstance(s, ast.While) and self.hidden_assigned(s.body):
            raise self.err("observable effects inside a while loop", s)
        if isinstance(s, ast.Expr) and isinstance(s.value, ast.Call):
            f = self.eff_name(s.value.func, env) or call_name(s.value.func)
            if f is not None and f.startswith("super().") and ("super" in env or "super" in self.shadowed_extra):
                raise self.err("the name super is rebound", s)
            if (f == "print" and "print" not in env) or (f in self.silent and f not in self.effects):
                if f == "print" and "print" in self.shadowed_extra:
                    raise self.err("the module rebinds the builtin 'print'", s)
                if f != "print" and f.split(".")[0] in env and env[f.split(".")[0]] != "obj":
                    raise self.err("call through the local name %r" % f.split(".")[0], s)
                if not all(self.inert(a, env) for a in list(s.value.args) + [kw.value for kw in s.value.keywords]):
                    raise self.err("%s() of an expression that is not a plain value" % f, s)
                return self.block(rest, env, ctx, k)
            if self.submit and isinstance(s.value.func, ast.Call) and dotted(s.value.func.func) == self.submit.get("pool"):
                return self.submit_stmt(s, rest, env, ctx, k)
            if f in self.effects:
                return self.effect_stmt(s, self.effects[f], rest, env, ctx, k)
            m = mutation_of(s)
            if m and m[0] == "append" and attr_key(m[1]) in self.untracked_targets:
                # <untracked list>.append(E): E is evaluated for its effects, the list is outside the translation
                (_, _), pre = self.with_pre(lambda: self.expr(m[2][0], env))
                return self.wrap(pre, self.block(rest, env, ctx, k), ctx, env)
        if isinstance(s, ast.Assign) and len(s.targets) == 1:
            tgt = s.targets[0]
            key = self.target_key(tgt)
            if key in self.untracked_targets:
                if self.untracked_expr(s.value, env):
                    if isinstance(tgt, ast.Name) and tgt.id in env:
                        raise self.err("untracked target %r is a bound local" % tgt.id, s)
                    return self.block(rest, env, ctx, k)
                raise self.err("assignment to the untracked target %s from other than %s() / untracked values"
                               % (key, self.untracked_sources), s)
            if isinstance(tgt, (ast.Attribute, ast.Subscript)) and attr_key(tgt) and attr_key(tgt).split(".")[0] in self.owned \
                    and attr_key(tgt) not in [a for a, _ in self.writes]:
                return self.owned_write(s, tgt, rest, env, ctx, k)
            if isinstance(tgt, ast.Name) and isinstance(s.value, ast.Call) and self.eff_name(s.value.func, env) in self.effects \
                    and self.effects[self.eff_name(s.value.func, env)].new:
                # the local owns a new object: field assignments are functional updates until it is used as a value
                code = super().block(stmts[:1], env, ctx, lambda e: self.block_owned(tgt.id, s, rest, e, ctx, k))
                return code
        return super().block(stmts, env, ctx, k)

    def block_owned(self, name, s, rest, env, ctx, k):
        self.owned[name] = (s.lineno, len(self.loop_stack))
        return self.block(rest, env, ctx, k)

    def expr(self, n, env, want=None):
        # an owned object that is read as a value escapes (its fields are frozen from here on)
        if isinstance(n, ast.Name) and n.id in self.owned:
            self.use_object(n.id, n)
        return super().expr(n, env, want)

    def owned_write(self, s, tgt, rest, env, ctx, k):
        key = attr_key(tgt)
        name = key.split(".")[0]
        st = self.owned.get(name)
        if st == "escaped" or st is None:
            raise self.err("field of %r assigned after the object was used as a value (it may be shared)" % name, s)
        if st[1] != len(self.loop_stack) or env.get(name) not in self.records:
            raise self.err("field of the new object %r assigned in another loop than the one that created it" % name, s)
        rec = env[name]
        field = key[len(name):].lstrip(".")
        ft = dict(self.records[rec]).get(field)
        if ft is None:
            raise self.err("field %s of the record type %s has no declared type" % (field, rec), s)
        (c, _), pre = self.with_pre(lambda: self.expr(s.value, env, ft if ft in base.SCALARS or ft in self.tnames else None))
        if (rec, field) not in self.used_setters:
            self.used_setters.append((rec, field))
        if self.owned.get(name) != st:
            raise self.err("the new object %r is used as a value in the expression assigned to its own field" % name, s)
        inner = "let %s := (%s %s %s) in\n%s" % (mangle(name), self.set_name(rec, field), mangle(name), c,
                                                  self.block(rest, env, ctx, k))
        return self.wrap(pre, inner, ctx, env)

    def effect_stmt(self, s, e, rest, env, ctx, k):
        n = s.value
        if not e.sets:
            (_, _), pre = self.with_pre(lambda: self.effect_call(n, e, env))
            return self.wrap(pre, self.block(rest, env, ctx, k), ctx, env)
        (x, _), pre = self.with_pre(lambda: self.effect_call(n, e, env))
        env2 = dict(env)
        names = []
        for a in e.sets:
            v = attr_var(a)
            if v in self.appended:
                raise self.err("effect %s sets %s, a list this function modifies in place" % (e.name, a), s)
            env2[v] = dict(self.writes)[a]
            names.append(mangle(v))
        pat = names[0] if len(names) == 1 else "'(%s)" % ", ".join(names)
        inner = "let %s := %s in\n%s" % (pat, x, self.block(rest, env2, ctx, k))
        return self.wrap(pre, inner, ctx, env)

    def raise_(self, s, rest, env, ctx):
        if rest:
            raise self.err("unreachable statement after raise", rest[0])
        if s.cause is not None:
            raise self.err("raise ... from ...", s)
        if s.exc is None:
            caught = getattr(ctx, "caught", None)
            if caught is None:
                raise self.err("bare raise outside an except block (or inside a loop of one)", s)
            return self.raise_exc(ctx, caught, env, s)
        ex = s.exc
        if isinstance(ex, ast.Name) and env.get(ex.id) == "exc":
            return self.raise_exc(ctx, mangle(ex.id), env, s)
        cls = ex.func if isinstance(ex, ast.Call) else ex
        nm = dotted(cls)
        if nm is None or nm.split(".")[0] in env:
            raise self.err("raise of other than a named exception class", s)
        if isinstance(ex, ast.Call):
            if ex.keywords or not all(isinstance(a, ast.Constant) for a in ex.args):
                raise self.err("exception constructed from other than literal arguments", s)
        self.used_exc.add("new_exc")
        return self.raise_exc(ctx, '(new_exc "%s"%%string)' % nm, env, s)

    def handler_test(self, h, ecode, env):
        if h.type is None:
            return "true"
        classes = h.type.elts if isinstance(h.type, ast.Tuple) else [h.type]
        names = [dotted(c) for c in classes]
        if not names or any(nm is None or nm.split(".")[0] in env for nm in names):
            raise self.err("except clause with other than named exception classes", h)
        self.used_exc.add("isinst")
        tests = ['(isinst %s "%s"%%string)' % (ecode, nm) for nm in names]
        code = tests[-1]
        for t in reversed(tests[:-1]):
            code = "(orb %s %s)" % (t, code)
        return code

    def try_(self, s, rest, env, ctx, k):
        if s.finalbody or s.orelse:
            raise self.err("try with else / finally", s)
        if not s.handlers:
            raise self.err("try without handlers", s)
        for i, h in enumerate(s.handlers):
            if h.type is None and i != len(s.handlers) - 1:
                raise self.err("bare except that is not the last handler", h)
        for part in [s.body] + [h.body for h in s.handlers]:
            for st in part:
                for nd in ast.walk(st):
                    if isinstance(nd, (ast.For, ast.While)) and (self.can_raise(nd.body) or base.has_node(nd.body, (ast.Try,))):
                        raise self.err("a loop that can raise / contains a try inside a try statement", nd)
                    if isinstance(nd, (ast.With,)):
                        raise self.err("with inside try", nd)
        keep = list(env)
        cont = [None]

        def handler(ecode, env_h):
            code = self.raise_exc(ctx, ecode, env_h, s)             # no handler matches: the exception goes on
            for h in reversed(s.handlers):
                test = self.handler_test(h, ecode, env_h)
                hctx = copy.copy(ctx)
                hctx.caught = ecode
                env2 = dict(env_h)
                prefix = ""
                if h.name:
                    if h.name in env_h:
                        raise self.err("exception variable %r re-uses a bound name" % h.name, h)
                    env2[h.name] = "exc"
                    prefix = "let %s := %s in\n" % (mangle(h.name), ecode)
                body = prefix + self.block(list(h.body), env2, hctx,
                                           lambda e, nm=h.name: cont[0]({v: t for v, t in e.items() if v != nm}))
                if test == "true":
                    code = body
                else:
                    code = "if %s then\n%s\nelse\n%s" % (test, textwrap.indent(body, "  "), textwrap.indent(code, "  "))
            return code
        tctx = copy.copy(ctx)
        tctx.handler = handler

        def no_untracked(env_):
            if not self.partial:
                raise base._NeedPartial()
            raise self.err("an operation that can raise an untracked exception (IndexError, ZeroDivisionError ...) "
                           "inside a try statement", s)
        tctx.raise_ = no_untracked
        if not rest:
            cont[0] = lambda e: k({v: e[v] for v in e if v in keep})
        elif base.exits(s.body) + sum(base.exits(h.body) for h in s.handlers) <= 1:
            # one path falls out of the try statement: the rest follows it in place
            cont[0] = lambda e: self.block(rest, e, ctx, k)
        else:
            # several paths reach the rest: it becomes a definition of the locals that every one of them has bound
            # (with one type); a dry run collects them
            probes = []
            cont[0] = lambda e: (probes.append(dict(e)), "tt")[1]
            saved = (list(self.defs), self.nloop, self.ncont, self.nfresh, self.nexc, dict(self.owned))
            try:
                self.with_pre(lambda: self.block(list(s.body), env, tctx, cont[0]))
            finally:
                self.defs, self.nloop, self.ncont, self.nfresh, self.nexc, self.owned = saved
            env_k = {v: t for v, t in (probes[0] if probes else env).items() if all(q.get(v) == t for q in probes)}
            k2 = self.lift(rest, env_k, ctx, k)
            cont[0] = lambda e: k2({v: e[v] for v in env_k})
        return self.block(list(s.body), env, tctx, cont[0])

    def submit_stmt(self, s, rest, env, ctx, k):
        """the joblib idiom `Pool(<config>)(wrap(F)(x) for x in xs if cond)` (spec: "submit": {"pool": "Parallel", "wrap":
        "delayed", "call": "self.job.evaluate", "config": "<text of the keyword arguments>"}): the event
        `ev_submit <the elements x of xs, in order, for which cond holds at submission>`.  What the pool does with the
        submitted calls (threads, order of execution) is outside the translation; its configuration is pinned by text."""
        sub = self.submit
        outer, inner = s.value, s.value.func
        if sub.get("pool", "").split(".")[0] in env:
            raise self.err("the pool %s is a local name" % sub.get("pool"), s)
        if inner.args or ", ".join(ast.unparse(kw) for kw in inner.keywords) != sub.get("config"):
            raise self.err("the configuration of %s(...) is not the one the spec pins (%r)" % (sub.get("pool"), sub.get("config")), s)
        if outer.keywords or len(outer.args) != 1 or not isinstance(outer.args[0], ast.GeneratorExp):
            raise self.err("%s(...)(...) with other than one generator expression" % sub.get("pool"), s)
        g = outer.args[0]
        if len(g.generators) != 1 or getattr(g.generators[0], "is_async", 0) or not isinstance(g.generators[0].target, ast.Name):
            raise self.err("submission generator with several clauses / a tuple target", s)
        gen = g.generators[0]
        v = gen.target.id
        el = g.elt
        if not (isinstance(el, ast.Call) and isinstance(el.func, ast.Call) and dotted(el.func.func) == sub.get("wrap")
                and sub.get("wrap") not in env and len(el.func.args) == 1 and not el.func.keywords
                and dotted(el.func.args[0]) == sub.get("call") and len(el.args) == 1 and not el.keywords
                and isinstance(el.args[0], ast.Name) and el.args[0].id == v):
            raise self.err("submitted element is not %s(%s)(%s)" % (sub.get("wrap"), sub.get("call"), v), s)
        if v in env:
            raise self.err("generator variable %r shadows a bound name" % v, s)
        if "evlog" not in env:
            raise self.err("submission outside the scope of the event log", s)

        def build():
            xs, t = self.expr(gen.iter, env)
            if not base.is_list(t):
                raise self.err("submission over a value of type %s" % (t,), s)
            saved = self.loop_targets
            self.loop_targets = self.loop_targets | {v}
            try:
                conds = [self.no_partial(lambda c=c: self.expr(c, dict(env, **{v: t[1]}), "bool")[0], "a generator condition", s)
                         for c in gen.ifs]
            finally:
                self.loop_targets = saved
            self.submit_type = t[1]
            if not conds:
                return xs
            code = conds[-1]
            for c in reversed(conds[:-1]):
                code = "(andb %s %s)" % (c, code)
            return "(filter (fun %s => %s) %s)" % (mangle(v), code, xs)
        code, pre = self.with_pre(build)
        inner_code = "let evlog := (evlog ++ [ev_submit %s]) in\n%s" % (code, self.block(rest, env, ctx, k))
        return self.wrap(pre, inner_code, ctx, env)

    def abstract_loop(self, s, rest, env, ctx, k):
        """a designated loop that is translated on its own (body mode): one event per element, in order"""
        hdr = self.loop_header(s)
        nm = self.abstract_loops[hdr]
        if s.orelse or not isinstance(s.target, ast.Name) or "evlog" not in env:
            raise self.err("abstracted loop with an else branch / a tuple target", s)
        if base.has_node(s.body, (ast.Return, ast.Break, ast.Raise, ast.Try)) or self.can_raise(s.body):
            raise self.err("abstracted loop that can be left early (return / break / raise)", s)
        for nd in ast.walk(ast.Module(body=s.body, type_ignores=[])):
            if isinstance(nd, ast.Call) and self.eff_name(nd.func) in self.effects:
                raise self.err("abstracted loop that calls the effect %s" % self.eff_name(nd.func), nd)
        # the body may only assign fields of its loop variable and its own locals
        outer = set(env) - {"evlog"}
        for v in base.assigned_names(s.body):
            if v in outer:
                raise self.err("abstracted loop assigns %r, which lives outside it" % v, s)
        (lst, t), pre = self.with_pre(lambda: self.expr(s.iter, env))
        if not base.is_list(t):
            raise self.err("abstracted loop over a value of type %s" % (t,), s)
        self.abstracted[hdr] = t[1]
        inner = "let evlog := (evlog ++ map ev_loop_%s %s) in\n%s" % (nm, lst, self.block(rest, env, ctx, k))
        return self.wrap(pre, inner, ctx, env)

    def _translate(self):
        self.recv_rec = {}
        if not hasattr(self, "shadowed_extra"):
            self.shadowed_extra = set()
        text = super()._translate()
        for hdr in self.abstract_loops:
            if hdr not in self.abstracted:
                raise self.err("the abstracted loop `%s` does not occur (at the top level of a block)" % hdr, self.node)
        return text


def module_shadows_extra(tree, cls):
    old = base.INTERPRETED_BUILTINS
    base.INTERPRETED_BUILTINS = tuple(old) + EXTRA_BUILTINS
    try:
        return base.module_shadows(tree, cls) & set(EXTRA_BUILTINS)
    finally:
        base.INTERPRETED_BUILTINS = old


function_infos = base.function_infos
LAST_TRANSLATORS = {}


def translate_spec(repo, spec):
    """-> (coq text, [{"function", "sha1", "source"}]); raises Unsupported."""
    path = os.path.join(repo, spec["source"])
    src = open(path).read()
    tree = ast.parse(src, filename=path)
    lines = src.splitlines(keepends=True)
    done, parts, info, helpers = {}, [], [], set()
    for item in spec["functions"]:
        cls, name = item[0], item[1]
        qual = (cls + "." if cls else "") + name
        key = qual + ("#" + item[2] if len(item) > 2 else "")
        node = base.find_function(tree, cls or None, name, spec["source"])
        fs = base.function_source(lines, node)
        if qual not in [i["function"] for i in info]:
            info.append({"function": qual, "sha1": hashlib.sha1(fs.encode()).hexdigest(), "source": fs})
        fspec = spec.get("types", {}).get(key)
        if fspec is None:
            raise Unsupported("no typing for %s in the spec" % key)
        if fspec.get("mode") in ("guard", "body"):
            raise Unsupported("guard / body mode belongs to tools/py2coq.py (spec %s)" % key)
        ft = EffTranslator(spec["module"], cls or None, name, fspec, node, done)
        ft.shadowed_builtins = base.module_shadows(tree, cls)
        ft.shadowed_extra = module_shadows_extra(tree, cls)
        code = ft.translate()
        note = ""
        if ft.skipped:
            note = "\n(* NOT translated (designated by the spec; effects outside the result): %s *)" % "; ".join(
                "`%s` x%d" % (t.replace("*)", "* )"), c) for t, c in sorted(ft.skipped.items()))
        if ft.untracked_targets:
            note += "\n(* NOT translated: assignments of %s() to / appends to the untracked targets %s; print() *)" % (
                ", ".join(ft.untracked_sources) or "-", ", ".join(t.replace("*)", "* )") for t in ft.untracked_targets))
        if ft.abstracted:
            note += "\n(* abstracted loops (translated on their own, here one event per element): %s *)" % "; ".join(sorted(ft.abstracted))
        parts.append("(* %s.%s, lines %d-%d of %s, sha1 %s *)%s\n%s" % (
            cls or "<module>", name, node.lineno, node.end_lineno, spec["source"], hashlib.sha1(fs.encode()).hexdigest(), note, code))
        helpers |= ft.ghelpers
        done[key] = ft
        LAST_TRANSLATORS[key] = ft
    head = ("(* GENERATED by tools/py2coq_eff.py (front-end of tools/py2coq.py) from %s - never edit, never commit.\n"
            "   Shallow Gallina definitions of: %s. *)\n"
            "From Coq Require Import String.\nFrom Coq Require Import List ZArith Bool Arith Floats.\nImport ListNotations.\n\n"
            % (spec["source"], ", ".join(i["function"] for i in info)))
    head += EFF_HELPERS["py_outcome"] + "\n\n"
    head += "".join(base.GLOBAL_HELPERS[h] + "\n\n" for h in sorted(helpers))
    return head + "\n\n".join(parts) + "\n", info


def main(argv):
    import argparse
    ap = argparse.ArgumentParser(description=__doc__.split("\n")[0])
    ap.add_argument("--repo", default=os.environ.get("VERIF_REPO", "/repo"))
    ap.add_argument("--spec", required=True)
    ap.add_argument("--out", default="-")
    ap.add_argument("--write-reference", metavar="DIR", default=None)
    a = ap.parse_args(argv)
    spec = json.load(open(a.spec))
    if a.write_reference:
        for i in function_infos(a.repo, spec):
            open(os.path.join(a.write_reference, i["function"] + ".py.txt"), "w").write(i["source"])
        return 0
    try:
        text, info = translate_spec(a.repo, spec)
    except Unsupported as e:
        sys.stderr.write("py2coq_eff: %s\n" % e)
        return 2
    except SyntaxError as e:
        sys.stderr.write("py2coq_eff: the source does not parse: %s\n" % e)
        return 2
    if a.out == "-":
        sys.stdout.write(text)
    else:
        open(a.out, "w").write(text)
    return 0


if __name__ == "__main__":
    sys.exit(main(sys.argv[1:]))
