#!/usr/bin/env python3
"""Regenerates /verif/MANIFEST.json from the per-property harness modules."""
import importlib
import json
import os
import sys

HERE = os.path.dirname(os.path.dirname(os.path.abspath(__file__)))
sys.path.insert(0, HERE)
def technique(m):
    base = "machine-checked proof in Coq 8.16: theorems about a hand-written executable Gallina model"
    tie = "; model tied to the code on every run by a differential correspondence check (model evaluated by vm_compute on the inputs the implementation ran, results compared) and a direct property oracle that searches for the failing input (both run twice: under the normal interpreter and under python -O)"
    tr = getattr(m, "TRANSLATED", None)
    if tr:
        n = sum(len(e.get("theorems", [])) for e in tr) if isinstance(tr, list) and tr and isinstance(tr[0], dict) else len(tr)
        tie += ", and by a source-to-Gallina translator (tools/py2coq*.py) that regenerates the definitions of the core functions from /repo on every run and re-checks the committed theorems that they equal the model (%d equivalence obligations)" % n
    return base + tie


props = [json.loads(l) for l in open(os.path.join(HERE, "properties.jsonl"))]
checks, na = [], []
# only properties the lead has run end to end on the unchanged tree are registered
READY = set(open(os.path.join(HERE, "tools", "ready.txt")).read().split())
for p in props:
    pid = p["id"]
    path = os.path.join(HERE, "harness", pid.lower() + ".py")
    if not os.path.exists(path) or pid not in READY:
        na.append({"property_id": pid, "reason": "no check registered yet: model and proofs for this property are not built in the committed tree"})
        continue
    m = importlib.import_module("harness." + pid.lower())
    if getattr(m, "NOT_APPLICABLE", None):
        na.append({"property_id": pid, "reason": m.NOT_APPLICABLE})
        continue
    checks.append({
        "property_id": pid,
        "quick_cmd": "./check %s --tier quick" % pid,
        "thorough_cmd": "./check %s --tier thorough" % pid,
        "evidence_file": "/verif/evidence/%s.json" % pid,
        "replay_cmd_template": "./check %s --replay {path}" % pid,
        "engine": "coq-proof+correspondence",
        "level_claimed": {"category": "proof", "text": m.LEVEL_TEXT, "design_ref": getattr(m, "DESIGN_REF", "DESIGN.md section 6." + pid)},
        "level_note": m.LEVEL_NOTE,
        "technique": getattr(m, "TECHNIQUE", technique(m)),
    })
man = {
    "version": 1,
    "setup_cmd": "cd /verif && ./setup.sh",
    "hooks": {"guard": "ARTAP_VERIF", "enable": "no hooks in /repo: all observation is harness-side (monkeypatching under ./check, which exports ARTAP_VERIF=1)",
              "baseline_off_cmd": "cd /repo && /venv/bin/python -m pytest -ra -q -p no:cacheprovider --timeout=900 --continue-on-collection-errors",
              "source_commits": [], "add_only": True},
    "engines": [{"name": "coq-proof+correspondence", "path": "/verif/coq", "serves_properties": [c["property_id"] for c in checks],
                 "kind_free_text": "Coq 8.16.1 development (theories/Model, Proofs, Props, Run, GenProofs) + Python harness (harness/*.py) that evaluates the model with coqc/vm_compute on the inputs the implementation ran + source-to-Gallina translator (tools/py2coq*.py) whose output is proved equal to the model on every run"}],
    "checks": checks,
    "not_applicable": na,
    "notes": "See DESIGN.md (sections 11 and 12 for what was built). Each check: (1) .vo build of its targets + Print Assumptions whitelist + forbidden-vernacular scan, (2) translated obligations: the core functions are re-translated from /repo and proved equal to the model, (3) correspondence model vs /repo working tree, (4) direct property oracle on the implementation for failing inputs; KNOWN_FINDINGS.json lists open/fixed findings (open: F10 C15 Perm overflow, F13 C14 neighbour re-drawn after a transient failure).",
}
json.dump(man, open(os.path.join(HERE, "MANIFEST.json"), "w"), indent=1)
print("checks:", [c["property_id"] for c in checks], "not_applicable:", [n["property_id"] for n in na])
