#!/usr/bin/env python3
"""Regenerates /verif/MANIFEST.json from the per-property harness modules."""
import importlib
import json
import os
import sys

HERE = os.path.dirname(os.path.dirname(os.path.abspath(__file__)))
sys.path.insert(0, HERE)
props = [json.loads(l) for l in open(os.path.join(HERE, "properties.jsonl"))]
checks, na = [], []
# only properties the lead has run end to end on the unchanged tree are registered
READY = set(open(os.path.join(HERE, "tools", "ready.txt")).read().split())
for p in props:
    pid = p["id"]
    path = os.path.join(HERE, "harness", pid.lower() + ".py")
    if not os.path.exists(path) or pid not in READY:
        na.append({"property_id": pid, "reason": "no check registered yet: model and proofs for this property are not built in the committed tree"})
        continue
    m = importlib.import_module("harness." + pid.lower())
    if getattr(m, "NOT_APPLICABLE", None):
        na.append({"property_id": pid, "reason": m.NOT_APPLICABLE})
        continue
    checks.append({
        "property_id": pid,
        "quick_cmd": "./check %s --tier quick" % pid,
        "thorough_cmd": "./check %s --tier thorough" % pid,
        "evidence_file": "/verif/evidence/%s.json" % pid,
        "replay_cmd_template": "./check %s --replay {path}" % pid,
        "engine": "coq-proof+correspondence",
        "level_claimed": {"category": "proof", "text": m.LEVEL_TEXT, "design_ref": getattr(m, "DESIGN_REF", "DESIGN.md section 6." + pid)},
        "level_note": m.LEVEL_NOTE,
        "technique": getattr(m, "TECHNIQUE", "Coq 8.16 theorems about a hand-written Gallina model; model tied to the code by a differential correspondence check (vm_compute vs implementation)"),
    })
man = {
    "version": 1,
    "setup_cmd": "cd /verif && ./setup.sh",
    "hooks": {"guard": "ARTAP_VERIF", "enable": "no hooks in /repo: all observation is harness-side (monkeypatching under ./check, which exports ARTAP_VERIF=1)",
              "baseline_off_cmd": "cd /repo && /venv/bin/python -m pytest -ra -q -p no:cacheprovider --timeout=900 --continue-on-collection-errors",
              "source_commits": [], "add_only": True},
    "engines": [{"name": "coq-proof+correspondence", "path": "/verif/coq", "serves_properties": [c["property_id"] for c in checks],
                 "kind_free_text": "Coq 8.16.1 development (theories/Model, Proofs, Props, Run) + Python harness (harness/*.py) that evaluates the model with coqc/vm_compute on the inputs the implementation ran"}],
    "checks": checks,
    "not_applicable": na,
    "notes": "See DESIGN.md. Each check: (1) full .vo build + Print Assumptions whitelist + forbidden-vernacular scan, (2) correspondence model vs /repo working tree, (3) direct property oracle on the implementation for failing inputs; KNOWN_FINDINGS.json lists open/fixed findings.",
}
json.dump(man, open(os.path.join(HERE, "MANIFEST.json"), "w"), indent=1)
print("checks:", [c["property_id"] for c in checks], "not_applicable:", [n["property_id"] for n in na])
