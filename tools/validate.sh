#!/bin/bash
# validates MANIFEST.json and every evidence file against the task's schemas
cd "$(dirname "$0")/.."
python3-vt - <<'PY'
import json, jsonschema, glob, sys
ok = True
man = json.load(open("MANIFEST.json"))
jsonschema.validate(man, json.load(open("/root/.vp/MANIFEST.schema.json")))
props = [json.loads(l)["id"] for l in open("properties.jsonl")]
claimed = [c["property_id"] for c in man["checks"]]
na = [n["property_id"] for n in man["not_applicable"]]
assert sorted(claimed + na) == sorted(props), (claimed, na)
print("MANIFEST ok: claimed", claimed, "not_applicable", na)
es = json.load(open("/root/.vp/EVIDENCE.schema.json"))
for c in man["checks"]:
    f = c["evidence_file"]
    try:
        jsonschema.validate(json.load(open(f)), es); print(f, "ok")
    except Exception as e:
        ok = False; print(f, "INVALID:", str(e)[:300])
sys.exit(0 if ok else 1)
PY
