#!/usr/bin/env python3
"""py2coq_np: front-end of tools/py2coq.py for the numpy-array code of artap (doe.py designs, quality_indicator.py,
the prime sieve).  Routed by `"frontend": "np"` in a spec (py2coq._frontend loads this file by path); same spec
format and entry points as the other front-ends (translate_spec, function_infos).

Reading of the source (everything else is `Unsupported`, never a guess):
* integers (counters, sizes, indices, levels) are `nat`: `-` is the truncated subtraction, `//` and `%` are `/` and
  `mod` (x / 0 = 0 where Python raises), `|` `&` are Nat.lor / Nat.land, a bool used as a number is 1 / 0,
  `int(n ** 0.5)` is `Nat.sqrt n`, `int(x)` of an integer is x;
* a Python list is a Coq list; `l * k` is `list_rep l k`, `+` is `++`, `l[i]` is the total `nth i l d`;
* a numpy array is a list (1-d) or a list of rows (2-d).  Elements of the float arrays of doe.py are the small
  integers the code stores in them, type Z; `np.zeros((r, c))`, `np.ones(n, dtype=bool)`, `H[:, i] = v`
  (np_setcol), `H[a:b, i] = v` (np_setcol_rows), `s[a::k] = c` (np_set_stride), `A[:, j]` (np_col), `A.shape[0]`,
  `np.nonzero(s)[0]`, `np.r_[...]`, `np.c_[A.T, B.T].T` (= rows of A then rows of B), `np.prod`, scalar-array
  arithmetic elementwise (nested `map`);
* `T` is the abstract numeric type of quality_indicator.py (Section variables ltb sub add mul div sqrtT ofNat zero),
  `E` = T plus `np.inf`; `max(a, b)` / `min(a, b)` / `max(list)` are CPython's (the later argument only if strictly
  better), `np.subtract`, `spatial.distance.cdist(.., metric='euclidean')`, `np.nanmin(.., axis=0)`, `np.sum`;
* `for` over `range` / a list is `fold_left` over `seq` / the list with the tuple of the locals that are bound
  before the loop and assigned in it (order of first assignment in the body); `if` with assignments is joined;
  `assert c` makes the result an option (None = AssertionError); `return` only as the last statement.
"""
import ast
import hashlib
import importlib.util
import json
import os
import re
import sys
import textwrap

HERE = os.path.dirname(os.path.abspath(__file__))


def _load_base():
    path = os.path.join(HERE, "py2coq.py")
    for m in list(sys.modules.values()):
        f = getattr(m, "__file__", None)
        if f and os.path.abspath(f) == path and hasattr(m, "Unsupported") and hasattr(m, "find_function"):
            return m
    spec = importlib.util.spec_from_file_location("py2coq_base_for_np", path)
    m = importlib.util.module_from_spec(spec)
    spec.loader.exec_module(m)
    return m


B = _load_base()
Unsupported = B.Unsupported
find_function, function_source, function_infos = B.find_function, B.function_source, B.function_infos

PRELUDE = r"""From Coq Require Import List ZArith QArith Qround Bool Arith.
Import ListNotations.
Local Open Scope nat_scope.

(* ---- prelude of tools/py2coq_np.py: the meaning given to the list / numpy idioms ---- *)
Definition np_prod (l : list nat) : nat := fold_left Nat.mul l 1.
Definition np_zeros2 (r c : nat) : list (list Z) := repeat (repeat 0%Z c) r.
Definition list_rep {A} (l : list A) (k : nat) : list A := concat (repeat l k).
Fixpoint list_upd {A} (i : nat) (v : A) (l : list A) : list A :=
  match l with
  | [] => []
  | h :: t => match i with 0 => v :: t | S i' => h :: list_upd i' v t end
  end.
(* H[:, i] = v  (numpy raises unless len v = number of rows, or 1) *)
Definition np_setcol {A} (d : A) (H : list (list A)) (i : nat) (v : list A) : list (list A) :=
  map (fun p => list_upd i (nth (fst p) v d) (snd p)) (combine (seq 0 (length H)) H).
(* H[a:b, i] = v *)
Definition np_setcol_rows {A} (d : A) (H : list (list A)) (a b i : nat) (v : list A) : list (list A) :=
  map (fun p => if (a <=? fst p) && (fst p <? b) then list_upd i (nth (fst p - a) v d) (snd p) else snd p)
      (combine (seq 0 (length H)) H).
Fixpoint np_hstack {A} (X Y : list (list A)) : list (list A) :=
  match X, Y with a :: X', b :: Y' => (a ++ b) :: np_hstack X' Y' | _, _ => [] end.
Definition np_col {A} (d : A) (H : list (list A)) (j : nat) : list A := map (fun row => nth j row d) H.
(* l[start::step] = v, positions counted from idx *)
Fixpoint np_set_stride {A} (idx start step : nat) (v : A) (l : list A) : list A :=
  match l with
  | [] => []
  | b :: t => (if (start <=? idx) && ((idx - start) mod step =? 0) then v else b)
              :: np_set_stride (S idx) start step v t
  end.
Fixpoint np_nonzero_from (idx : nat) (l : list bool) : list nat :=
  match l with
  | [] => []
  | b :: t => if b then idx :: np_nonzero_from (S idx) t else np_nonzero_from (S idx) t
  end.
Definition py_max_nat (l : list nat) : nat := match l with [] => 0 | x :: xs => fold_left Nat.max xs x end.
Definition py_min_nat (l : list nat) : nat := match l with [] => 0 | x :: xs => fold_left Nat.min xs x end.
(* CPython max / min: the later argument only if strictly better *)
Definition py_max {A} (ltb : A -> A -> bool) (a b : A) : A := if ltb a b then b else a.
Definition py_min {A} (ltb : A -> A -> bool) (a b : A) : A := if ltb b a then b else a.
Definition py_max_list {A} (ltb : A -> A -> bool) (d : A) (l : list A) : A :=
  match l with [] => d | x :: xs => fold_left (py_max ltb) xs x end.          (* max([]) raises ValueError *)
Definition py_min_list {A} (ltb : A -> A -> bool) (d : A) (l : list A) : A :=
  match l with [] => d | x :: xs => fold_left (py_min ltb) xs x end.
Inductive ext (A : Type) := Fin (a : A) | PInf.                               (* a number or np.inf *)
Arguments Fin {A} a.
Arguments PInf {A}.
Definition ext_ltb {A} (ltb : A -> A -> bool) (x y : ext A) : bool :=
  match x, y with Fin a, Fin b => ltb a b | Fin _, PInf => true | PInf, _ => false end.
Definition np_subtract {A} (sub : A -> A -> A) (a b : list A) : list A :=
  map (fun p => sub (fst p) (snd p)) (combine a b).
Definition np_sum {A} (add : A -> A -> A) (zero : A) (l : list A) : A := fold_left add l zero.
(* scipy.spatial.distance.cdist(XA, XB, metric='euclidean'): one row per point of XA *)
Definition np_euclid {A} (add sub mul : A -> A -> A) (sqrtT : A -> A) (zero : A) (a b : list A) : A :=
  sqrtT (np_sum add zero (map (fun p => mul (sub (fst p) (snd p)) (sub (fst p) (snd p))) (combine a b))).
Definition np_cdist {A} (add sub mul : A -> A -> A) (sqrtT : A -> A) (zero : A) (XA XB : list (list A)) : list (list A) :=
  map (fun a => map (fun b => np_euclid add sub mul sqrtT zero a b) XB) XA.
Fixpoint np_map2 {A} (f : A -> A -> A) (l1 l2 : list A) : list A :=
  match l1, l2 with a :: l1', b :: l2' => f a b :: np_map2 f l1' l2' | _, _ => [] end.
(* np.nanmin(m, axis=0) without NaNs: the minimum of every column (raises on zero rows) *)
Definition np_nanmin0 {A} (minT : A -> A -> A) (m : list (list A)) : list A :=
  match m with [] => [] | row :: rows => fold_left (np_map2 minT) rows row end.
"""

SECTION_HEAD = """Section Gen.
  Variable T : Type.
  Variable ltb : T -> T -> bool.
  Variables add sub mul div minT : T -> T -> T.
  Variable sqrtT : T -> T.
  Variable ofNat : nat -> T.
  Variable zero : T.
"""

RESERVED = set("""
T E Z N R O S I nat bool list option Some None true false fst snd pair unit tt if then else let in match with end fun
forall exists as at return Type Prop Set fix cofix struct where using Definition Record Section End Variable Context
Fixpoint nth skipn firstn repeat length fold_left map seq combine app rev concat Nat Bool List Fin PInf ext ltb add sub
mul div minT sqrtT ofNat zero st_ p_ np_prod np_zeros2 list_rep list_upd np_setcol np_setcol_rows np_col np_set_stride
np_nonzero_from py_max_nat py_min_nat py_max py_min py_max_list py_min_list ext_ltb np_subtract np_sum np_euclid np_cdist
np_map2 np_nanmin0 negb andb orb np_hstack row_ rev
""".split())


def mangle(name):
    if name in RESERVED or name.endswith("_") or re.fullmatch(r"e\d+_", name):
        return name + "_"
    return name


# ----------------------------------------------------------------------------------------------
# types: "nat" "bool" "Z" "T" "E" | "list X" | "arr1 X" | "arr2 X" | "list ?"
def is_list(t):
    return t.startswith("list ")


def is_arr(t):
    return t.startswith("arr1 ") or t.startswith("arr2 ")


def elem(t):
    return t.split(" ", 1)[1]


def strip_parens(t):
    t = t.strip()
    while t.startswith("(") and t.endswith(")"):
        t = t[1:-1].strip()
    return t


def norm_type(t):
    t = t.strip()
    for h in ("list ", "arr1 ", "arr2 "):
        if t.startswith(h):
            return h + norm_type(strip_parens(t[len(h):]))
    return strip_parens(t)


def seq_elem(t):
    """element type of a sequence type (list X -> X, arr1 X -> X, arr2 X -> arr1 X)"""
    if t.startswith("arr2 "):
        return "arr1 " + elem(t)
    e = elem(t)
    return norm_type(e)


def coq_type(t):
    if t.startswith("arr2 "):
        return "list (list %s)" % coq_type(elem(t))
    if t.startswith("arr1 ") or t.startswith("list "):
        e = coq_type(norm_type(elem(t)))
        return "list %s" % (e if " " not in e else "(%s)" % e)
    if t == "E":
        return "ext T"
    return t


def default_of(t):
    return {"nat": "0", "Z": "0%Z", "bool": "false", "T": "zero", "E": "PInf", "Q": "0%Q"}.get(t) or (
        "[]" if is_list(t) or is_arr(t) else None)


class _Later(Exception):
    """type of a name not known yet (pre-pass)"""


class ModuleInfo:
    """what the names np / spatial / math mean in the module (plain top-level imports only)"""

    def __init__(self, tree):
        self.alias = {}
        for st in tree.body:
            if isinstance(st, ast.Import):
                for a in st.names:
                    self.alias[a.asname or a.name.split(".")[0]] = a.name
            elif isinstance(st, ast.ImportFrom) and st.module and st.level == 0:
                for a in st.names:
                    if a.name != "*":
                        self.alias[a.asname or a.name] = st.module + "." + a.name
        bound = set()
        for st in tree.body:
            if isinstance(st, (ast.FunctionDef, ast.ClassDef)):
                bound.add(st.name)
            elif isinstance(st, ast.Assign):
                for t in st.targets:
                    for n in ast.walk(t):
                        if isinstance(n, ast.Name):
                            bound.add(n.id)
        self.bound = bound
        self.shadows = set(B.module_shadows(tree, None)) if hasattr(B, "module_shadows") else set()

    def dotted(self, node):
        """'numpy.prod' for np.prod etc., None for anything that is not a dotted path rooted in an import"""
        parts = []
        while isinstance(node, ast.Attribute):
            parts.append(node.attr)
            node = node.value
        if not isinstance(node, ast.Name) or node.id not in self.alias or node.id in self.bound:
            return None
        return ".".join([self.alias[node.id]] + parts[::-1])


class NpTranslator:
    def __init__(self, minfo, name, fspec, node, done, numeric=False):
        self.m, self.name, self.spec, self.node, self.done = minfo, name, fspec, node, done
        self.numeric = numeric
        self.coq = fspec.get("as", name.lstrip("_") + "_gen")
        self.fixed = fspec.get("fixed", {})
        self.vt = {}            # local -> type
        self.fresh = 0
        self.option = False
        self.params = []
        self.ret = None

    def bad(self, what, node=None):
        return Unsupported(what, node, self.name)

    # ---- expressions ---------------------------------------------------------------------
    def var(self, name, node):
        if name not in self.vt:
            raise _Later(name)
        return mangle(name), self.vt[name]

    def coerce(self, text, t, to, node=None):
        if t == to:
            return text
        if t == "list ?" and (is_list(to) or is_arr(to)):
            return text
        if t == "nat" and to == "Z":
            return "Z.of_nat %s" % text if re.fullmatch(r"\w+", text) else "Z.of_nat (%s)" % text
        if t == "bool" and to == "nat":
            return "(if %s then 1 else 0)" % text
        if t == "T" and to == "E":
            return "(Fin %s)" % text
        if t == "list nat" and to == "arr1 Z":
            return "(map Z.of_nat %s)" % text
        if t == "list nat" and to == "arr1 nat" or t == "arr1 nat" and to == "list nat":
            return text
        if is_list(t) and to == "arr1 " + elem(t):
            return text
        if t == "nat" and to == "Q":
            return "(inject_Z (Z.of_nat %s))" % text
        if t == "nat" and to == "T":
            return "(ofNat %s)" % text
        raise self.bad("a value of type %s where %s is needed (`%s`)" % (t, to, text), node)

    def join(self, a, b, node=None):
        if a == b:
            return a
        if a == "list ?" and (is_list(b) or is_arr(b)):
            return b
        if b == "list ?" and (is_list(a) or is_arr(a)):
            return a
        if {a, b} == {"T", "E"}:
            return "E"
        raise self.bad("one local with the types %s and %s" % (a, b), node)

    def nat(self, node):
        s, t = self.expr(node)
        return self.coerce(s, t, "nat", node)

    def elementwise(self, arr, arr_t, body):
        """body: function of the element text -> (text, elem type); nested map over the array"""
        self.fresh += 1
        v = "e%d_" % self.fresh
        btxt, bt = body(v, elem(arr_t))
        inner = "(fun %s => %s)" % (v, btxt)
        if arr_t.startswith("arr2 "):
            return "(map (map %s) %s)" % (inner, arr), "arr2 " + bt
        return "(map %s %s)" % (inner, arr), "arr1 " + bt

    def scalar_binop(self, op, a, ta, b, tb, node):
        """binary operator on scalars; ints are nat unless one side is Z"""
        if isinstance(op, ast.BitOr) or isinstance(op, ast.BitAnd):
            if ta == "nat" and tb == "nat":
                return "(Nat.%s %s %s)" % ("lor" if isinstance(op, ast.BitOr) else "land", self.atom(a), self.atom(b)), "nat"
            raise self.bad("bit operator on %s, %s" % (ta, tb), node)
        if ta == "bool":
            a, ta = self.coerce(a, ta, "nat"), "nat"
        if tb == "bool":
            b, tb = self.coerce(b, tb, "nat"), "nat"
        if ta == "nat" and tb == "nat" and isinstance(op, ast.Div) and not self.numeric:
            # true division of two integers: a float, read as an exact rational
            return "(%s / %s)%%Q" % (self.coerce(a, "nat", "Q"), self.coerce(b, "nat", "Q")), "Q"
        if ta == "nat" and tb == "nat":
            sym = {ast.Add: "+", ast.Sub: "-", ast.Mult: "*", ast.FloorDiv: "/", ast.Mod: "mod"}.get(type(op))
            if sym is None:
                raise self.bad("operator %s on integers" % type(op).__name__, node)
            return "(%s %s %s)" % (a, sym, b), "nat"
        if {ta, tb} <= {"nat", "Z"}:
            sym = {ast.Add: "+", ast.Sub: "-", ast.Mult: "*"}.get(type(op))
            if sym is None:
                raise self.bad("operator %s on array elements" % type(op).__name__, node)
            return "(%s %s %s)%%Z" % (self.coerce(a, ta, "Z"), sym, self.coerce(b, tb, "Z")), "Z"
        if {ta, tb} <= {"nat", "Q"} and "Q" in (ta, tb):
            sym = {ast.Add: "+", ast.Sub: "-", ast.Mult: "*", ast.Div: "/"}.get(type(op))
            if sym is None:
                raise self.bad("operator %s on floats (read as exact rationals)" % type(op).__name__, node)
            return "(%s %s %s)%%Q" % (self.coerce(a, ta, "Q"), sym, self.coerce(b, tb, "Q")), "Q"
        if {ta, tb} <= {"nat", "T"}:
            f = {ast.Add: "add", ast.Sub: "sub", ast.Mult: "mul", ast.Div: "div"}.get(type(op))
            if f is None:
                raise self.bad("operator %s on numbers" % type(op).__name__, node)
            return "(%s %s %s)" % (f, self.atom(self.coerce(a, ta, "T")), self.atom(self.coerce(b, tb, "T"))), "T"
        raise self.bad("operator %s on %s and %s" % (type(op).__name__, ta, tb), node)

    @staticmethod
    def atom(s):
        return s if re.fullmatch(r"[\w.%]+|\(.*\)|\[.*\]", s) else "(%s)" % s

    def const_str(self, node):
        """a string constant, or a parameter fixed to a string by the spec"""
        if isinstance(node, ast.Constant) and isinstance(node.value, str):
            return node.value
        if isinstance(node, ast.Name) and isinstance(self.fixed.get(node.id), dict) and "str" in self.fixed[node.id]:
            return self.fixed[node.id]["str"]
        return None

    def expr(self, n):
        m = self.m
        if isinstance(n, ast.Name):
            if isinstance(self.fixed.get(n.id), dict):
                raise self.bad("the statically fixed parameter %s used as a value" % n.id, n)
            return self.var(n.id, n)
        if isinstance(n, ast.Constant):
            v = n.value
            if v is True or v is False:
                return ("true" if v else "false"), "bool"
            if isinstance(v, int) and v >= 0:
                return str(v), "nat"
            if isinstance(v, float) and self.numeric:
                if v == 0.0 and str(v) == "0.0":
                    return "zero", "T"
                raise self.bad("float literal %r in a module over the abstract numeric type" % (v,), n)
            if isinstance(v, float) and v == v and abs(v) != float("inf"):
                from fractions import Fraction
                fr = Fraction(repr(v))          # the decimal Python prints for the literal, exactly
                if fr < 0:
                    raise self.bad("negative float literal", n)
                return "(%d # %d)%%Q" % (fr.numerator, fr.denominator), "Q"
            raise self.bad("literal %r" % (v,), n)
        if isinstance(n, ast.Attribute):
            d = m.dotted(n)
            if d == "numpy.inf":
                return "PInf", "E"
            raise self.bad("attribute %s" % ast.unparse(n), n)
        if isinstance(n, ast.List):
            if not n.elts:
                return "[]", "list ?"
            parts = [self.expr(e) for e in n.elts]
            t = parts[0][1]
            for _, t2 in parts[1:]:
                t = self.join(t, t2, n)
            return "[%s]" % "; ".join(self.coerce(s, t1, t, n) for s, t1 in parts), "list " + (t if " " not in t else "(%s)" % t)
        if isinstance(n, ast.BinOp):
            # int(n ** 0.5) is handled at the call; here the general cases
            a, ta = self.expr(n.left)
            b, tb = self.expr(n.right)
            ta, tb = norm_type(ta), norm_type(tb)
            if is_list(ta) and tb == "nat" and isinstance(n.op, ast.Mult):
                return "(list_rep %s %s)" % (self.atom(a), self.atom(b)), ta
            if is_list(ta) and is_list(tb) and isinstance(n.op, ast.Add):
                t = self.join(ta, tb, n)
                return "(%s ++ %s)" % (a, b), t
            if is_arr(ta) and not is_arr(tb) and not is_list(tb):
                return self.elementwise(a, ta, lambda v, et: self.scalar_binop(n.op, v, et, b, tb, n))
            if is_arr(tb) and not is_arr(ta) and not is_list(ta):
                return self.elementwise(b, tb, lambda v, et: self.scalar_binop(n.op, a, ta, v, et, n))
            if is_arr(ta) or is_arr(tb) or is_list(ta) or is_list(tb):
                raise self.bad("operator %s on %s and %s" % (type(n.op).__name__, ta, tb), n)
            return self.scalar_binop(n.op, a, ta, b, tb, n)
        if isinstance(n, ast.UnaryOp) and isinstance(n.op, ast.USub):
            a, ta = self.expr(n.operand)
            if is_arr(ta) and elem(ta) == "Z":
                return self.elementwise(a, ta, lambda v, et: ("(- %s)%%Z" % v, "Z"))
            if ta == "Z":
                return "(- %s)%%Z" % a, "Z"
            raise self.bad("unary minus on a %s" % ta, n)
        if isinstance(n, ast.Compare):
            if len(n.ops) != 1:
                raise self.bad("chained comparison", n)
            op, r = n.ops[0], n.comparators[0]
            if isinstance(op, (ast.Is, ast.IsNot)) and isinstance(r, ast.Constant) and r.value is None \
                    and isinstance(n.left, ast.Name) and self.fixed.get(n.left.id) in ("None", "not None"):
                isnone = self.fixed[n.left.id] == "None"
                return ("true" if isnone == isinstance(op, ast.Is) else "false"), "bool"
            a, ta = self.expr(n.left)
            b, tb = self.expr(r)
            if ta == "bool":
                a, ta = self.coerce(a, ta, "nat"), "nat"
            if tb == "bool":
                b, tb = self.coerce(b, tb, "nat"), "nat"
            if ta == "nat" and tb == "nat":
                tab = {ast.Eq: "(%s =? %s)", ast.Lt: "(%s <? %s)", ast.LtE: "(%s <=? %s)", ast.NotEq: "(negb (%s =? %s))"}
                if type(op) in tab:
                    return tab[type(op)] % (a, b), "bool"
                if isinstance(op, ast.Gt):
                    return "(%s <? %s)" % (b, a), "bool"
                if isinstance(op, ast.GtE):
                    return "(%s <=? %s)" % (b, a), "bool"
            raise self.bad("comparison %s on %s and %s" % (type(op).__name__, ta, tb), n)
        if isinstance(n, ast.Subscript):
            return self.subscript(n)
        if isinstance(n, ast.Call):
            return self.call(n)
        raise self.bad("expression %s" % type(n).__name__, n)

    def is_T_attr(self, n):
        return isinstance(n, ast.Attribute) and n.attr == "T" and m_is_value(n.value)

    def subscript(self, n):
        m = self.m
        base, sl = n.value, n.slice
        d = m.dotted(base)
        if d == "numpy.r_":
            elts = sl.elts if isinstance(sl, ast.Tuple) else [sl]
            parts, t = [], None
            for e in elts:
                s, te = self.expr(e)
                if is_arr(te) or is_list(te):
                    parts.append(s)
                    te = elem(te)
                else:
                    parts.append("[%s]" % s)
                t = te if t is None else self.join(t, te, n)
            return "(%s)" % " ++ ".join(parts), "arr1 " + t
        # np.c_[A.T, B.T].T is written as an Attribute over this Subscript: see call/attribute handling in expr_T
        if isinstance(base, ast.Attribute) and base.attr == "shape" and isinstance(sl, ast.Constant) and sl.value == 0:
            s, t = self.expr(base.value)
            if not is_arr(t):
                raise self.bad(".shape of %s" % t, n)
            return "(length %s)" % s, "nat"
        # np.nonzero(s)[0]
        if isinstance(base, ast.Call) and m.dotted(base.func) == "numpy.nonzero" and isinstance(sl, ast.Constant) and sl.value == 0 \
                and len(base.args) == 1 and not base.keywords:
            s, t = self.expr(base.args[0])
            if t != "arr1 bool":
                raise self.bad("np.nonzero of %s" % t, n)
            return "(np_nonzero_from 0 %s)" % s, "arr1 nat"
        s, t = self.expr(base)
        t = norm_type(t)
        if isinstance(sl, ast.Tuple):
            if t.startswith("arr2 ") and len(sl.elts) == 2 and isinstance(sl.elts[0], ast.Slice) \
                    and sl.elts[0].lower is None and sl.elts[0].upper is None and sl.elts[0].step is None \
                    and isinstance(sl.elts[1], ast.Slice) and sl.elts[1].step is None \
                    and sl.elts[1].lower is not None and sl.elts[1].upper is not None:
                lo, up = self.nat(sl.elts[1].lower), self.nat(sl.elts[1].upper)          # A[:, lo:up]
                return "(map (fun row_ => firstn (%s - %s) (skipn %s row_)) %s)" % (up, lo, self.atom(lo), s), t
            if t.startswith("arr2 ") and len(sl.elts) == 2 and isinstance(sl.elts[0], ast.Slice) \
                    and sl.elts[0].lower is None and sl.elts[0].upper is None and sl.elts[0].step is None:
                j = self.nat(sl.elts[1])
                return "(np_col %s %s %s)" % (default_of(elem(t)), s, self.atom(j)), "arr1 " + elem(t)
            raise self.bad("subscript %s" % ast.unparse(n), n)
        if isinstance(sl, ast.Slice):
            if not (is_list(t) or t.startswith("arr1 ")) or sl.step is not None:
                raise self.bad("slice %s" % ast.unparse(n), n)
            r = s
            if sl.upper is not None:
                r = "(firstn %s %s)" % (self.atom(self.nat(sl.upper)), r)
            if sl.lower is not None:
                if sl.upper is not None:
                    raise self.bad("slice with both bounds %s" % ast.unparse(n), n)
                r = "(skipn %s %s)" % (self.atom(self.nat(sl.lower)), r)
            return r, t
        if is_list(t) or t.startswith("arr1 "):
            et = norm_type(elem(t))
            if default_of(et) is None:
                raise self.bad("indexing a %s" % t, n)
            return "(nth %s %s %s)" % (self.atom(self.nat(sl)), s, default_of(et)), et
        raise self.bad("subscript %s of a %s" % (ast.unparse(n), t), n)

    def call(self, n):
        m = self.m
        f = n.func
        kw = {k.arg: k.value for k in n.keywords}
        if isinstance(f, ast.Name) and f.id not in m.bound and f.id not in self.vt and f.id not in m.shadows:
            if f.id == "len" and len(n.args) == 1 and not kw:
                s, t = self.expr(n.args[0])
                if not (is_list(t) or is_arr(t)):
                    raise self.bad("len of %s" % t, n)
                return "(length %s)" % s, "nat"
            if f.id == "int" and len(n.args) == 1 and not kw:
                a = n.args[0]
                if isinstance(a, ast.BinOp) and isinstance(a.op, ast.Pow) and isinstance(a.right, ast.Constant) \
                        and type(a.right.value) is float and a.right.value == 0.5:
                    return "(Nat.sqrt %s)" % self.atom(self.nat(a.left)), "nat"
                s, t = self.expr(a)
                if t == "Q":                    # int() of a non-negative float, read as an exact rational
                    return "(Z.to_nat (Qfloor %s))" % s, "nat"
                if t != "nat":
                    raise self.bad("int() of %s" % t, n)
                return s, "nat"
            if f.id in ("max", "min") and not kw:
                if len(n.args) == 1:
                    s, t = self.expr(n.args[0])
                    t = norm_type(t)
                    if t in ("list nat", "arr1 nat"):
                        return "(py_%s_nat %s)" % (f.id, s), "nat"
                    if t in ("list T", "arr1 T"):
                        return "(py_%s_list ltb zero %s)" % (f.id, s), "T"
                    raise self.bad("%s of a %s" % (f.id, t), n)
                if len(n.args) == 2:
                    a, ta = self.expr(n.args[0])
                    b, tb = self.expr(n.args[1])
                    if ta == "nat" and tb == "nat":
                        return "(Nat.%s %s %s)" % (f.id, self.atom(a), self.atom(b)), "nat"
                    t = self.join(ta, tb, n)
                    if t == "T":
                        return "(py_%s ltb %s %s)" % (f.id, self.atom(a), self.atom(b)), "T"
                    if t == "E":
                        return "(py_%s (ext_ltb ltb) %s %s)" % (f.id, self.atom(self.coerce(a, ta, "E")), self.atom(self.coerce(b, tb, "E"))), "E"
                raise self.bad("call %s" % ast.unparse(n), n)
        if isinstance(f, ast.Name) and f.id in self.done and f.id not in self.vt:
            callee = self.done[f.id]
            if kw or len(n.args) != len(callee.params):
                raise self.bad("call of %s with other than its %d positional arguments" % (f.id, len(callee.params)), n)
            if callee.option:
                raise self.bad("call of %s, which can raise" % f.id, n)
            args = []
            for a, (pn, pt) in zip(n.args, callee.params):
                s, t = self.expr(a)
                args.append(self.atom(self.coerce(s, norm_type(t), pt, a)))
            return "(%s %s)" % (callee.coq, " ".join(args)), callee.ret
        d = m.dotted(f)
        if d == "numpy.prod" and len(n.args) == 1 and not kw:
            s, t = self.expr(n.args[0])
            if norm_type(t) != "list nat":
                raise self.bad("np.prod of %s" % t, n)
            return "(np_prod %s)" % s, "nat"
        if d == "numpy.zeros" and len(n.args) == 1 and not kw and isinstance(n.args[0], ast.Tuple) and len(n.args[0].elts) == 2:
            r, c = (self.atom(self.nat(e)) for e in n.args[0].elts)
            return "(np_zeros2 %s %s)" % (r, c), "arr2 Z"
        if d == "numpy.ones" and len(n.args) == 1 and set(kw) == {"dtype"} and (
                m.dotted(kw["dtype"]) in ("numpy.bool", "numpy.bool_") or (isinstance(kw["dtype"], ast.Name) and kw["dtype"].id == "bool")):
            return "(repeat true %s)" % self.atom(self.nat(n.args[0])), "arr1 bool"
        if d in ("numpy.vstack", "numpy.hstack") and len(n.args) == 1 and not kw and isinstance(n.args[0], ast.Tuple) and len(n.args[0].elts) == 2:
            (a, ta), (b, tb) = (self.expr(e) for e in n.args[0].elts)
            if not (ta == tb and ta.startswith("arr2 ")):
                raise self.bad("%s of %s and %s" % (d, ta, tb), n)
            if d == "numpy.vstack":
                return "(%s ++ %s)" % (a, b), ta
            return "(np_hstack %s %s)" % (self.atom(a), self.atom(b)), ta
        if d == "numpy.flipud" and len(n.args) == 1 and not kw:
            a, ta = self.expr(n.args[0])
            if not ta.startswith("arr2 "):
                raise self.bad("np.flipud of %s" % ta, n)
            return "(rev %s)" % a, ta
        if d == "numpy.subtract" and len(n.args) == 2 and not kw:
            a, ta = self.expr(n.args[0])
            b, tb = self.expr(n.args[1])
            if norm_type(ta) not in ("list T", "arr1 T") or norm_type(tb) not in ("list T", "arr1 T"):
                raise self.bad("np.subtract of %s and %s" % (ta, tb), n)
            return "(np_subtract sub %s %s)" % (self.atom(a), self.atom(b)), "arr1 T"
        if d == "scipy.spatial.distance.cdist" and len(n.args) == 2 and set(kw) == {"metric"} and self.const_str(kw["metric"]) == "euclidean":
            a, ta = self.expr(n.args[0])
            b, tb = self.expr(n.args[1])
            if norm_type(ta) != "list (list T)" and norm_type(ta) != "list list T" or norm_type(tb) != norm_type(ta):
                raise self.bad("cdist of %s and %s" % (ta, tb), n)
            return "(np_cdist add sub mul sqrtT zero %s %s)" % (self.atom(a), self.atom(b)), "arr2 T"
        if d == "numpy.nanmin" and len(n.args) == 1 and set(kw) == {"axis"} and isinstance(kw["axis"], ast.Constant) and kw["axis"].value == 0:
            a, ta = self.expr(n.args[0])
            if ta != "arr2 T":
                raise self.bad("np.nanmin(axis=0) of %s" % ta, n)
            return "(np_nanmin0 minT %s)" % self.atom(a), "arr1 T"
        if d == "numpy.sum" and len(n.args) == 1 and not kw:
            a, ta = self.expr(n.args[0])
            if ta != "arr1 T":
                raise self.bad("np.sum of %s" % ta, n)
            return "(np_sum add zero %s)" % self.atom(a), "T"
        raise self.bad("call %s" % ast.unparse(n)[:80], n)

    def expr_top(self, n):
        """expressions with the transposition idiom np.c_[A.T, B.T].T at the top"""
        if isinstance(n, ast.Attribute) and n.attr == "T" and isinstance(n.value, ast.Subscript) \
                and self.m.dotted(n.value.value) == "numpy.c_" and isinstance(n.value.slice, ast.Tuple):
            parts = []
            for e in n.value.slice.elts:
                if not (isinstance(e, ast.Attribute) and e.attr == "T"):
                    raise self.bad("np.c_[...] of something that is not a transposed matrix", n)
                s, t = self.expr(e.value)
                if t != "arr2 Z":
                    raise self.bad("np.c_[X.T, ...].T with X a %s" % t, n)
                parts.append(s)
            return "(%s)" % " ++ ".join(parts), "arr2 Z"
        return self.expr(n)

    # ---- statements ----------------------------------------------------------------------
    @staticmethod
    def assigned(stmts):
        """names assigned (also by subscript stores and augmented assignments), in order of first occurrence"""
        out = []

        def add(x):
            if x not in out:
                out.append(x)

        def walk(ss):
            for st in ss:
                if isinstance(st, ast.Assign):
                    for t in st.targets:
                        if isinstance(t, ast.Name):
                            add(t.id)
                        elif isinstance(t, ast.Subscript) and isinstance(t.value, ast.Name):
                            add(t.value.id)
                elif isinstance(st, ast.AugAssign):
                    if isinstance(st.target, ast.Name):
                        add(st.target.id)
                elif isinstance(st, ast.For):
                    walk(st.body)
                elif isinstance(st, ast.If):
                    walk(st.body)
                    walk(st.orelse)
        walk(stmts)
        return out

    def iter_of(self, it, node):
        """-> (list text, element type)"""
        if isinstance(it, ast.Call) and isinstance(it.func, ast.Name) and it.func.id == "range" and not it.keywords \
                and "range" not in self.m.bound and "range" not in self.vt and "range" not in self.m.shadows:
            if len(it.args) == 1:
                return "(seq 0 %s)" % self.atom(self.nat(it.args[0])), "nat"
            if len(it.args) == 2:
                a, b = self.nat(it.args[0]), self.nat(it.args[1])
                return "(seq %s (%s - %s))" % (self.atom(a), b, a), "nat"
            raise self.bad("range with a step", node)
        s, t = self.expr(it)
        t = norm_type(t)
        if is_list(t) or is_arr(t):
            return s, seq_elem(t)
        raise self.bad("loop over a %s" % t, node)

    def tuple_of(self, names):
        return mangle(names[0]) if len(names) == 1 else "(%s)" % ", ".join(mangle(x) for x in names)

    def bind(self, names, rhs, rest):
        if len(names) == 1:
            return "let %s :=\n%s in\n%s" % (mangle(names[0]), textwrap.indent(rhs, "  "), rest)
        return "let '%s :=\n%s in\n%s" % (self.tuple_of(names), textwrap.indent(rhs, "  "), rest)

    def store(self, st, defined):
        """one simple statement -> (name, rhs text) ; updates nothing"""
        if isinstance(st, ast.Assign):
            if len(st.targets) != 1:
                raise self.bad("chained assignment", st)
            t = st.targets[0]
            if isinstance(t, ast.Name):
                s, ty = self.expr_top(st.value)
                return t.id, s, norm_type(ty)
            if isinstance(t, ast.Subscript) and isinstance(t.value, ast.Name):
                name = t.value.id
                base, bt = self.var(name, t)
                if name not in defined:
                    raise self.bad("store into %s before it is bound" % name, st)
                sl = t.slice
                v, tv = self.expr(st.value)
                tv = norm_type(tv)
                if bt.startswith("arr2 ") and isinstance(sl, ast.Tuple) and len(sl.elts) == 2 and isinstance(sl.elts[0], ast.Slice) \
                        and sl.elts[0].step is None:
                    col = self.atom(self.nat(sl.elts[1]))
                    val = self.atom(self.coerce(v, tv, "arr1 " + elem(bt), st))
                    lo, up = sl.elts[0].lower, sl.elts[0].upper
                    if lo is None and up is None:
                        return name, "np_setcol %s %s %s %s" % (default_of(elem(bt)), base, col, val), bt
                    if lo is not None and up is not None:
                        return name, "np_setcol_rows %s %s %s %s %s %s" % (
                            default_of(elem(bt)), base, self.atom(self.nat(lo)), self.atom(self.nat(up)), col, val), bt
                if bt.startswith("arr1 ") and isinstance(sl, ast.Slice) and sl.lower is not None and sl.upper is None and sl.step is not None:
                    val = self.coerce(v, tv, elem(bt), st)
                    return name, "np_set_stride 0 %s %s %s %s" % (self.atom(self.nat(sl.lower)), self.atom(self.nat(sl.step)), val, base), bt
                raise self.bad("store %s" % ast.unparse(t), st)
            raise self.bad("assignment target %s" % ast.unparse(t), st)
        if isinstance(st, ast.AugAssign) and isinstance(st.target, ast.Name):
            fake = ast.BinOp(left=ast.Name(id=st.target.id, ctx=ast.Load()), op=st.op, right=st.value)
            ast.copy_location(fake, st)
            ast.fix_missing_locations(fake)
            s, ty = self.expr(fake)
            return st.target.id, s, norm_type(ty)
        raise self.bad("statement %s" % type(st).__name__, st)

    def block(self, stmts, defined, tail, top=False):
        """text of the statements followed by tail(defined)"""
        if not stmts:
            return tail(defined)
        st, rest = stmts[0], stmts[1:]
        if isinstance(st, ast.Expr) and isinstance(st.value, ast.Constant) and isinstance(st.value.value, str):
            return self.block(rest, defined, tail, top)
        if isinstance(st, ast.Return):
            if not top or rest or st.value is None:
                raise self.bad("return that is not the last statement of the function", st)
            if isinstance(st.value, ast.Tuple):
                parts = [self.expr(e) for e in st.value.elts]
                s, t = "(%s)" % ", ".join(p[0] for p in parts), "(%s)" % " * ".join(coq_type(norm_type(p[1])) for p in parts)
                self.ret_seen(t, st)
                return "Some %s" % s if self.option else s
            s, t = self.expr_top(st.value)
            self.ret_seen(norm_type(t), st)
            return "Some %s" % self.atom(s) if self.option else s
        if isinstance(st, ast.Assert):
            if not top:
                raise self.bad("assert inside a loop / branch", st)
            c, t = self.expr(st.test)
            if t != "bool":
                raise self.bad("assert of a %s" % t, st)
            self.option = True
            return "if %s then\n%s\nelse None" % (c, self.block(rest, defined, tail, top))
        if isinstance(st, (ast.Assign, ast.AugAssign)):
            name, rhs, ty = self.store(st, defined)
            if name in self.fixed:
                raise self.bad("assignment to the statically fixed parameter %s" % name, st)
            self.note_type(name, ty, st)
            rhs = self.coerce(rhs, ty, self.vt[name], st)
            return "let %s := %s in\n%s" % (mangle(name), rhs, self.block(rest, defined | {name}, tail, top))
        if isinstance(st, ast.For):
            if st.orelse or not isinstance(st.target, ast.Name):
                raise self.bad("for with else / a target that is not a name", st)
            it, et = self.iter_of(st.iter, st)
            v = st.target.id
            if v in self.fixed or v in [p for p, _ in self.params]:
                raise self.bad("loop variable %s shadows a parameter" % v, st)
            self.note_type(v, et, st)
            state = [x for x in self.assigned(st.body) if x in defined]
            if v in self.assigned(st.body):
                raise self.bad("assignment to the loop variable %s" % v, st)
            if not state:
                raise self.bad("loop without effect on the locals bound before it", st)
            body = self.block(st.body, defined | {v}, lambda d: self.tuple_of(state))
            if len(state) == 1:
                fn = "(fun %s %s =>\n%s)" % (mangle(state[0]), mangle(v), textwrap.indent(body, "   "))
            else:
                fn = "(fun st_ %s => let '%s := st_ in\n%s)" % (mangle(v), self.tuple_of(state), textwrap.indent(body, "   "))
            rhs = "fold_left %s\n  %s %s" % (fn, it, self.tuple_of(state))
            # every name the loop binds (its variable, body locals) is dead after it
            return self.bind(state, rhs, self.block(rest, defined, tail, top))
        if isinstance(st, ast.If):
            c, t = self.expr(st.test)
            if t != "bool":
                raise self.bad("truth value of a %s" % t, st)
            if c in ("true", "false"):       # decided statically (spec: fixed)
                taken = st.body if c == "true" else st.orelse
                names = [x for x in self.assigned(taken)]
                return self.block(list(taken) + list(rest), defined, tail, top) if not any(
                    isinstance(s, (ast.Return, ast.Assert)) for s in ast.walk(ast.Module(body=list(taken), type_ignores=[]))) \
                    else self._raise(self.bad("return / assert in a statically decided branch", st))
            joined = [x for x in self.assigned(st.body + st.orelse) if x in defined]
            if not joined:
                raise self.bad("if without effect on the locals bound before it", st)
            a = self.block(st.body, defined, lambda d: self.tuple_of(joined))
            b = self.block(st.orelse, defined, lambda d: self.tuple_of(joined))
            rhs = "if %s then\n%s\nelse\n%s" % (c, textwrap.indent(a, "  "), textwrap.indent(b, "  "))
            return self.bind(joined, rhs, self.block(rest, defined, tail, top))
        raise self.bad("statement %s" % type(st).__name__, st)

    @staticmethod
    def _raise(e):
        raise e

    def ret_seen(self, t, node):
        self.ret = t if self.ret is None else self.join(self.ret, t, node)

    def note_type(self, name, ty, node):
        if name in [p for p, _ in self.params]:
            if self.vt[name] != ty and not (self.vt[name], ty) in (("E", "T"),):
                self.coerce("_", ty, self.vt[name], node)
            return
        self.vt[name] = self.join(self.vt[name], ty, node) if name in self.vt else ty

    # ---- whole function ------------------------------------------------------------------
    def translate(self):
        node = self.node
        a = node.args
        if a.vararg or a.kwarg or a.kwonlyargs or a.posonlyargs or node.decorator_list:
            raise self.bad("signature / decorators of %s" % self.name, node)
        ptypes = self.spec.get("params", {})
        for arg in a.args:
            if isinstance(self.fixed.get(arg.arg), dict):        # fixed to a string: not a parameter of the definition
                continue
            if arg.arg not in ptypes:
                raise self.bad("no type for the parameter %s in the spec" % arg.arg, node)
            self.params.append((arg.arg, norm_type(ptypes[arg.arg])))
            self.vt[arg.arg] = norm_type(ptypes[arg.arg])
        body = list(node.body)
        for n in ast.walk(node):
            if isinstance(n, (ast.While, ast.Try, ast.With, ast.Lambda, ast.ListComp, ast.GeneratorExp, ast.Break, ast.Continue,
                              ast.Global, ast.Nonlocal, ast.Yield, ast.YieldFrom, ast.Raise, ast.Delete, ast.NamedExpr, ast.Starred)) \
                    or (isinstance(n, (ast.FunctionDef, ast.ClassDef)) and n is not node):
                raise self.bad("construct %s" % type(n).__name__, n)
        defined0 = {p for p, _ in self.params}
        # a parameter / local that rebinds the name of an imported module (np = ...) would change what np.f means
        local_names = {x.arg for x in a.args} | {x.id for x in ast.walk(node) if isinstance(x, ast.Name) and isinstance(x.ctx, (ast.Store, ast.Del))}
        clash = sorted(local_names & set(self.m.alias))
        if clash:
            raise self.bad("%s rebinds the imported name(s) %s" % (self.name, ", ".join(clash)), node)
        # pre-pass: types of the locals to a fixpoint (a name not typed yet postpones the statement)
        text = None
        for _round in range(8):
            before = dict(self.vt)
            self.fresh, self.option, self.ret = 0, False, None
            try:
                text = self.block(body, set(defined0), lambda d: self._raise(self.bad("no return at the end of %s" % self.name, node)), top=True)
            except _Later:
                text = None
                self.partial_types(body)
            if self.vt == before and text is not None:
                break
        else:
            raise self.bad("types of the locals of %s cannot be determined" % self.name, node)
        if any("?" in t for t in self.vt.values()):
            raise self.bad("a list local of %s never gets an element type" % self.name, node)
        rt = coq_type(self.ret)
        if " " in rt:
            rt = "(%s)" % rt
        sig = " ".join("(%s : %s)" % (mangle(p), coq_type(t)) for p, t in self.params)
        want = self.spec.get("returns")
        if want is not None and norm_type(want) != self.ret:
            raise self.bad("%s returns a %s (spec: %s)" % (self.name, self.ret, want), node)
        return "Definition %s %s : %s :=\n%s." % (self.coq, sig, ("option " + rt) if self.option else coq_type(self.ret),
                                                 textwrap.indent(text, "  "))

    def partial_types(self, stmts):
        """pre-pass helper: type whatever assignment can be typed with what is known, in statement order"""
        for st in stmts:
            try:
                if isinstance(st, (ast.Assign, ast.AugAssign)):
                    name, _, ty = self.store(st, set(self.vt))
                    self.note_type(name, ty, st)
                elif isinstance(st, ast.For):
                    try:
                        _, et = self.iter_of(st.iter, st)
                        self.note_type(st.target.id, et, st)
                    except _Later:
                        pass
                    self.partial_types(st.body)
                elif isinstance(st, ast.If):
                    self.partial_types(st.body)
                    self.partial_types(st.orelse)
            except _Later:
                continue


def m_is_value(n):
    return True


def slice_function(node, fspec, key):
    """Slice mode: a contiguous run of TOP-LEVEL statements of the function, from the statement whose first line is
    fspec["first"] to the one whose first line is fspec["last"] (absent: to the end of the function), as a synthetic
    function of the declared `locals`; with `results` it returns those locals.  Each designated line must occur exactly
    once among the top-level statements.  Pins the slice only: what precedes it is not translated."""
    import copy
    firsts = [ast.unparse(st).split("\n")[0] for st in node.body]

    def find(text):
        """anchor: the exact first line of a statement, {"assigns": name} = THE top-level assignment to that name,
        {"loop": "for"} = THE top-level for loop"""
        if isinstance(text, dict) and "assigns" in text:
            idx = [i for i, st in enumerate(node.body)
                   if (isinstance(st, ast.Assign) and any(isinstance(t, ast.Name) and t.id == text["assigns"] for t in st.targets))
                   or (isinstance(st, ast.AugAssign) and isinstance(st.target, ast.Name) and st.target.id == text["assigns"])]
        elif isinstance(text, dict) and text.get("loop") == "for":
            idx = [i for i, st in enumerate(node.body) if isinstance(st, ast.For)]
        else:
            idx = [i for i, t in enumerate(firsts) if t == text]
        if len(idx) != 1:
            raise Unsupported("slice mode: the statement `%s` occurs %d times at the top level of %s" % (text, len(idx), key), node, key)
        return idx[0]
    a = find(fspec["first"])
    b = find(fspec["last"]) if fspec.get("last") else len(node.body) - 1
    if b < a:
        raise Unsupported("slice mode: `%s` comes after `%s`" % (fspec["first"], fspec["last"]), node, key)
    body = [copy.deepcopy(st) for st in node.body[a:b + 1]]
    res = fspec.get("results")
    if res:
        val = ast.Name(id=res[0], ctx=ast.Load()) if len(res) == 1 else ast.Tuple(elts=[ast.Name(id=r, ctx=ast.Load()) for r in res], ctx=ast.Load())
        body.append(ast.Return(value=val))
    names = list(fspec.get("locals", {}))
    fn = ast.FunctionDef(name=node.name, args=ast.arguments(posonlyargs=[], args=[ast.arg(arg=x) for x in names], vararg=None,
                                                            kwonlyargs=[], kw_defaults=[], kwarg=None, defaults=[]),
                         body=body, decorator_list=[], returns=None, type_comment=None)
    ast.copy_location(fn, node.body[a])
    for n in ast.walk(fn):
        if not hasattr(n, "lineno"):
            ast.copy_location(n, node.body[a])
    ast.fix_missing_locations(fn)
    sp = dict(fspec)
    sp["params"] = dict(fspec.get("locals", {}))
    return fn, sp


# ----------------------------------------------------------------------------------------------
def translate_spec(repo, spec):
    """-> (coq text, [{"function", "sha1", "source"}]); raises Unsupported."""
    path = os.path.join(repo, spec["source"])
    src = open(path).read()
    tree = ast.parse(src, filename=path)
    lines = src.splitlines(keepends=True)
    minfo = ModuleInfo(tree)
    done, parts, info = {}, [], []
    for item in spec["functions"]:
        cls, name = item[0], item[1]
        if cls:
            raise Unsupported("front-end np: methods are not translated (%s.%s)" % (cls, name))
        node = find_function(tree, None, name, spec["source"])
        fs = function_source(lines, node)
        sha = hashlib.sha1(fs.encode()).hexdigest()
        if name not in [i["function"] for i in info]:
            info.append({"function": name, "sha1": sha, "source": fs})
        key = name + ("#" + item[2] if len(item) > 2 else "")
        fspec = spec.get("types", {}).get(key)
        if fspec is None:
            raise Unsupported("no typing for %s in the spec" % key)
        note = ""
        tnode = node
        if fspec.get("mode") == "slice":
            tnode, fspec = slice_function(node, fspec, key)
            note = ("\n(* SLICE of %s: the top-level statements from `%s` to %s as a function of the locals %s; what precedes / follows"
                    " and the data flow into the locals are NOT translated *)" % (
                        name, json.dumps(fspec["first"]).replace("*)", "* )"), "`%s`" % json.dumps(fspec["last"]).replace("*)", "* )") if fspec.get("last") else "the end", ", ".join(fspec["params"])))
        elif fspec.get("mode"):
            raise Unsupported("front-end np: mode %r" % fspec.get("mode"))
        ft = NpTranslator(minfo, name, fspec, tnode, done, bool(spec.get("numeric")))
        if "as" not in fspec and len(item) > 2:
            ft.coq = "%s_%s_gen" % (name.lstrip("_"), item[2])
        text = ft.translate()
        if ft.fixed:
            note += "\n(* decided statically by the spec (not translated): %s *)" % json.dumps(ft.fixed, sort_keys=True).replace("*)", "* )")
        parts.append("(* %s, lines %d-%d of %s, sha1 %s *)%s\n%s" % (name, node.lineno, node.end_lineno, spec["source"], sha, note, text))
        done[key] = ft
    head = ("(* GENERATED by tools/py2coq_np.py from %s - never edit, never commit.\n"
            "   Shallow Gallina definitions of: %s. *)\n" % (spec["source"], ", ".join(i["function"] for i in info)))
    body = "\n\n".join(parts)
    if spec.get("numeric"):
        text = head + PRELUDE + "\n" + SECTION_HEAD + "\n" + textwrap.indent(body, "  ") + "\nEnd Gen.\n"
    else:
        text = head + PRELUDE + "\n" + body + "\n"
    return text, info


def main(argv):
    import argparse
    ap = argparse.ArgumentParser(description=__doc__.split("\n")[0])
    ap.add_argument("--repo", default=os.environ.get("VERIF_REPO", "/repo"))
    ap.add_argument("--spec", required=True)
    ap.add_argument("--out", default="-")
    ap.add_argument("--write-reference", metavar="DIR", default=None)
    a = ap.parse_args(argv)
    spec = json.load(open(a.spec))
    if a.write_reference:
        for i in function_infos(a.repo, spec):
            open(os.path.join(a.write_reference, i["function"] + ".py.txt"), "w").write(i["source"])
        return 0
    try:
        text, info = translate_spec(a.repo, spec)
    except Unsupported as e:
        sys.stderr.write("py2coq_np: %s\n" % e)
        return 2
    except SyntaxError as e:
        sys.stderr.write("py2coq_np: the source does not parse: %s\n" % e)
        return 2
    if a.out == "-":
        sys.stdout.write(text)
    else:
        open(a.out, "w").write(text)
    return 0


if __name__ == "__main__":
    sys.exit(main(sys.argv[1:]))
