#!/usr/bin/env python3
"""Differential self-test of tools/py2coq_heap.py (the heap front-end of the translator is trusted: this backs it).

Synthetic functions that write fields of objects through aliases (two names / two list positions / a lookup result
for one object, the SAME object twice in a list), keep lists of lists of objects, sort lists of objects in place,
call each other with in-place effects and loop with fuel are run by CPython on generated object graphs; the binary64
instance of the generated definition is evaluated by Coq (`vm_compute`) on the same graph - an object is its index
in the table of all objects of the case, the store is one table per written field - and the results are compared
bit for bit: the returned value, every list modified in place, every written field of every object; a Python
exception = `h_exc`.  Cases the model declares outside itself (`h_stuck`: too little fuel, a loop over `xss[i]` whose
body appends to the same cell - Python would not terminate) are checked on the Coq side only.
A second list (REJECT) holds sources that MUST be rejected (untracked aliasing and everything else outside the subset).

    /venv/bin/python tools/py2coq_heap_selftest.py      (exit 0 = all agree; needs coqc and /verif/coq built)
"""
import importlib.util
import math
import os
import random
import subprocess
import sys
import tempfile
import textwrap

HERE = os.path.dirname(os.path.abspath(__file__))
VERIF = os.path.dirname(HERE)
spec_ = importlib.util.spec_from_file_location("py2coq", os.path.join(HERE, "py2coq.py"))
py2coq = importlib.util.module_from_spec(spec_)
sys.modules["py2coq"] = py2coq
spec_.loader.exec_module(py2coq)

SRC = '''
import math


class Sel:
    def find(self, objs, ident):
        for o in objs:
            if o.id == ident:
                return o
        return None

    def find_bump(self, objs, ident, amount):
        o = self.find(objs, ident)
        o.features['k'] += amount
        return o.features['k']


def alias_chain(objs, i, j):
    a = objs[i]
    b = objs[j]
    a.features['k'] += 1
    b.features['k'] += 10
    c = a
    c.features['k'] = c.features['k'] * 2
    b.features['log'].append(a.id)
    a.features['log'].append(b.id)
    if b.features['tag'] is None:
        a.features['tag'] = len(a.features['log'])
    elif a.features['tag'] is not None:
        b.features['tag'] = None
    return b.features['k']


def pairs(objs):
    for o in objs:
        o.features['k'] = 0
        o.features['log'] = []
        o.features['tag'] = None
    for i, p in enumerate(objs):
        for j in range(i + 1, len(objs)):
            q = objs[j]
            if p.costs_signed[0] < q.costs_signed[0]:
                p.features['log'].append(q.id)
                q.features['k'] += 1
            elif q.costs_signed[0] < p.costs_signed[0]:
                p.features['k'] += 1
                q.features['log'].append(p.id)
        if 0 == p.features['k']:
            p.features['tag'] = i
    return


def layers(objs, start):
    fronts = [[]]
    k = 1
    for o in objs:
        o.features['tag'] = None
        if o.features['k'] <= start:
            o.features['tag'] = k
            fronts[k - 1].append(o)
    while len(fronts[k - 1]) > 0:
        k += 1
        fronts.append([])
        for p in fronts[k - 2]:
            for o in objs:
                if o.features['tag'] is None and o.features['k'] <= p.features['k'] + 1:
                    o.features['tag'] = k
                    fronts[k - 1].append(o)
    fronts.pop()
    total = 0
    for f in fronts:
        total += len(f)
        for o in f:
            o.features['log'].append(total)
    return total


def spread(front, dim):
    front.sort(key=lambda x: x.costs_signed[dim])
    front[0].features['cd'] = math.inf
    front[-1].features['cd'] = math.inf
    width = front[-1].costs_signed[dim] - front[0].costs_signed[dim]
    for i in range(1, len(front) - 1):
        if width > 0.0:
            front[i].features['cd'] += (front[i + 1].costs_signed[dim] - front[i - 1].costs_signed[dim]) / width
        else:
            front[i].features['cd'] = front[i].features['cd'] + 0.5
    return width


def spread_all(group_a, group_b):
    w = spread(group_a, 0)
    v = spread(group_b, 1)
    if w > v:
        return w - v
    return w + v


def spread_each(objs, cut):
    cells = [[], []]
    for o in objs:
        if o.features['k'] < cut:
            cells[0].append(o)
        else:
            cells[-1].append(o)
    total = 0.0
    for cell in cells:
        if len(cell) > 0:
            w = spread(cell, 0)
            total = total + w
    return total


def stash(objs, vals):
    xs = []
    for o in objs:
        xs.append(o.features['k'])
    for i, v in enumerate(vals):
        xs[v] = i
        objs[i].features['k'] = xs[-1] - v
    xs.pop()
    for o in objs:
        if o.features['k'] == len(xs):
            continue
        o.features['log'].append(len(xs))
    return len(xs)


def merge(objs, a, b):
    cells = [[], []]
    for o in objs:
        cells[0].append(o)
    for o in cells[a]:
        cells[b].append(o)
        o.features['k'] += 1
    return len(cells[b])


def countdown(objs, n):
    steps = 0
    while n > 0:
        n = n - 2
        steps += 1
        for o in objs:
            o.features['k'] -= 1
    return steps
'''

# suite 2: the field `id` itself is written (so functions that only read it take the store as a read-only parameter),
# prefix mode, a global cell
SRC2 = '''
class Thing:
    counter = 0

    def __init__(self, k):
        self.id = Thing.counter
        Thing.counter += 2
        self.features = {'k': k}
        self.costs_signed = []


def relabel(objs, base):
    for o in objs:
        o.id = o.id + base
    return len(objs)


def find2(objs, ident):
    for o in objs:
        if o.id == ident:
            return o
    return None


def relabel_find(objs, base, ident):
    n = relabel(objs, base)
    o = find2(objs, ident)
    if o is None:
        return n
    o.features['k'] += 1
    p = find2(objs, o.id + base)
    if p is not None:
        p.id = 0
    return o.id
'''
HEAP2 = {"record": "ind", "fields": [["id", "nat"], ['features["k"]', "Z"]]}
FUNCS2 = [["Thing", "__init__"], ["", "relabel"], ["", "find2"], ["", "relabel_find"]]
TYPES2 = {
    "Thing.__init__": {"as": "thing_init_gen", "mode": "prefix", "statements": 2, "self": "ind", "params": {},
                       "globals": [["Thing.counter", "nat"]], "returns": "unit"},
    "relabel": {"params": {"objs": "list ind", "base": "nat"}, "returns": "nat"},
    "find2": {"params": {"objs": "list ind", "ident": "nat"}, "returns": "opt ind"},
    "relabel_find": {"params": {"objs": "list ind", "base": "nat", "ident": "nat"}, "returns": "nat",
                     "calls": {"relabel": "relabel", "find2": "find2"}},
}

HEAP = {"record": "ind", "ext": True,
        "fields": [["id", "nat"], ["costs_signed", "list T"], ['features["k"]', "Z"], ['features["tag"]', "opt nat"],
                   ['features["log"]', "list nat"], ['features["cd"]', "E"]]}
FUNCS = [["Sel", "find"], ["Sel", "find_bump"], ["", "alias_chain"], ["", "pairs"], ["", "layers"], ["", "spread"],
         ["", "spread_all"], ["", "spread_each"], ["", "stash"], ["", "merge"], ["", "countdown"]]
TYPES = {
    "Sel.find": {"params": {"objs": "list ind", "ident": "nat"}, "returns": "opt ind"},
    "Sel.find_bump": {"params": {"objs": "list ind", "ident": "nat", "amount": "Z"}, "returns": "Z",
                      "calls": {"self.find": "Sel.find"}},
    "alias_chain": {"params": {"objs": "list ind", "i": "Z", "j": "Z"}, "returns": "Z"},
    "pairs": {"params": {"objs": "list ind"}, "returns": "unit"},
    "layers": {"params": {"objs": "list ind", "start": "Z"}, "returns": "nat",
               "locals": {"fronts": "list list ind", "k": "nat", "total": "nat"}},
    "spread": {"params": {"front": "list ind", "dim": "nat"}, "writes": ["front"], "returns": "T"},
    "spread_all": {"params": {"group_a": "list ind", "group_b": "list ind"}, "writes": ["group_a", "group_b"],
                   "returns": "T", "calls": {"spread": "spread"}},
    "spread_each": {"params": {"objs": "list ind", "cut": "Z"}, "returns": "T",
                    "locals": {"cells": "list list ind", "total": "T"}, "calls": {"spread": "spread"}},
    "stash": {"params": {"objs": "list ind", "vals": "list Z"}, "returns": "nat", "locals": {"xs": "list Z"}},
    "merge": {"params": {"objs": "list ind", "a": "Z", "b": "Z"}, "returns": "nat", "locals": {"cells": "list list ind"}},
    "countdown": {"params": {"objs": "list ind", "n": "Z"}, "returns": "nat", "locals": {"steps": "nat"}},
}

# sources that MUST be rejected: (what, function source)
REJECT = [
    ("a list-valued field read into a local and modified through it",
     "def f(objs):\n    d = objs[0].features['log']\n    d.append(1)\n"),
    ("one list stored in the field of two objects",
     "def f(objs):\n    objs[0].features['log'] = objs[1].features['log']\n"),
    ("a fresh list shared by the fields of all objects",
     "def f(objs):\n    shared = []\n    for o in objs:\n        o.features['log'] = shared\n"),
    ("two names for one local list",
     "def f(objs):\n    xs = [1]\n    ys = xs\n    ys.append(2)\n    return len(xs)\n"),
    ("a local list stored as an element of a list of lists",
     "def f(objs):\n    ys = [objs[0]]\n    cells = [[]]\n    cells.append(ys)\n    ys.append(objs[0])\n    return len(cells[1])\n"),
    ("a list parameter stored in a list of lists",
     "def f(objs):\n    cells = [[]]\n    cells.append(objs)\n    return len(cells)\n"),
    ("an element of a list of lists bound to a name",
     "def f(objs):\n    cells = [[], []]\n    first = cells[0]\n    first.append(objs[0])\n    return len(cells[0])\n"),
    ("a loop that appends to the list it iterates over",
     "def f(objs):\n    xs = [1]\n    for x in xs:\n        xs.append(x)\n    return len(xs)\n"),
    ("a loop over a field that writes the same field (of a possibly identical object)",
     "def f(objs):\n    p = objs[0]\n    q = objs[1]\n    for x in p.features['log']:\n        q.features['log'].append(x)\n"),
    ("a list parameter modified in place without being declared",
     "def f(objs):\n    objs.append(objs[0])\n"),
    ("a list parameter rebound",
     "def f(objs):\n    objs = []\n    return len(objs)\n"),
    ("an element of a list of lists modified by a call, the outer list read again",
     "def f(objs):\n    cells = [[], []]\n    for o in objs:\n        cells[0].append(o)\n    for cell in cells:\n        spread(cell, 0)\n    return len(cells[0])\n"),
    ("one list passed twice to a function that modifies its arguments",
     "def f(objs):\n    ys = [objs[0]]\n    w = spread_all(ys, ys)\n    return len(ys)\n"),
    ("the loop-invariant index of a nested append assigned in the loop",
     "def f(objs):\n    cells = [[], [], []]\n    k = 1\n    for o in objs:\n        cells[0].append(o)\n    for o in cells[k - 1]:\n        k += 1\n        cells[k].append(o)\n    return k\n"),
    ("the outer list of a nested-append loop modified in the loop",
     "def f(objs):\n    cells = [[], []]\n    for o in objs:\n        cells[0].append(o)\n    for o in cells[0]:\n        cells.append([])\n        cells[1].append(o)\n    return len(cells)\n"),
    ("the features dictionary itself as a value", "def f(objs):\n    d = objs[0].features\n    return len(objs)\n"),
    ("an undeclared field", "def f(objs):\n    objs[0].other = 3\n"),
    ("an undeclared feature key", "def f(objs):\n    objs[0].features['zz'] = 3\n"),
    ("augmented assignment to a list-valued field", "def f(objs):\n    objs[0].features['log'] += [1]\n"),
    ("tuple assignment", "def f(objs):\n    a, b = objs[0], objs[1]\n    return len(objs)\n"),
    ("sorted() of objects", "def f(objs):\n    ys = sorted(objs, key=lambda o: o.id)\n    return len(ys)\n"),
    ("sort without a key", "def f(objs):\n    xs = [2, 1]\n    xs.sort()\n    return len(xs)\n"),
    ("break in a while loop", "def f(objs):\n    n = 3\n    while n > 0:\n        n = n - 1\n        break\n    return n\n",),
    ("try / except", "def f(objs):\n    try:\n        return len(objs)\n    except IndexError:\n        return 0\n"),
    ("del", "def f(objs):\n    xs = [1]\n    del xs[0]\n    return len(xs)\n"),
    ("getattr", "def f(objs):\n    return getattr(objs[0], 'id')\n"),
    ("a raising operation under `or`", "def f(objs):\n    if len(objs) == 0 or objs[0].id == 1:\n        return 1\n    return 0\n"),
    ("a name bound on one path only",
     "def f(objs):\n    if len(objs) == 0:\n        z = 1\n    return z\n"),
    ("a local whose type is not declared", "def f(objs):\n    w = 0\n    return w\n"),
    ("a global", "def f(objs):\n    return len(objs) + LIMIT\n"),
    ("a list comprehension", "def f(objs):\n    ids = [o.id for o in objs]\n    return len(ids)\n"),
    ("list equality", "def f(objs):\n    if objs[0].costs_signed[:-1] == objs[1].costs_signed[:-1]:\n        return 1\n    return 0\n"),
    ("self attribute", "def f(objs):\n    return len(objs) + self.n\n"),
    ("math.inf into a field that is not an extended number", "def f(objs):\n    objs[0].features['k'] = math.inf\n"),
    ("nested function", "def f(objs):\n    def g(o):\n        return o.id\n    return g(objs[0])\n"),
]


# ----------------------------------------------------------------------------------------------
# the Python side: objects, a deep observation of the object graph
# ----------------------------------------------------------------------------------------------
class Obj:
    def __init__(self, ident, costs, k, tag, log, cd):
        self.id = ident
        self.costs_signed = list(costs)
        self.features = {"k": k, "tag": tag, "log": list(log), "cd": cd}


def gen_graph(rng):
    n = rng.randint(1, 6)
    objs = []
    for r in range(n):
        ident = rng.choice([r, r, r, rng.randint(0, 3)])          # ids may collide
        m = rng.choice([0, 1, 2, 2, 2, 3, 3, 3, 3])
        costs = [float(rng.choice([0, 1, 1, 2, 3, 5, -1, 0.5, 2.25])) for _ in range(m)]
        cd = rng.choice([0.0, 0.0, 0.25, 1.5, math.inf, 3.0])
        objs.append((ident, costs, rng.randint(-2, 4), rng.choice([None, None, 1, 2, 7]),
                     [rng.randint(0, 5) for _ in range(rng.randint(0, 2))], cd))
    return objs


def refs_list(rng, n, allow_dup=True, lo=0, hi=7):
    k = rng.randint(lo, hi)
    if allow_dup:
        return [rng.randrange(n) for _ in range(k)]
    xs = list(range(n))
    rng.shuffle(xs)
    return xs[:k]


def build(graph):
    return [Obj(*g) for g in graph]


# ----------------------------------------------------------------------------------------------
# Coq rendering
# ----------------------------------------------------------------------------------------------
def cfloat(x):
    if x == math.inf:
        return "infinity"
    if x == -math.inf:
        return "neg_infinity"
    if x != x:
        return "nan"
    return "(%s)%%float" % float(x).hex()


def cnat(x):
    return "%d%%nat" % x


def cZ(x):
    return "(%d)%%Z" % x


def clist(xs, f):
    return "[" + "; ".join(f(x) for x in xs) + "]"


def copt(x, f):
    return "None" if x is None else "(Some %s)" % f(x)


def fname(key):
    return key.split('"')[1] if '"' in key else key


def fget(o, name):
    return o.id if name == "id" else o.features[name]


FIELD_RENDER = {"id": (cnat, "Nat.eqb", "0%nat", "nat"),
                "k": (cZ, "Z.eqb", "0%Z", "Z"),
                "tag": (lambda v: copt(v, cnat), "(oeqb Nat.eqb)", "None", "(option nat)"),
                "log": (lambda v: clist(v, cnat), "(leqb Nat.eqb)", "[]", "(list nat)"),
                "cd": (cfloat, "feqb", "0%float", "float")}

HEADER = '''From Coq Require Import List ZArith Bool Arith Floats.
From Artap Require Import Base.FloatInst.
From ArtapGen Require Import @MODULE@.
Import ListNotations.
Definition feqb (a b : float) : bool := fbits_eqb a b.
Fixpoint leqb {A : Type} (e : A -> A -> bool) (a b : list A) : bool :=
  match a, b with [], [] => true | x :: a', y :: b' => e x y && leqb e a' b' | _, _ => false end.
Definition oeqb {A : Type} (e : A -> A -> bool) (a b : option A) : bool :=
  match a, b with None, None => true | Some x, Some y => e x y | _, _ => false end.
Definition ueqb (a b : unit) : bool := true.
Definition tab {V : Type} (l : list V) (d : V) (r : nat) : V := nth r l d.
Definition obs {V : Type} (n : nat) (h : nat -> V) : list V := map h (seq 0 n).
'''


def value_render(t):
    return {"nat": (cnat, "Nat.eqb"), "Z": (cZ, "Z.eqb"), "T": (cfloat, "feqb"), "unit": (lambda v: "tt", "ueqb"),
            "bool": (lambda v: "true" if v else "false", "Bool.eqb"),
            "optref": (lambda v: copt(v, cnat), "(oeqb Nat.eqb)")}[t]


class Case:
    def __init__(self, fn, graph, args, lists, expect_stuck=False, fuel=50):
        # args: python-side argument values in order; lists: names of the arguments that are lists of references
        self.fn, self.graph, self.args, self.lists, self.expect_stuck, self.fuel = fn, graph, args, lists, expect_stuck, fuel


def run_python(ns, case, ft):
    objs = build(case.graph)
    pyargs = []
    for (pn, pt), a in zip(ft.params, case.args):
        if pt == ("list", ("ref", "ind")):
            pyargs.append([objs[r] for r in a])
        else:
            pyargs.append(a)
    if ft.cls:
        f = getattr(ns[ft.cls](), ft.pyname)
    else:
        f = ns[ft.pyname]
    try:
        v = f(*pyargs)
    except (IndexError, AttributeError, KeyError, TypeError, ZeroDivisionError) as e:
        return ("exc", type(e).__name__)
    index = {id(o): r for r, o in enumerate(objs)}
    lists = []
    for (pn, pt), a in zip(ft.params, pyargs):
        if pn in ft.lwrites:
            lists.append([index[id(o)] for o in a])
    if isinstance(v, Obj):
        v = index[id(v)]
    fields = {}
    for key in ft.wfields:
        name = fname(key)
        fields[name] = [fget(o, name) for o in objs]
    return ("ret", v, lists, fields)


def coq_call(case, ft, n):
    graph = case.graph
    env = {"f_id": "(tab %s 0%%nat)" % clist([g[0] for g in graph], cnat),
           "f_costs_signed": "(tab %s [])" % clist([g[1] for g in graph], lambda c: clist(c, cfloat))}
    col = {"id": 0, "k": 2, "tag": 3, "log": 4, "cd": 5}
    args = [env[nm] for nm in ft.inst_rest]
    for (pn, pt), a in zip(ft.params, case.args):
        if pt == ("list", ("ref", "ind")):
            args.append(clist(a, cnat))
        elif pt == ("list", "Z"):
            args.append(clist(a, cZ))
        elif pt == "nat":
            args.append(cnat(a))
        elif pt == "Z":
            args.append(cZ(a))
        else:
            raise AssertionError(pt)
    order = [f[0] for f in ft.heap.fields]
    for key in sorted(ft.wfields + ft.rfields, key=order.index):
        name = fname(key)
        rnd, _, dflt, _ = FIELD_RENDER[name]
        args.append("(tab %s %s)" % (clist([g[col[name]] for g in graph], rnd), dflt))
    if ft.fuel:
        args.append(cnat(case.fuel))
    return "(%s %s)" % (ft.inst_name, " ".join(args))


def coq_check(case, ft, outcome, n):
    call = coq_call(case, ft, n)
    if case.expect_stuck:
        return "match %s with inr false => true | _ => false end" % call
    if outcome[0] == "exc":
        return "match %s with inr true => true | _ => false end" % call
    _, v, lists, fields = outcome
    rt = "optref" if ft.ret_type == ("opt", ("ref", "ind")) else ft.ret_type
    rnd, eqb = value_render(rt)
    names = ["v_"] + ["l%d_" % i for i in range(len(lists))] + ["h%d_" % i for i in range(len(ft.wfields))]
    tests = ["%s v_ %s" % (eqb, rnd(v))]
    for i, l in enumerate(lists):
        tests.append("leqb Nat.eqb l%d_ %s" % (i, clist(l, cnat)))
    for i, key in enumerate(ft.wfields):
        name = fname(key)
        frnd, feq, _, _ = FIELD_RENDER[name]
        tests.append("leqb %s (obs %d h%d_) %s" % (feq, n, i, clist(fields[name], frnd)))
    pat = names[0] if len(names) == 1 else "'(%s)" % ", ".join(names)
    return "match %s with inl (inr r_) => (let %s := r_ in %s) | _ => false end" % (call, pat, " && ".join(tests))


def gen_cases(rng, per):
    cases = []
    for _ in range(per):
        g = gen_graph(rng)
        n = len(g)
        objs = refs_list(rng, n, hi=6)
        cases.append(Case("Sel.find", g, [objs, rng.randint(0, 5)], [0]))
        cases.append(Case("Sel.find_bump", g, [objs, rng.randint(0, 5), rng.randint(-3, 3)], [0]))
        cases.append(Case("alias_chain", g, [objs, rng.randint(-4, 5), rng.randint(-4, 5)], [0]))
        cases.append(Case("pairs", g, [refs_list(rng, n, hi=6)], [0]))
        cases.append(Case("layers", g, [refs_list(rng, n, hi=7), rng.randint(-2, 3)], [0]))
        cases.append(Case("spread", g, [refs_list(rng, n, hi=6), rng.randint(0, 2)], [0]))
        cases.append(Case("spread_all", g, [refs_list(rng, n, hi=5), refs_list(rng, n, hi=5)], [0, 1]))
        cases.append(Case("spread_each", g, [refs_list(rng, n, hi=7), rng.randint(-1, 4)], [0]))
        objs2 = refs_list(rng, n, hi=5)
        cases.append(Case("stash", g, [objs2, [rng.randint(-3, 3) for _ in range(rng.randint(0, 3))]], [0]))
        a, b = rng.choice([(0, 1), (1, 0), (-2, 1), (0, -1), (-2, -1), (1, -2), (0, 2), (3, 1), (-3, 0)])
        cases.append(Case("merge", g, [refs_list(rng, n, hi=5), a, b], [0]))
        cases.append(Case("countdown", g, [refs_list(rng, n, hi=4), rng.randint(-2, 9)], [0], fuel=10))
    return cases


def stuck_cases(rng):
    """outside the model on purpose: the same cell iterated and appended to (Python: no termination), too little fuel"""
    out = []
    for _ in range(6):
        g = gen_graph(rng)
        n = len(g)
        objs = [rng.randrange(n) for _ in range(rng.randint(1, 4))]
        a, b = rng.choice([(0, 0), (0, -2), (-1, 1), (1, 1), (-2, 0)])
        if a in (1, -1):
            continue                # cells[1] is empty: Python terminates, and so does the model (checked among the cases)
        out.append(Case("merge", g, [objs, a, b], [0], expect_stuck=True))
    for _ in range(4):
        g = gen_graph(rng)
        out.append(Case("countdown", g, [[0], 9], [0], expect_stuck=True, fuel=3))
    return out


def run_suite(rng, work, heap, name, src, funcs, types, heapdecl, cases_of, pysrc=None, extra_checks=None):
    """translate, run CPython and Coq, compare -> (number of cases, exceptions, stuck, indices of disagreements, cases, outcomes)"""
    open(os.path.join(work, "pkg", name.lower() + ".py"), "w").write(src)
    spec = {"frontend": "heap", "source": "pkg/%s.py" % name.lower(), "module": name, "functions": funcs, "heap": heapdecl,
            "types": types}
    text, info = heap.translate_spec(work, spec)
    fts = dict(heap.LAST_TRANSLATORS)
    open(os.path.join(work, name + ".v"), "w").write(text)
    ns = {}
    exec(compile(pysrc or src, name.lower() + ".py", "exec"), ns)
    cases = cases_of(rng)
    checks, outcomes = [], []
    for c in cases:
        ft = fts[c.fn]
        out = ("stuck",) if c.expect_stuck else run_python(ns, c, ft)
        outcomes.append(out)
        checks.append(coq_check(c, ft, out, len(c.graph)))
    if extra_checks:
        more = extra_checks(rng, ns, fts)
        checks += [m[1] for m in more]
        cases += [m[0] for m in more]
        outcomes += [("ret",)] * len(more)
    with open(os.path.join(work, name + "Cases.v"), "w") as f:
        f.write(HEADER.replace("@MODULE@", name))
        f.write("Definition results : list bool := [\n  %s\n].\n" % ";\n  ".join(checks))
        f.write("Definition bad : list nat := map fst (filter (fun p => negb (snd p)) (combine (seq 0 (length results)) results)).\n")
        f.write("Eval vm_compute in bad.\n")
    flags = ["-Q", work, "ArtapGen", "-Q", os.path.join(VERIF, "coq", "theories"), "Artap"]
    for fn in (name + ".v", name + "Cases.v"):
        p = subprocess.run(["coqc"] + flags + [os.path.join(work, fn)], capture_output=True, text=True, timeout=1200)
        if p.returncode != 0:
            print("coqc failed on %s:\n%s" % (fn, p.stderr[-3000:]))
            print("work directory:", work)
            return None
    import re
    m = re.search(r"=\s*\[([0-9;\s]*)\]", p.stdout.replace("%nat", ""))
    bad = [int(x) for x in m.group(1).replace("\n", " ").split(";") if x.strip()] if m else None
    if bad is None:
        print("cannot parse the Coq output:\n" + p.stdout[-2000:])
        return None
    nexc = sum(1 for o in outcomes if o[0] == "exc")
    nstuck = sum(1 for o in outcomes if o[0] == "stuck")
    print("%s: %d functions, %d cases (%d exceptions, %d outside the model on purpose): %d disagreements"
          % (name, len(funcs), len(cases), nexc, nstuck, len(bad)))
    for i in bad[:10]:
        c = cases[i]
        print("  DISAGREE case %d: %s graph=%r args=%r python=%r" % (i, c.fn, c.graph, c.args, outcomes[i]))
    return bad


def cases2(rng):
    cases = []
    for _ in range(int(os.environ.get("SELFTEST_CASES", "60"))):
        g = gen_graph(rng)
        n = len(g)
        cases.append(Case("relabel", g, [refs_list(rng, n, hi=6), rng.randint(0, 3)], [0]))
        cases.append(Case("find2", g, [refs_list(rng, n, hi=6), rng.randint(0, 5)], [0]))
        cases.append(Case("relabel_find", g, [refs_list(rng, n, hi=6), rng.randint(0, 2), rng.randint(0, 6)], [0]))
    return cases


def init_checks(rng, ns, fts):
    """prefix mode + global cell: Thing(k) takes the id from the class counter and advances it by two"""
    out = []
    ft = fts["Thing.__init__"]
    for _ in range(20):
        c0 = rng.randint(0, 50)
        ns["Thing"].counter = c0
        t = ns["Thing"](3)
        ids = [rng.randint(0, 9) for _ in range(4)]
        r = rng.randrange(4)
        after = list(ids)
        after[r] = t.id
        call = "(%s %s (tab %s 0%%nat) %s)" % (ft.inst_name, cnat(r), clist(ids, cnat), cnat(c0))
        chk = ("match %s with inl (inr r_) => (let '(_, h_, c_) := r_ in leqb Nat.eqb (obs 4 h_) %s && Nat.eqb c_ %s) "
               "| _ => false end" % (call, clist(after, cnat), cnat(ns["Thing"].counter)))
        out.append((Case("Thing.__init__", [], [r, c0], []), chk))
    return out


def main():
    rng = random.Random(int(os.environ.get("SELFTEST_SEED", "20261002")))
    work = tempfile.mkdtemp(prefix="py2coq_heap_selftest_")
    os.makedirs(os.path.join(work, "pkg"))
    heap = py2coq._frontend("heap")
    pysrc = SRC
    if os.environ.get("SELFTEST_FAULT"):
        # fault injection: CPython runs a slightly different source; the comparison must notice
        for a, b in [("b.features['k'] += 10", "b.features['k'] += 11"), ("                q.features['k'] += 1", "                p.features['k'] += 1"),
                     ("front[-1].features['cd'] = math.inf", "front[-2].features['cd'] = math.inf"),
                     ("c = a\n", "c = b\n"), ("fronts[k - 1].append(o)\n    while", "fronts[k - 1].append(o)\n            break\n    while"),
                     ("cells[-1].append(o)", "cells[0].append(o)"), ("xs[v] = i", "xs[v] = i + 1"),
                     ("if o.id == ident:", "if o.id == ident and o.features['k'] > 0:")]:
            assert a in pysrc, a
            pysrc = pysrc.replace(a, b, 1)
    per = int(os.environ.get("SELFTEST_CASES", "60"))
    bad1 = run_suite(rng, work, heap, "SynthGen", SRC, FUNCS, TYPES, HEAP, lambda r: gen_cases(r, per) + stuck_cases(r), pysrc=pysrc)
    bad2 = run_suite(rng, work, heap, "SynthGen2", SRC2, FUNCS2, TYPES2, HEAP2, cases2, extra_checks=init_checks)
    if bad1 is None or bad2 is None:
        return 1
    bad = bad1 + bad2
    # sources that must be rejected
    wrong = 0
    for item in REJECT:
        what, fsrc = item[0], item[1]
        helpers = "def spread(front, dim):" + SRC.split("def spread(front, dim):")[1].split("def spread_each")[0]
        src = "import math\n\n\n" + helpers + fsrc
        open(os.path.join(work, "pkg", "rej.py"), "w").write(src)
        rspec = {"frontend": "heap", "source": "pkg/rej.py", "module": "RejGen", "heap": HEAP,
                 "functions": [["", "spread"], ["", "spread_all"], ["", "f"]],
                 "types": {"spread": TYPES["spread"], "spread_all": TYPES["spread_all"],
                           "f": {"params": {"objs": "list ind"}, "returns": "nat" if "return" in fsrc else "unit",
                                 "locals": {"cells": "list list ind", "xs": "list nat", "k": "nat", "n": "Z", "z": "nat", "shared": "list nat", "ys": "list ind"},
                                 "calls": {"spread": "spread", "spread_all": "spread_all"}}}}
        try:
            heap.translate_spec(work, rspec)
            print("  NOT REJECTED: %s" % what)
            wrong += 1
        except py2coq.Unsupported as e:
            if os.environ.get("SELFTEST_VERBOSE"):
                print("  rejected `%s`: %s" % (what, e))
        except Exception as e:          # anything else is a bug of the translator
            print("  CRASH on `%s`: %r" % (what, e))
            wrong += 1
    print("%d sources outside the subset: %d not rejected" % (len(REJECT), wrong))
    if bad or wrong:
        print("work directory:", work)
        return 1
    import shutil
    shutil.rmtree(work, ignore_errors=True)
    return 0


if __name__ == "__main__":
    sys.exit(main())
