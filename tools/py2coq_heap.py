#!/usr/bin/env python3
"""py2coq_heap - front-end of tools/py2coq.py for functions that write fields of objects held in lists.

A spec with "frontend": "heap" is routed here by py2coq.translate_spec (the same hook py2coq_bench uses).

    {"frontend": "heap", "source": "artap/operators.py", "module": "FndsGen",
     "functions": [["", "crowding_distance"], ["Selector", "individual"], ["Selector", "fast_nondominated_sorting"]],
     "heap": {"record": "ind", "ext": true,
              "fields": [["id", "nat"], ["costs_signed", "list T"],
                         ["features[\"domination_counter\"]", "Z"], ["features[\"front_number\"]", "opt nat"],
                         ["features[\"dominate\"]", "list nat"], ["features[\"crowding_distance\"]", "E"]]},
     "types": {"crowding_distance": {"as": "crowding_gen", "params": {"front": "list ind"}, "writes": ["front"],
                                     "returns": "unit"},
               "Selector.fast_nondominated_sorting": {"as": "fnds_gen", "params": {"individuals": "list ind"},
                    "returns": "unit", "locals": {"front_number": "nat", "pareto_front": "list list ind"},
                    "oracles": [["self.comparator.compare", ["list T", "list T"], "nat"]],
                    "calls": {"self.individual": "Selector.individual", "crowding_distance": "crowding_distance"}}}}

THE HEAP MODEL (see notes/TRANSLATOR.md, "Phase 5: heap model", for the aliasing discipline and the trusted part)

* An object of the record type is an IDENTITY, a natural number (`ind` is rendered as `nat`).  Any expression of that
  type (a local, a loop variable, `xs[i]`, the result of a lookup) is a reference; references are copied freely and
  two references denote the same object iff they are the same number: aliasing between references is exact.
* The object store is one function per declared field, `h_<field> : nat -> V`, for the fields some function of the
  module WRITES; a write `e.f = v` is `h_f := h_upd h_f e v` (functional update of one cell), a read `e.f` through any
  alias is `h_f e`.  Fields no function writes are Section accessors `f_<field> : nat -> V`.  The store a function
  starts from is a parameter, the store it leaves is part of its result (after the returned value and the lists it
  modified in place): `(value, lists..., stores...)`.
* Lists are VALUES.  That is only sound under the discipline the translator enforces (everything else is
  `Unsupported`): a list-valued local / field / element of a list of lists is only ever bound to a FRESH list, is
  modified only through its one name (`xs.append`, `obj.f.append`, `xss[i].append`, `xs.sort`, `xs.pop`), is never
  stored under a second name; a loop over a list may not modify that list, with ONE dynamic exception: a loop over
  `xss[i]` whose body appends to `xss[j]` is guarded by a run-time test that the two cells differ (otherwise the result
  is `h_stuck`, "outside the model", and the equivalence theorem shows it never happens).
* Outcomes: `res S R = (S + R) + bool`: `h_next s` (fall through with state s), `h_ret r` (the function returned r),
  `h_exc` (a Python exception: IndexError, AttributeError of None), `h_stuck` (outside the model: out of fuel,
  untracked aliasing).  A generated function has type `... -> res unit R`.

Stdlib only.  Everything outside the subset raises `Unsupported` with the construct and its line.
"""
import ast
import hashlib
import importlib.util
import json
import os
import re
import sys
import textwrap

HERE = os.path.dirname(os.path.abspath(__file__))


def _load_base():
    path = os.path.join(HERE, "py2coq.py")
    for m in list(sys.modules.values()):
        f = getattr(m, "__file__", None)
        if f and os.path.abspath(f) == path and hasattr(m, "Unsupported") and hasattr(m, "find_function"):
            return m
    spec = importlib.util.spec_from_file_location("py2coq_base_for_heap", path)
    m = importlib.util.module_from_spec(spec)
    spec.loader.exec_module(m)
    return m


B = _load_base()
Unsupported = B.Unsupported
find_function, function_source, function_infos = B.find_function, B.function_source, B.function_infos
dotted, tokens, const_name, float_literal = B.dotted, B.tokens, B.const_name, B.float_literal

PRELUDE = '''From Coq Require Import List ZArith Bool Arith Floats.
Import ListNotations.

(* outcomes of a statement sequence: fall through with a state / the function returned / a Python exception
   (inr true) / outside the model: out of fuel or untracked aliasing (inr false) *)
Definition res (S R : Type) : Type := ((S + R) + bool)%type.
Definition h_next {S R : Type} (s : S) : res S R := inl (inl s).
Definition h_ret {S R : Type} (r : R) : res S R := inl (inr r).
Definition h_exc {S R : Type} : res S R := inr true.
Definition h_stuck {S R : Type} : res S R := inr false.
Definition h_bind {S S' R : Type} (m : res S R) (k : S -> res S' R) : res S' R :=
  match m with inl (inl s) => k s | inl (inr r) => inl (inr r) | inr b => inr b end.
(* an operation that can raise: None = the exception *)
Definition h_get {A S R : Type} (o : option A) (k : A -> res S R) : res S R :=
  match o with Some a => k a | None => h_exc end.
(* a call of a translated function: its returned value continues the caller *)
Definition h_call {A S R : Type} (m : res unit A) (k : A -> res S R) : res S R :=
  match m with inl (inr a) => k a | inl (inl _) => h_stuck | inr b => inr b end.
(* for x in xs: body *)
Fixpoint h_for {S X R : Type} (body : S -> X -> res S R) (xs : list X) (s : S) : res S R :=
  match xs with
  | [] => h_next s
  | x :: xs' => h_bind (body s x) (h_for body xs')
  end.
(* the object store: one cell per identity, functional update *)
Definition h_upd {V : Type} (h : nat -> V) (r : nat) (v : V) : nat -> V :=
  fun i => if Nat.eqb i r then v else h i.
Definition h_is_none {A : Type} (o : option A) : bool := match o with None => true | Some _ => false end.
(* Python: the position an integer index k denotes in a sequence of length n (k < 0 counts from the end) *)
Definition h_zindex (k : Z) (n : nat) : option nat :=
  if (0 <=? k)%Z then Some (Z.to_nat k)
  else if (0 <=? Z.of_nat n + k)%Z then Some (Z.to_nat (Z.of_nat n + k)) else None.
Definition h_nth_z {A : Type} (xs : list A) (k : Z) : option A :=
  match h_zindex k (length xs) with Some i => nth_error xs i | None => None end.
Fixpoint h_modify {A : Type} (i : nat) (f : A -> A) (l : list A) : option (list A) :=
  match l, i with
  | [], _ => None
  | y :: l', O => Some (f y :: l')
  | y :: l', S i' => match h_modify i' f l' with Some r => Some (y :: r) | None => None end
  end.
(* xss[k] modified in place (xss[k].append(e), xs[k] = e) *)
Definition h_modify_z {A : Type} (xs : list A) (k : Z) (f : A -> A) : option (list A) :=
  match h_zindex k (length xs) with Some i => h_modify i f xs | None => None end.
(* do two indices denote one cell of a sequence of length n? *)
Definition h_same_cell (a b : option nat) : bool :=
  match a, b with Some i, Some j => Nat.eqb i j | _, _ => false end.
Definition h_pop {A : Type} (xs : list A) : option (list A) :=
  match xs with [] => None | _ :: _ => Some (removelast xs) end.
Fixpoint h_mapm {A K : Type} (f : A -> option K) (l : list A) : option (list K) :=
  match l with
  | [] => Some []
  | x :: l' => match f x, h_mapm f l' with Some k, Some r => Some (k :: r) | _, _ => None end
  end.
(* list.sort(key=...): the keys are computed first, then a stable sort that only asks `key(y) < key(x)`
   (insertion from the right; leb p q = not (key q < key p)) *)
Definition h_insert {A : Type} (leb : A -> A -> bool) : A -> list A -> list A :=
  fix ins (x : A) (l : list A) {struct l} : list A :=
    match l with
    | [] => [x]
    | y :: l' => if leb x y then x :: l else y :: ins x l'
    end.
Definition h_ssort {A : Type} (leb : A -> A -> bool) (l : list A) : list A := fold_right (h_insert leb) [] l.
Definition h_sort_by {A K : Type} (ltb : K -> K -> bool) (ks : list K) (xs : list A) : list A :=
  map snd (h_ssort (fun p q : K * A => negb (ltb (fst q) (fst p))) (combine ks xs)).
'''

RESERVED = set("""
T E Z N nat bool list option Some None true false fst snd length combine fold_left fold_right nth_error removelast seq
ltb leb eqb add sub mul div neg negb andb orb if then else let in match with end fun forall exists as at return Type
Prop Set fix cofix struct where using Definition Record Section End Variable Context Fixpoint st el x r O S app rev map
pair unit tt Nat Bool List res fuel inl inr sum prod id float
""".split())

T_OPS = ["ltb", "leb", "eqb", "add", "sub", "mul", "div", "neg"]
T_OP_TYPE = {"ltb": "T -> T -> bool", "leb": "T -> T -> bool", "eqb": "T -> T -> bool", "add": "T -> T -> T",
             "sub": "T -> T -> T", "mul": "T -> T -> T", "div": "T -> T -> T", "neg": "T -> T"}
E_OPS = ["e_inf", "e_inj", "e_add"]
E_OP_TYPE = {"e_inf": "E", "e_inj": "T -> E", "e_add": "E -> E -> E"}
FLOAT_INSTANCE = {"ltb": "PrimFloat.ltb", "leb": "PrimFloat.leb", "eqb": "PrimFloat.eqb", "add": "PrimFloat.add",
                  "sub": "PrimFloat.sub", "mul": "PrimFloat.mul", "div": "PrimFloat.div", "neg": "PrimFloat.opp",
                  "e_inf": "infinity", "e_inj": "(fun x : float => x)", "e_add": "PrimFloat.add"}


def mangle(name):
    if "." in name:                       # a global cell (class attribute) declared by the spec
        return "g_" + name.replace(".", "_")
    if name in RESERVED or name.startswith(("h_", "f_", "o_", "c_", "e_", "tmp_", "Build_")) \
            or name.endswith(("_gen", "_body", "_f")) or "__" in name or re.search(r"_[lw]\d+$", name):
        return name.replace("__", "_u_") + "_v"
    return name


# ----------------------------------------------------------------------------------------------
# types: "nat" "Z" "bool" "T" "E" "unit", ("ref", rec), ("list", t), ("opt", t), ("lit", v) for a bare integer literal
# ----------------------------------------------------------------------------------------------
SCALARS = ("nat", "Z", "bool", "T", "E", "unit")


def parse_type(s, rec):
    s = s.strip()
    if s in SCALARS:
        return s
    if s == rec:
        return ("ref", rec)
    if s.startswith("list "):
        return ("list", parse_type(s[5:], rec))
    if s.startswith("opt "):
        return ("opt", parse_type(s[4:], rec))
    raise Unsupported("unknown type %r in the spec" % s)


def coq_type(t):
    if t in SCALARS:
        return t
    if t[0] == "ref":
        return "nat"
    if t[0] == "list":
        return "(list %s)" % coq_type(t[1])
    if t[0] == "opt":
        return "(option %s)" % coq_type(t[1])
    raise Unsupported("type %r has no Coq rendering" % (t,))


def is_list(t):
    return isinstance(t, tuple) and t[0] == "list"


def is_ref(t):
    return isinstance(t, tuple) and t[0] == "ref"


def is_lit(t):
    return isinstance(t, tuple) and t[0] == "lit"


def tuple_of(items):
    if not items:
        return "tt"
    if len(items) == 1:
        return items[0]
    return "(%s)" % ", ".join(items)


def pattern_of(items):
    if not items:
        return "_"
    if len(items) == 1:
        return items[0]
    return "'(%s)" % ", ".join(items)


def prod_type(types):
    if not types:
        return "unit"
    if len(types) == 1:
        return types[0]
    return "(%s)%%type" % " * ".join(types)


def sub_index(n):
    sl = n.slice
    if isinstance(sl, ast.Index):      # python < 3.9
        sl = sl.value
    return sl


class Heap:
    """module-level declarations: the record type, its fields, which fields some function writes"""

    def __init__(self, spec):
        h = spec.get("heap")
        if not h or "record" not in h or "fields" not in h:
            raise Unsupported("heap front-end: the spec has no \"heap\": {\"record\", \"fields\"} declaration")
        self.rec = h["record"]
        if not re.fullmatch(r"[A-Za-z]\w*", self.rec) or self.rec in RESERVED or self.rec in SCALARS:
            raise Unsupported("record type name %r in the spec" % self.rec)
        self.ext = bool(h.get("ext"))
        self.fields = []                  # [(key, type, var)]
        for key, t in h["fields"]:
            var = re.sub(r"\W+", "_", re.sub(r'^features\["(\w+)"\]$', r"\1", key)).strip("_")
            if var in [f[2] for f in self.fields] or not var:
                raise Unsupported("field %r of the record: name clash" % key)
            self.fields.append((key, parse_type(t, self.rec), var))
        self.written = set()              # keys some function of the module writes (filled by the pre-pass)

    def field(self, key):
        for f in self.fields:
            if f[0] == key:
                return f
        return None


def field_of(node, heap):
    """`X.name` / `X.features['k']` for a declared field -> (node of X, key), else None"""
    if isinstance(node, ast.Attribute) and heap.field(node.attr) is not None:
        return node.value, node.attr
    if isinstance(node, ast.Subscript):
        sl = sub_index(node)
        if isinstance(sl, ast.Constant) and isinstance(sl.value, str) and isinstance(node.value, ast.Attribute):
            key = '%s["%s"]' % (node.value.attr, sl.value)
            if heap.field(key) is not None:
                return node.value.value, key
    return None


class K:
    """a continuation: code of what follows, as a function of the environment reached"""

    def __init__(self, fn, cheap=False, after=()):
        # after: the statements that can still run once the continuation is entered (for "is this list dead?" tests)
        self.fn, self.cheap, self.after = fn, cheap, list(after)

    def __call__(self, env):
        return self.fn(env)


def falls(stmts):
    """can control fall out of the end of the statement list?"""
    for i, s in enumerate(stmts):
        if isinstance(s, (ast.Return, ast.Continue)):
            return False
        if isinstance(s, ast.If) and not falls(s.body) and not falls(s.orelse):
            return False
    return True


class HeapFn:
    def __init__(self, mod, cls, name, fspec, node, done):
        self.mod, self.cls, self.pyname, self.spec, self.node, self.done = mod, cls, name, fspec, node, done
        self.heap = mod.heap
        self.qual = (cls + "." if cls else "") + name
        self.coq = fspec.get("as") or re.sub(r"\W", "_", name.strip("_")) + "_gen"
        self.base = self.coq[:-4] if self.coq.endswith("_gen") else self.coq
        pt = lambda t: parse_type(t, self.heap.rec)
        if "returns" not in fspec:
            raise Unsupported("the spec gives no return type", node, self.qual)
        self.ret_type = pt(fspec["returns"])
        a = node.args
        if a.vararg or a.kwarg or a.kwonlyargs or getattr(a, "posonlyargs", []):
            raise Unsupported("*args / **kwargs / keyword-only parameters", node, self.qual)
        for d in node.decorator_list:
            if not (isinstance(d, ast.Name) and d.id in ("staticmethod", "classmethod")):
                raise Unsupported("decorator", d, self.qual)
        names = [x.arg for x in a.args]
        self.params = []
        if cls and not any(isinstance(d, ast.Name) and d.id == "staticmethod" for d in node.decorator_list):
            self.selfname = names[0] if names else None
            names = names[1:]
            if fspec.get("self") and self.selfname:      # the method's own object is an object of the store
                self.params.append((self.selfname, pt(fspec["self"])))
                self.selfname = None
        else:
            self.selfname = None
        # prefix mode: only the first k statements of the body (after the docstring) are translated, as a function of
        # the parameters the spec types; what follows them in the source is NOT translated
        self.prefix = fspec.get("statements") if fspec.get("mode") == "prefix" else None
        for p in names:
            if p not in fspec.get("params", {}):
                if self.prefix is not None:
                    continue
                raise Unsupported("parameter %s has no type in the spec" % p, node, self.qual)
            self.params.append((p, pt(fspec["params"][p])))
        # global cells: class attributes read / written through the class name (`Individual.counter`)
        self.globals = [(g, pt(t)) for g, t in fspec.get("globals", [])]
        for g, t in self.globals:
            if not re.fullmatch(r"[A-Za-z_]\w*\.[A-Za-z_]\w*", g) or t not in ("nat", "Z"):
                raise Unsupported("global cell %r: `Class.attribute` of type nat / Z expected" % g, node, self.qual)
        self.lwrites = list(fspec.get("writes", []))       # list parameters modified in place
        for w in self.lwrites:
            if w not in names or not is_list(dict(self.params)[w]):
                raise Unsupported("writes: %s is not a list parameter" % w, node, self.qual)
        self.local_types = {k: pt(v) for k, v in fspec.get("locals", {}).items()}
        self.oracles = {}
        for o in fspec.get("oracles", []):
            self.oracles[o[0]] = ("o_" + re.sub(r"\W", "_", o[0].split(".")[-1]), [pt(t) for t in o[1]], pt(o[2]))
        self.calls = dict(fspec.get("calls", {}))
        for c, q in self.calls.items():
            if q not in done:
                raise Unsupported("calls: %s is not a function translated before this one" % q, node, self.qual)
        # heap fields this function (or a callee) writes / only reads although some function writes them
        self.wfields, self.rfields = self._field_use()
        self.fuel = has_while(self.body_stmts()) or any(done[q].fuel for q in self._callees())
        self.defs, self.nloop, self.nwhile, self.ntmp = [], 0, 0, 0
        self.used_ops, self.used_lits = set(), {}
        self.pre = None

    def body_stmts(self):
        body = list(self.node.body)
        if self.prefix is None:
            return body
        if body and isinstance(body[0], ast.Expr) and isinstance(body[0].value, ast.Constant) and isinstance(body[0].value.value, str):
            body = body[1:]
        if not isinstance(self.prefix, int) or self.prefix < 1 or len(body) < self.prefix:
            raise Unsupported("prefix mode: the function has fewer than %r statements" % (self.prefix,), self.node, self.qual)
        return body[:self.prefix]

    # ---------------------------------------------------------------------------------- pre-pass
    def _callees(self):
        out = []
        for n in (m for st in self.body_stmts() for m in ast.walk(st)):
            if isinstance(n, ast.Call):
                d = dotted(n.func)
                if d in self.calls and self.calls[d] not in out:
                    out.append(self.calls[d])
        return out

    def _field_use(self):
        w, r = [], []
        nodes = [m for st in self.body_stmts() for m in ast.walk(st)]
        for n in nodes:
            tg = []
            if isinstance(n, ast.Assign):
                tg = n.targets
            elif isinstance(n, ast.AugAssign):
                tg = [n.target]
            elif isinstance(n, ast.Call) and isinstance(n.func, ast.Attribute):
                tg = [n.func.value]            # obj.f.append(...)
                if field_of(n.func.value, self.heap) is None:
                    tg = []
            for t in tg:
                fo = field_of(t, self.heap)
                if fo and fo[1] not in w:
                    w.append(fo[1])
        for q in self._callees():
            for k in self.done[q].wfields:
                if k not in w:
                    w.append(k)
        self.heap.written.update(w)
        for n in nodes:
            fo = field_of(n, self.heap) if isinstance(n, (ast.Attribute, ast.Subscript)) else None
            if fo and fo[1] not in w and fo[1] in self.heap.written and fo[1] not in r:
                r.append(fo[1])
        for q in self._callees():
            for k in self.done[q].rfields:
                if k not in w and k not in r:
                    r.append(k)
        order = [f[0] for f in self.heap.fields]
        return sorted(w, key=order.index), sorted(r, key=order.index)

    # ---------------------------------------------------------------------------------- helpers
    def err(self, msg, node=None):
        return Unsupported(msg, node if node is not None else self.node, self.qual)

    def hvar(self, key):
        return "h_" + self.heap.field(key)[2]

    def fvar(self, key):
        return "f_" + self.heap.field(key)[2]

    def tmp(self):
        self.ntmp += 1
        return "tmp_%d" % self.ntmp

    def op(self, name):
        self.used_ops.add(name)
        return name

    def lit_T(self, v):
        nm = const_name(v)
        self.used_lits[nm] = float(v)
        return nm

    def result_items(self, value, env):
        return [value] + [mangle(w) for w in self.lwrites] + [self.hvar(k) for k in self.wfields] \
            + [mangle(g) for g, _ in self.globals]

    def result_type(self):
        ts = [coq_type(self.ret_type)] + [coq_type(dict(self.params)[w]) for w in self.lwrites] \
            + ["(nat -> %s)" % coq_type(self.heap.field(k)[1]) for k in self.wfields] \
            + [coq_type(t) for _, t in self.globals]
        return prod_type(ts)

    def state_type(self, name, env):
        if name.startswith("h:"):
            return "(nat -> %s)" % coq_type(self.heap.field(name[2:])[1])
        return coq_type(env[name])

    def state_var(self, name):
        return self.hvar(name[2:]) if name.startswith("h:") else mangle(name)

    # ---------------------------------------------------------------------------------- coercions
    def coerce(self, code, t, want, node):
        if want is None or t == want:
            if is_lit(t):
                raise self.err("integer literal whose type is not determined by its context", node)
            return code
        if is_lit(t):
            v = t[1]
            if want == "nat" and v >= 0:
                return str(v)
            if want == "Z":
                return "(%d)%%Z" % v
            if want == "T":
                return self.lit_T(v)
            if want == "E":
                return "(%s %s)" % (self.op("e_inj"), self.lit_T(v))
            raise self.err("integer literal %d where a value of type %s is expected" % (v, want), node)
        if t == "nat" and want == "Z":
            return "(Z.of_nat %s)" % code
        if t == "T" and want == "E":
            return "(%s %s)" % (self.op("e_inj"), code)
        if isinstance(want, tuple) and want[0] == "opt":
            if t == "none":
                return "None"
            if t == want[1]:
                return "(Some %s)" % code
        if t == "emptylist" and is_list(want):
            return "[]"
        if t == "none":
            raise self.err("None where a value of type %s is expected" % (want,), node)
        raise self.err("a value of type %s where %s is expected" % (t, want), node)

    # ---------------------------------------------------------------------------------- expressions
    def hoist(self, optcode):
        """an operation that can raise: bound before the statement, in evaluation order"""
        if self.pre is None:
            raise self.err("an operation that can raise in a position where it cannot be hoisted")
        v = self.tmp()
        self.pre.append((v, optcode))
        return v

    def expr(self, n, env, want=None):
        code, t = self._expr(n, env, want)
        return self.coerce(code, t, want, n), (want if want is not None else t)

    def num(self, n, env):
        """numeric operand: (code, type) with literals left open"""
        return self._expr(n, env, None)

    def _expr(self, n, env, want=None):
        if isinstance(n, ast.Constant):
            v = n.value
            if v is None:
                return "None", "none"
            if isinstance(v, bool):
                return ("true" if v else "false"), "bool"
            if isinstance(v, int):
                return None, ("lit", v)
            if isinstance(v, float):
                return self.lit_T(v), "T"
            raise self.err("constant %r" % (v,), n)
        if isinstance(n, ast.Name):
            if n.id in env:
                return mangle(n.id), env[n.id]
            raise self.err("name %s is not a parameter / a local bound on every path to here" % n.id, n)
        if isinstance(n, ast.UnaryOp):
            if isinstance(n.op, ast.USub):
                c, t = self.num(n.operand, env)
                if is_lit(t):
                    return None, ("lit", -t[1])
                if t == "T":
                    return "(%s %s)" % (self.op("neg"), c), "T"
                if t in ("Z", "nat"):
                    return "(- %s)%%Z" % self.coerce(c, t, "Z", n), "Z"
                raise self.err("unary minus on %s" % (t,), n)
            if isinstance(n.op, ast.Not):
                c, _ = self.expr(n.operand, env, "bool")
                return "(negb %s)" % c, "bool"
            raise self.err("unary operator", n)
        if isinstance(n, ast.BinOp):
            return self.binop(n, env)
        if isinstance(n, ast.Compare):
            return self.compare(n, env)
        if isinstance(n, ast.BoolOp):
            parts = []
            for v in n.values:
                k = len(self.pre) if self.pre is not None else 0
                c, _ = self.expr(v, env, "bool")
                if parts and self.pre is not None and len(self.pre) != k:
                    raise self.err("an operation that can raise inside a conditionally evaluated operand of and / or", v)
                parts.append(c)
            opn = " && " if isinstance(n.op, ast.And) else " || "
            return "(%s)" % opn.join(parts), "bool"
        if isinstance(n, ast.List):
            if not n.elts:
                if want is not None and is_list(want):
                    return "[]", want
                return "[]", "emptylist"
            if want is not None and is_list(want):
                items = [self.expr(e, env, want[1])[0] for e in n.elts]
                return "[%s]" % "; ".join(items), want
            first, t = self.expr(n.elts[0], env)
            items = [first] + [self.expr(e, env, t)[0] for e in n.elts[1:]]
            return "[%s]" % "; ".join(items), ("list", t)
        if isinstance(n, ast.Attribute) or isinstance(n, ast.Subscript):
            fo = field_of(n, self.heap)
            if fo:
                return self.field_read(fo[0], fo[1], env, n)
            if isinstance(n, ast.Attribute):
                d = dotted(n)
                if d in env and "." in d:                  # a declared global cell
                    return mangle(d), env[d]
                if d == "math.inf":
                    if not self.heap.ext or not self.mod.imports_math:
                        raise self.err("math.inf (needs \"ext\": true in the spec and a module-level `import math`)", n)
                    return self.op("e_inf"), "E"
                raise self.err("attribute %s (not a declared field)" % (d or n.attr), n)
            return self.subscript(n, env)
        if isinstance(n, ast.Call):
            return self.call_expr(n, env, want)
        raise self.err("expression %s" % type(n).__name__, n)

    def ref_of(self, xn, env):
        """code of an expression of the record type; an optional local is narrowed (None raises)"""
        c, t = self._expr(xn, env)
        if isinstance(t, tuple) and t[0] == "opt" and is_ref(t[1]):
            if not isinstance(xn, ast.Name):
                raise self.err("attribute of an optional value that is not a local name", xn)
            if self.pre is None:
                raise self.err("attribute of an optional value where it cannot be hoisted", xn)
            self.pre.append((mangle(xn.id), mangle(xn.id)))       # h_get q (fun q => ...): None raises AttributeError
            env[xn.id] = t[1]
            self.narrowed.append(xn.id)
            return mangle(xn.id)
        if not is_ref(t):
            raise self.err("attribute access on a value of type %s" % (t,), xn)
        return c

    def field_read(self, xn, key, env, n):
        x = self.ref_of(xn, env)
        ft = self.heap.field(key)[1]
        if key in self.heap.written:
            if key not in self.wfields and key not in self.rfields:
                raise self.err("internal: field %s" % key, n)
            return "(%s %s)" % (self.hvar(key), x), ft
        self.mod.used_accessors.add(key)
        return "(%s %s)" % (self.fvar(key), x), ft

    def subscript(self, n, env):
        sl = sub_index(n)
        if isinstance(sl, ast.Slice):
            if sl.lower is None and sl.step is None and isinstance(sl.upper, ast.UnaryOp) \
                    and isinstance(sl.upper.op, ast.USub) and isinstance(sl.upper.operand, ast.Constant) \
                    and sl.upper.operand.value == 1:
                c, t = self._expr(n.value, env)
                if not is_list(t):
                    raise self.err("slice of a value of type %s" % (t,), n)
                return "(removelast %s)" % c, t
            raise self.err("slice other than [:-1]", n)
        c, t = self._expr(n.value, env)
        if not is_list(t):
            raise self.err("subscript of a value of type %s" % (t,), n)
        return self.hoist(self.index_code(c, sl, env, n)), t[1]

    def index_code(self, c, sl, env, n):
        ic, it = self.num(sl, env)
        if is_lit(it):
            if it[1] >= 0:
                return "(nth_error %s %d)" % (c, it[1])
            return "(h_nth_z %s (%d)%%Z)" % (c, it[1])
        if it == "nat":
            return "(nth_error %s %s)" % (c, ic)
        if it == "Z":
            return "(h_nth_z %s %s)" % (c, ic)
        raise self.err("index of type %s" % (it,), n)

    def zcode(self, sl, env, n):
        ic, it = self.num(sl, env)
        if is_lit(it) or it in ("nat", "Z"):
            return self.coerce(ic, it, "Z", n)
        raise self.err("index of type %s" % (it,), n)

    def binop(self, n, env):
        a, ta = self.num(n.left, env)
        b, tb = self.num(n.right, env)
        opn = type(n.op).__name__
        if opn not in ("Add", "Sub", "Mult", "Div"):
            raise self.err("operator %s" % opn, n)
        if is_lit(ta) and is_lit(tb):
            if opn == "Div":
                raise self.err("division of integer literals", n)
            v = {"Add": ta[1] + tb[1], "Sub": ta[1] - tb[1], "Mult": ta[1] * tb[1]}[opn]
            return None, ("lit", v)
        kinds = {ta if not is_lit(ta) else None, tb if not is_lit(tb) else None} - {None}
        if kinds <= {"nat"} and opn in ("Add", "Mult"):
            x, y = self.coerce(a, ta, "nat", n), self.coerce(b, tb, "nat", n)
            return "(%s %s %s)" % (x, "+" if opn == "Add" else "*", y), "nat"
        if kinds <= {"nat", "Z"} and opn != "Div":
            x, y = self.coerce(a, ta, "Z", n), self.coerce(b, tb, "Z", n)
            return "(%s %s %s)%%Z" % (x, {"Add": "+", "Sub": "-", "Mult": "*"}[opn], y), "Z"
        if kinds <= {"T"}:
            x, y = self.coerce(a, ta, "T", n), self.coerce(b, tb, "T", n)
            return "(%s %s %s)" % (self.op({"Add": "add", "Sub": "sub", "Mult": "mul", "Div": "div"}[opn]), x, y), "T"
        if kinds <= {"T", "E"} and opn == "Add":
            x, y = self.coerce(a, ta, "E", n), self.coerce(b, tb, "E", n)
            return "(%s %s %s)" % (self.op("e_add"), x, y), "E"
        raise self.err("operator %s on %s and %s" % (opn, ta, tb), n)

    def compare(self, n, env):
        if len(n.ops) != 1:
            raise self.err("chained comparison", n)
        o, l, r = n.ops[0], n.left, n.comparators[0]
        if isinstance(o, (ast.Is, ast.IsNot)):
            if not (isinstance(r, ast.Constant) and r.value is None):
                raise self.err("`is` on a value other than None", n)
            c, t = self._expr(l, env)
            if not (isinstance(t, tuple) and t[0] == "opt"):
                raise self.err("`is None` on a value of type %s (not optional)" % (t,), n)
            code = "(h_is_none %s)" % c
            return (code if isinstance(o, ast.Is) else "(negb %s)" % code), "bool"
        a, ta = self.num(l, env)
        b, tb = self.num(r, env)
        opn = type(o).__name__
        if opn not in ("Eq", "NotEq", "Lt", "LtE", "Gt", "GtE"):
            raise self.err("comparison %s" % opn, n)
        if is_lit(ta) and is_lit(tb):
            raise self.err("comparison of two literals", n)
        kinds = {ta if not is_lit(ta) else None, tb if not is_lit(tb) else None} - {None}
        if opn in ("Gt", "GtE"):
            a, ta, b, tb = b, tb, a, ta
            opn = {"Gt": "Lt", "GtE": "LtE"}[opn]
        if kinds <= {"nat"} or kinds <= {"nat", "Z"}:
            w = "nat" if kinds <= {"nat"} else "Z"
            x, y = self.coerce(a, ta, w, n), self.coerce(b, tb, w, n)
            sym = {"Eq": "=?", "NotEq": "=?", "Lt": "<?", "LtE": "<=?"}[opn]
            code = "(%s %s %s)%s" % (x, sym, y, "%Z" if w == "Z" else "")
            return ("(negb %s)" % code if opn == "NotEq" else code), "bool"
        if kinds <= {"T"}:
            x, y = self.coerce(a, ta, "T", n), self.coerce(b, tb, "T", n)
            f = {"Eq": "eqb", "NotEq": "eqb", "Lt": "ltb", "LtE": "leb"}[opn]
            code = "(%s %s %s)" % (self.op(f), x, y)
            return ("(negb %s)" % code if opn == "NotEq" else code), "bool"
        raise self.err("comparison of %s and %s" % (ta, tb), n)

    def call_expr(self, n, env, want):
        if n.keywords:
            raise self.err("keyword arguments", n)
        d = dotted(n.func)
        if d == "len" and len(n.args) == 1 and "len" not in env and "len" not in self.mod.shadowed:
            c, t = self._expr(n.args[0], env)
            if not is_list(t):
                raise self.err("len of a value of type %s" % (t,), n)
            return "(length %s)" % c, "nat"
        if d in self.oracles:
            var, ats, rt = self.oracles[d]
            if len(ats) != len(n.args):
                raise self.err("oracle %s: %d arguments expected" % (d, len(ats)), n)
            args = [self.expr(a, env, t)[0] for a, t in zip(n.args, ats)]
            self.mod.used_oracles[var] = (ats, rt)
            return "(%s %s)" % (var, " ".join(args)), rt
        if d in self.calls:
            raise self.err("call of the translated function %s inside an expression (only `x = f(...)` / `f(...)`)" % d, n)
        raise self.err("call of %s" % (d or "<expression>"), n)

    # ---------------------------------------------------------------------------------- statements
    def wrap(self, pre, code):
        for v, oc in reversed(pre):
            code = "h_get %s (fun %s =>\n%s)" % (oc, v, code)
        return code

    def with_pre(self, fn):
        """run fn (which translates expressions) collecting hoisted operations -> (result, pre)"""
        old, self.pre = self.pre, []
        try:
            r = fn()
            return r, self.pre
        finally:
            self.pre = old

    def block(self, stmts, env, k):
        if not stmts:
            return k(env)
        st, rest = stmts[0], stmts[1:]
        if isinstance(st, ast.Expr) and isinstance(st.value, ast.Constant) and isinstance(st.value.value, str):
            return self.block(rest, env, k)
        if isinstance(st, (ast.Return, ast.Continue)) and rest:
            raise self.err("unreachable statement", rest[0])
        return self.stmt(st, rest, env, k)

    def cont(self, rest, k):
        return lambda env: self.block(rest, env, k)

    def stmt(self, st, rest, env, k):
        nxt = self.cont(rest, k)
        if isinstance(st, ast.Pass):
            return nxt(env)
        if isinstance(st, ast.Return):
            if self.ctx_fn is None:
                raise self.err("return", st)

            def f():
                if st.value is None:
                    if self.ret_type != "unit":
                        raise self.err("bare return in a function that returns %s" % (self.ret_type,), st)
                    return "tt"
                if self.ret_type == "unit":
                    raise self.err("return of a value in a function declared to return None", st)
                return self.expr(st.value, env, self.ret_type)[0]
            v, pre = self.with_pre(f)
            return self.wrap(pre, "h_ret %s" % tuple_of(self.result_items(v, env)))
        if isinstance(st, ast.Continue):
            if self.loop_k is None:
                raise self.err("continue outside a for loop", st)
            return self.loop_k(env)
        if isinstance(st, ast.Assign):
            return self.assign(st, env, nxt)
        if isinstance(st, ast.AugAssign):
            return self.augassign(st, env, nxt)
        if isinstance(st, ast.Expr):
            return self.expr_stmt(st, env, nxt)
        if isinstance(st, ast.If):
            return self.if_(st, rest, env, k)
        if isinstance(st, ast.For):
            return self.for_(st, rest, env, k)
        if isinstance(st, ast.While):
            return self.while_(st, rest, env, k)
        raise self.err("statement %s" % type(st).__name__, st)

    def fresh_list(self, n):
        """is the expression a list that nothing else refers to?"""
        if isinstance(n, ast.List):
            return all(self.fresh_elem(e) for e in n.elts)
        if isinstance(n, ast.Call) and dotted(n.func) == "list" and len(n.args) == 1 and not n.keywords \
                and "list" not in self.mod.shadowed:
            return True
        return False

    def fresh_elem(self, e):
        # an element of a list literal: a nested literal must itself be fresh; anything else is a scalar / reference
        if isinstance(e, ast.List):
            return self.fresh_list(e)
        return True

    def check_list_value(self, vn, t, env):
        """a list may only be bound under a new name if it is fresh (value semantics would hide the alias)"""
        if not (is_list(t) or (isinstance(t, tuple) and t[0] == "opt" and is_list(t[1]))):
            return
        if not self.fresh_list(vn):
            raise self.err("a list is bound to a second name / stored (only a fresh list literal or list(...) may be): "
                           "the alias could not be tracked", vn)
        self.check_no_list_elems(vn, env)

    def check_no_list_elems(self, vn, env):
        if isinstance(vn, ast.List):
            for e in vn.elts:
                if isinstance(e, ast.List):
                    self.check_no_list_elems(e, env)
                elif isinstance(e, ast.Name) and e.id in env and is_list(env[e.id]):
                    raise self.err("a list is stored as an element of another list under a second name", e)
                elif field_of(e, self.heap) and is_list(self.heap.field(field_of(e, self.heap)[1])[1]):
                    raise self.err("a list-valued field is stored as an element of a list", e)

    def list_call_value(self, vn):
        return isinstance(vn, ast.Call) and dotted(vn.func) == "list"

    def assign(self, st, env, nxt):
        if len(st.targets) != 1:
            raise self.err("chained assignment", st)
        tg, vn = st.targets[0], st.value
        # x = f(...) for a translated function
        if isinstance(vn, ast.Call) and dotted(vn.func) in self.calls:
            if not isinstance(tg, ast.Name):
                raise self.err("result of a translated function assigned to something other than a local", st)
            return self.call_stmt(vn, tg.id, env, nxt)
        fo = field_of(tg, self.heap)
        if fo:
            key = fo[1]
            ft = self.heap.field(key)[1]

            def f():
                x = self.ref_of(fo[0], env)
                v, _ = self.expr(self.unlist(vn), env, ft)
                return x, v
            self.check_list_value(vn, ft, env)
            (x, v), pre = self.with_pre(f)
            h = self.hvar(key)
            return self.wrap(pre, "let %s := h_upd %s %s %s in\n%s" % (h, h, x, v, nxt(env)))
        if isinstance(tg, ast.Attribute) and dotted(tg) in dict(self.globals):
            tg = ast.copy_location(ast.Name(id=dotted(tg), ctx=ast.Store()), tg)
        if isinstance(tg, ast.Name):
            self.check_target(tg.id, st)
            want = env.get(tg.id, self.local_types.get(tg.id))

            def f():
                return self.expr(self.unlist(vn), env, want)
            (v, t), pre = self.with_pre(f)
            if t in ("none", "emptylist") or is_lit(t):
                raise self.err("the type of local %s is not determined: declare it under \"locals\" in the spec" % tg.id, st)
            self.check_list_value(vn, t, env)
            env[tg.id] = t
            return self.wrap(pre, "let %s := %s in\n%s" % (mangle(tg.id), v, nxt(env)))
        if isinstance(tg, ast.Subscript):
            base = tg.value
            if isinstance(base, ast.Name) and base.id in env and is_list(env[base.id]):
                self.check_mutable(base.id, st)
                et = env[base.id][1]
                if is_list(et):
                    raise self.err("assignment of a list to an element of a list of lists", st)

                def f():
                    z = self.zcode(sub_index(tg), env, st)
                    v, _ = self.expr(vn, env, et)
                    return z, v
                (z, v), pre = self.with_pre(f)
                pre.append((mangle(base.id), "(h_modify_z %s %s (fun _ => %s))" % (mangle(base.id), z, v)))
                return self.wrap(pre, nxt(env))
        raise self.err("assignment target %s" % type(tg).__name__, st)

    def unlist(self, vn):
        """list(xs) of a list is a copy: by value it is xs"""
        if self.list_call_value(vn) and len(vn.args) == 1 and not vn.keywords and "list" not in self.mod.shadowed:
            return vn.args[0]
        return vn

    def check_target(self, name, st):
        if name == self.selfname:
            raise self.err("assignment to self", st)
        if name in [p for p, _ in self.params] and name not in self.lwrites and is_list(dict(self.params)[name]):
            raise self.err("list parameter %s is rebound" % name, st)
        if name in self.protected:
            raise self.err("%s is assigned inside a loop that iterates over it / uses it as a loop-invariant index" % name, st)

    def check_mutable(self, name, st):
        """in-place modification of the list called `name`"""
        if name in [p for p, _ in self.params] and name not in self.lwrites:
            raise self.err("list parameter %s is modified in place but not listed under \"writes\"" % name, st)
        if name in self.protected:
            raise self.err("list %s is modified inside a loop that iterates over it" % name, st)

    def augassign(self, st, env, nxt):
        tg = st.target
        fo = field_of(tg, self.heap)
        if fo:
            key = fo[1]
            ft = self.heap.field(key)[1]
            if is_list(ft):
                raise self.err("augmented assignment to a list-valued field", st)

            def f():
                # the object expression is evaluated once; the field is read through the same reference
                x = self.ref_of(fo[0], env)
                a, ta = "(%s %s)" % (self.hvar(key), x), ft
                b, tb = self.num(st.value, env)
                v = self.arith(a, ta, b, tb, st.op, st)
                return x, self.coerce(v[0], v[1], ft, st)
            (x, v), pre = self.with_pre(f)
            h = self.hvar(key)
            return self.wrap(pre, "let %s := h_upd %s %s %s in\n%s" % (h, h, x, v, nxt(env)))
        if isinstance(tg, ast.Attribute) and dotted(tg) in dict(self.globals):
            tg = ast.copy_location(ast.Name(id=dotted(tg), ctx=ast.Store()), tg)
        if isinstance(tg, ast.Name):
            if tg.id not in env:
                raise self.err("augmented assignment to an unbound name %s" % tg.id, st)
            self.check_target(tg.id, st)
            t = env[tg.id]
            if is_list(t):
                raise self.err("augmented assignment to a list", st)

            def f():
                b, tb = self.num(st.value, env)
                v = self.arith(mangle(tg.id), t, b, tb, st.op, st)
                return self.coerce(v[0], v[1], t, st)
            v, pre = self.with_pre(f)
            return self.wrap(pre, "let %s := %s in\n%s" % (mangle(tg.id), v, nxt(env)))
        raise self.err("augmented assignment target", st)

    def arith(self, a, ta, b, tb, op, n):
        """a op b on already translated operands"""
        opn = type(op).__name__
        if opn not in ("Add", "Sub", "Mult", "Div"):
            raise self.err("operator %s" % opn, n)
        kinds = {ta if not is_lit(ta) else None, tb if not is_lit(tb) else None} - {None}
        if kinds <= {"nat"} and opn in ("Add", "Mult"):
            x, y = self.coerce(a, ta, "nat", n), self.coerce(b, tb, "nat", n)
            return "(%s %s %s)" % (x, "+" if opn == "Add" else "*", y), "nat"
        if kinds <= {"nat", "Z"} and opn != "Div":
            x, y = self.coerce(a, ta, "Z", n), self.coerce(b, tb, "Z", n)
            return "(%s %s %s)%%Z" % (x, {"Add": "+", "Sub": "-", "Mult": "*"}[opn], y), "Z"
        if kinds <= {"T"}:
            x, y = self.coerce(a, ta, "T", n), self.coerce(b, tb, "T", n)
            return "(%s %s %s)" % (self.op({"Add": "add", "Sub": "sub", "Mult": "mul", "Div": "div"}[opn]), x, y), "T"
        if kinds <= {"T", "E"} and opn == "Add":
            x, y = self.coerce(a, ta, "E", n), self.coerce(b, tb, "E", n)
            return "(%s %s %s)" % (self.op("e_add"), x, y), "E"
        raise self.err("operator %s on %s and %s" % (opn, ta, tb), n)

    def expr_stmt(self, st, env, nxt):
        c = st.value
        if not isinstance(c, ast.Call):
            raise self.err("expression statement", st)
        d = dotted(c.func)
        if d in self.calls:
            return self.call_stmt(c, None, env, nxt)
        if not isinstance(c.func, ast.Attribute):
            raise self.err("call of %s as a statement" % (d or "<expression>"), st)
        meth, tn = c.func.attr, c.func.value
        if meth == "append" and len(c.args) == 1 and not c.keywords:
            arg = c.args[0]
            fo = field_of(tn, self.heap)
            if fo:                                           # obj.f.append(e)
                key = fo[1]
                ft = self.heap.field(key)[1]
                if not is_list(ft):
                    raise self.err("append to a field of type %s" % (ft,), st)

                def f():
                    x = self.ref_of(fo[0], env)
                    return x, self.expr(arg, env, ft[1])[0]
                self.check_list_value(arg, ft[1], env)
                (x, v), pre = self.with_pre(f)
                h = self.hvar(key)
                return self.wrap(pre, "let %s := h_upd %s %s (%s %s ++ [%s]) in\n%s" % (h, h, x, h, x, v, nxt(env)))
            if isinstance(tn, ast.Name) and tn.id in env and is_list(env[tn.id]):      # xs.append(e)
                self.check_mutable(tn.id, st)
                et = env[tn.id][1]
                self.check_list_value(arg, et, env)

                def f():
                    return self.expr(arg, env, et)[0]
                v, pre = self.with_pre(f)
                return self.wrap(pre, "let %s := %s ++ [%s] in\n%s" % (mangle(tn.id), mangle(tn.id), v, nxt(env)))
            if isinstance(tn, ast.Subscript) and isinstance(tn.value, ast.Name) and tn.value.id in env \
                    and is_list(env[tn.value.id]) and is_list(env[tn.value.id][1]):    # xss[i].append(e)
                outer = tn.value.id
                if outer in [p for p, _ in self.params] and outer not in self.lwrites:
                    raise self.err("list parameter %s is modified in place but not listed under \"writes\"" % outer, st)
                if outer in self.protected and outer not in self.nested_ok:
                    raise self.err("list %s is modified inside a loop that iterates over it" % outer, st)
                et = env[outer][1][1]
                self.check_list_value(arg, et, env)

                def f():
                    z = self.zcode(sub_index(tn), env, st)
                    return z, self.expr(arg, env, et)[0]
                (z, v), pre = self.with_pre(f)
                pre.append((mangle(outer), "(h_modify_z %s %s (fun l_ => l_ ++ [%s]))" % (mangle(outer), z, v)))
                return self.wrap(pre, nxt(env))
            raise self.err("append to something that is not a local list / a list field / an element of a list of lists", st)
        if meth == "pop" and not c.args and not c.keywords and isinstance(tn, ast.Name) and tn.id in env \
                and is_list(env[tn.id]):
            self.check_mutable(tn.id, st)
            return "h_get (h_pop %s) (fun %s =>\n%s)" % (mangle(tn.id), mangle(tn.id), nxt(env))
        if meth == "sort" and not c.args and len(c.keywords) == 1 and c.keywords[0].arg == "key" \
                and isinstance(tn, ast.Name) and tn.id in env and is_list(env[tn.id]):
            self.check_mutable(tn.id, st)
            lam = c.keywords[0].value
            if not (isinstance(lam, ast.Lambda) and len(lam.args.args) == 1 and not lam.args.defaults
                    and not lam.args.vararg and not lam.args.kwarg and not lam.args.kwonlyargs):
                raise self.err("sort key that is not a one-parameter lambda", st)
            xv = lam.args.args[0].arg
            env2 = dict(env)
            env2[xv] = env[tn.id][1]
            (kc, kt), kpre = self.with_pre(lambda: self.expr(lam.body, env2))
            if kt != "T":
                raise self.err("sort key of type %s (only T)" % (kt,), st)
            if kpre and kpre[-1][0] == kc:
                body, kpre = kpre[-1][1], kpre[:-1]
            else:
                body = "(Some %s)" % kc
            for v, oc in reversed(kpre):
                body = "match %s with Some %s => %s | None => None end" % (oc, v, body)
            keys = self.tmp()
            name = mangle(tn.id)
            return "h_get (h_mapm (fun %s => %s) %s) (fun %s =>\nlet %s := h_sort_by %s %s %s in\n%s)" % (
                mangle(xv), body, name, keys, name, self.op("ltb"), keys, name, nxt(env))
        raise self.err("method call .%s(...) as a statement" % meth, st)

    def call_stmt(self, c, target, env, nxt):
        """f(args) / x = f(args) for a translated function f: its writes are rebound in the caller"""
        callee = self.done[self.calls[dotted(c.func)]]
        if c.keywords or len(c.args) != len(callee.params):
            raise self.err("call of %s: positional arguments for every parameter expected" % callee.qual, c)
        seen = []

        def f():
            args = []
            for a, (pn, pt_) in zip(c.args, callee.params):
                if is_list(pt_):
                    if not isinstance(a, ast.Name) or a.id not in env:
                        raise self.err("list argument of %s that is not a local name" % callee.qual, a)
                    if a.id in seen:
                        raise self.err("one list passed twice to %s" % callee.qual, a)
                    seen.append(a.id)
                    if pn in callee.lwrites:
                        self.check_mutable(a.id, c)
                        self.check_written_alias(a.id, c)
                args.append(self.expr(a, env, pt_)[0])
            return args
        args, pre = self.with_pre(f)
        hs = [self.hvar(k) for k in sorted(set(callee.wfields) | set(callee.rfields), key=[f_[0] for f_ in self.heap.fields].index)]
        for k in callee.wfields:
            if k not in self.wfields:
                raise self.err("internal: callee writes %s" % k, c)
        if target is not None:
            self.check_target(target, c)
            if callee.ret_type == "unit":
                raise self.err("%s returns None" % callee.qual, c)
            if target in env and env[target] != callee.ret_type:
                raise self.err("local %s changes its type" % target, c)
            vpat = mangle(target)
        else:
            vpat = "_"
        pat = [vpat] + [mangle(a.id) for a, (pn, _) in zip(c.args, callee.params) if pn in callee.lwrites] \
            + [self.hvar(k) for k in callee.wfields]
        code = "h_call (%s %s)" % (callee.coq, " ".join(args + hs + (["fuel"] if callee.fuel else [])))
        if target is not None:
            env[target] = callee.ret_type
        return self.wrap(pre, "%s (fun %s =>\n%s)" % (code, pattern_of(pat), nxt(env)))

    def check_written_alias(self, name, c):
        """a list that a callee modifies in place is, by value, only updated under the name it was passed as: when
        that name is a loop variable, the list it was taken from must be dead (never read again)"""
        for lv, src in self.loop_vars:
            if lv == name and src is not None:
                for s in src[1]:
                    for m in ast.walk(s):
                        if isinstance(m, ast.Name) and m.id == src[0]:
                            raise self.err("%s, an element of %s, is modified in place by a call, and %s is used again "
                                           "afterwards (the modification would be lost)" % (name, src[0], src[0]), c)

    # ---------------------------------------------------------------------------------- if
    def if_(self, st, rest, env, k):
        # `if a and b:` without else whose operands can raise: nested ifs
        test = st.test
        ntmp = self.ntmp
        try:
            self.with_pre(lambda: self.expr(test, dict(env), "bool"))
        except Unsupported as e:
            self.ntmp = ntmp
            if isinstance(test, ast.BoolOp) and isinstance(test.op, ast.And) and not st.orelse and "conditionally" in e.msg:
                inner = st.body
                for v in reversed(test.values):
                    inner = [ast.copy_location(ast.If(test=v, body=inner, orelse=[]), st)]
                return self.stmt(inner[0], rest, env, k)
            raise
        self.ntmp = ntmp
        # translate the test again on the real environment (narrowing of optional locals applies to both branches)
        (c, _), pre = self.with_pre(lambda: self.expr(test, env, "bool"))
        fa, fb = falls(st.body), falls(st.orelse)
        if fa and fb and not (not rest and k.cheap):
            before = dict(env)
            names = [v for v in effects(st.body + st.orelse, self) if (v.startswith("h:") or v in before)]
            ends = []

            def join(e):
                ends.append(e)
                return "h_next %s" % tuple_of([self.state_var(v) for v in names])
            jk = K(join, cheap=True, after=rest + k.after)
            a = self.block(st.body, dict(env), jk)
            b = self.block(st.orelse, dict(env), jk)
            for e in ends:
                for v in names:
                    if not v.startswith("h:") and e.get(v) != before[v]:
                        raise self.err("local %s has different types on the two paths of the if" % v, st)
            env2 = dict(before)
            code = "h_bind (if %s\nthen %s\nelse %s) (fun %s =>\n%s)" % (
                c, a, b, pattern_of([self.state_var(v) for v in names]), self.block(rest, env2, k))
            return self.wrap(pre, code)
        kk = K(lambda e: self.block(rest, e, k), cheap=(not rest and k.cheap), after=rest + k.after)
        a = self.block(st.body, dict(env), kk)
        b = self.block(st.orelse, dict(env), kk)
        return self.wrap(pre, "if %s\nthen %s\nelse %s" % (c, a, b))

    # ---------------------------------------------------------------------------------- loops
    def free_vars(self, code, env, exclude):
        """variables of the enclosing scope the code reads, in the order of their first occurrence"""
        cands = {}
        for nme in env:
            if nme not in exclude and not nme.startswith("\0"):
                cands[mangle(nme)] = coq_type(env[nme])
        for key in self.wfields + self.rfields:
            if "h:" + key not in exclude:
                cands[self.hvar(key)] = "(nat -> %s)" % coq_type(self.heap.field(key)[1])
        if self.fuel and "fuel" not in exclude:
            cands["fuel"] = "nat"
        out = []
        for m in re.finditer(r"[A-Za-z_][A-Za-z_0-9']*", code):
            w = m.group(0)
            if w in cands and w not in [o[0] for o in out]:
                out.append((w, cands[w]))
        return out

    def for_(self, st, rest, env, k):
        if st.orelse:
            raise self.err("for ... else", st)
        self.nloop += 1
        num = self.nloop
        it = st.iter
        protect, nested_ok, src = [], [], None
        guard = None
        targets = None

        def names_in(n):
            return [m.id for m in ast.walk(n) if isinstance(m, ast.Name)]

        def f():
            nonlocal targets, protect, src, guard, nested_ok
            d = dotted(it.func) if isinstance(it, ast.Call) else None
            if d == "enumerate" and len(it.args) == 1 and not it.keywords and "enumerate" not in self.mod.shadowed:
                if not (isinstance(st.target, ast.Tuple) and len(st.target.elts) == 2
                        and all(isinstance(e, ast.Name) for e in st.target.elts)):
                    raise self.err("enumerate loop whose target is not a pair of names", st)
                xs = it.args[0]
                if not isinstance(xs, ast.Name):
                    raise self.err("enumerate of something that is not a list name", st)
                c, t = self._expr(xs, env)
                if not is_list(t):
                    raise self.err("enumerate of a value of type %s" % (t,), st)
                if is_list(t[1]):
                    raise self.err("loop over a list of lists by enumerate", st)
                protect = [xs.id]
                targets = [(st.target.elts[0].id, "nat"), (st.target.elts[1].id, t[1])]
                return "(combine (seq 0 (length %s)) %s)" % (c, c)
            if not isinstance(st.target, ast.Name):
                raise self.err("loop target that is not a name", st)
            if d == "range" and 1 <= len(it.args) <= 2 and not it.keywords and "range" not in self.mod.shadowed:
                if len(it.args) == 1:
                    lo, tlo = None, ("lit", 0)
                    hi, thi = self.num(it.args[0], env)
                else:
                    lo, tlo = self.num(it.args[0], env)
                    hi, thi = self.num(it.args[1], env)
                if not (is_lit(tlo) and tlo[1] >= 0) and tlo != "nat":
                    raise self.err("range whose lower bound is not a natural number", st)
                if not is_lit(thi) and thi not in ("nat", "Z"):
                    raise self.err("range whose upper bound is not an integer", st)
                targets = [(st.target.id, "nat")]            # the range is computed once, at loop entry
                a = self.coerce(lo, tlo, "nat", st)
                if a == "0" and (thi == "nat" or (is_lit(thi) and thi[1] >= 0)):
                    return "(seq 0 %s)" % self.coerce(hi, thi, "nat", st)
                if thi == "nat" or (is_lit(thi) and thi[1] >= 0):
                    b = self.coerce(hi, thi, "nat", st)
                    return "(seq %s (%s - %s))" % (a, b, a)
                b = self.coerce(hi, thi, "Z", st)
                return "(seq %s (Z.to_nat (%s - Z.of_nat %s)%%Z))" % (a, b, a)
            fo = field_of(it, self.heap)
            if fo:                                  # for x in obj.f: a snapshot; the body may not write field f
                c, t = self._expr(it, env)
                if not is_list(t) or is_list(t[1]):
                    raise self.err("loop over a field of type %s" % (t,), st)
                if "h:" + fo[1] in effects(st.body, self):
                    raise self.err("the loop body writes the field %s the loop iterates over" % fo[1], st)
                targets = [(st.target.id, t[1])]
                return c
            if isinstance(it, ast.Name):
                c, t = self._expr(it, env)
                if not is_list(t):
                    raise self.err("loop over a value of type %s" % (t,), st)
                protect = [it.id]
                targets = [(st.target.id, t[1])]
                if is_list(t[1]):
                    src = (it.id, rest + k.after)
                return c
            if isinstance(it, ast.Subscript) and isinstance(it.value, ast.Name) and it.value.id in env \
                    and is_list(env[it.value.id]) and is_list(env[it.value.id][1]) \
                    and not isinstance(sub_index(it), ast.Slice):
                # for x in xss[i]: a snapshot of one cell; the body may append to OTHER cells xss[j]: checked at run time
                outer = it.value.id
                if is_list(env[outer][1][1]):
                    raise self.err("loop over an element of a list of lists of lists", st)
                z1 = self.zcode(sub_index(it), env, st)
                snap = self.hoist(self.index_code(mangle(outer), sub_index(it), env, st))
                others = nested_appends(st.body, outer)
                protect = [outer] + names_in(sub_index(it))
                if others:
                    nested_ok = [outer]
                    ln = "(length %s)" % mangle(outer)
                    tests = []
                    for o in others:
                        protect += names_in(o)
                        tests.append("h_same_cell (h_zindex %s %s) (h_zindex %s %s)" % (z1, ln, self.zcode(o, env, st), ln))
                    guard = " || ".join(tests)
                targets = [(st.target.id, env[outer][1][1])]
                return snap
            raise self.err("loop over %s" % (ast.unparse(it) if hasattr(ast, "unparse") else type(it).__name__), st)
        xs, pre = self.with_pre(f)
        # state: what the body assigns among the variables that exist before the loop
        eff = effects(st.body, self)
        tnames = [t[0] for t in targets]
        for tn in tnames:
            if tn in env and (is_list(env[tn]) or tn in [p for p, _ in self.params]):
                raise self.err("loop variable %s shadows a list / a parameter" % tn, st)
        state = [v for v in eff if (v.startswith("h:") or (v in env and v not in tnames))]
        benv = dict(env)
        for tn, tt in targets:
            benv[tn] = tt
        ends = []

        def end(e):
            ends.append(e)
            return "h_next %s" % tuple_of([self.state_var(v) for v in state])
        saved = (self.loop_k, self.protected, self.nested_ok, self.loop_vars, self.in_loop)
        self.loop_k = K(end, cheap=True, after=[st] + rest + k.after)     # the body runs again
        self.protected = self.protected | set(protect)
        self.nested_ok = self.nested_ok | set(nested_ok)
        self.loop_vars = self.loop_vars + [(tn, src) for tn in tnames]
        self.in_loop = True
        try:
            body = self.block(st.body, benv, self.loop_k)
        finally:
            self.loop_k, self.protected, self.nested_ok, self.loop_vars, self.in_loop = saved
        for e in ends:
            for v in state:
                if not v.startswith("h:") and e.get(v) != env[v]:
                    raise self.err("local %s changes its type in the loop body" % v, st)
        st_ty = prod_type([self.state_type(v, env) for v in state])
        el_ty = prod_type([coq_type(t) for _, t in targets])
        exclude = set(state) | set(tnames)
        free = self.free_vars(body, env, exclude)
        name = "%s_l%d_body" % (self.base, num)
        head = "Definition %s %s(st : %s) (el : %s) : res %s %s :=\n" % (
            name, "".join("(%s : %s) " % fv for fv in free), st_ty, el_ty, st_ty, self.result_type())
        head += "let %s := st in\n" % (pattern_of([self.state_var(v) for v in state]) if state else "_")
        head += "let %s := el in\n" % pattern_of([mangle(t) for t in tnames])
        self.defs.append((name, head + body + "."))
        call = "h_for (%s) %s %s" % (" ".join([name] + [fv[0] for fv in free]), xs, tuple_of([self.state_var(v) for v in state]))
        env2 = dict(env)
        code = "h_bind (%s) (fun %s =>\n%s)" % (call, pattern_of([self.state_var(v) for v in state]), self.block(rest, env2, k))
        if guard:
            code = "if %s then h_stuck else\n%s" % (guard, code)
        return self.wrap(pre, code)

    def while_(self, st, rest, env, k):
        if st.orelse:
            raise self.err("while ... else", st)
        if has_node(st.body, (ast.Break,)):
            raise self.err("break", st)
        self.nwhile += 1
        num = self.nwhile
        eff = effects(st.body, self)
        state = [v for v in eff if (v.startswith("h:") or v in env)]
        name = "%s_w%d" % (self.base, num)
        ends = []

        def end(e):
            ends.append(e)
            return "h_next %s" % tuple_of([self.state_var(v) for v in state])
        saved = (self.loop_k, self.protected, self.loop_vars, self.in_loop, self.ctx_while)
        self.loop_k = None                      # `continue` inside a while is not translated
        self.in_loop = True
        benv = dict(env)
        try:
            (tc, _), tpre = self.with_pre(lambda: self.expr(st.test, benv, "bool"))
            for v in state:
                if not v.startswith("h:") and benv.get(v) != env[v]:
                    raise self.err("the loop test narrows the loop-carried local %s" % v, st)
            body = self.block(st.body, benv, K(end, cheap=True, after=[st] + rest + k.after))
        finally:
            self.loop_k, self.protected, self.loop_vars, self.in_loop, self.ctx_while = saved
        for e in ends:
            for v in state:
                if not v.startswith("h:") and e.get(v) != env[v]:
                    raise self.err("local %s changes its type in the loop body" % v, st)
        st_ty = prod_type([self.state_type(v, env) for v in state])
        stv = tuple_of([self.state_var(v) for v in state])
        inner = self.wrap(tpre, "if %s\nthen h_bind (%s) (fun st' => %s fuel_w' st')\nelse h_next %s" % (tc, body, "@REC@", stv))
        free = self.free_vars(inner, env, set(state))
        rec = " ".join([name] + [fv[0] for fv in free])
        inner = inner.replace("@REC@", rec)
        head = "Fixpoint %s %s(fuel_w : nat) (st : %s) {struct fuel_w} : res %s %s :=\n" % (
            name, "".join("(%s : %s) " % fv for fv in free), st_ty, st_ty, self.result_type())
        head += "match fuel_w with\n| O => h_stuck\n| S fuel_w' =>\nlet %s := st in\n" % (
            pattern_of([self.state_var(v) for v in state]) if state else "_")
        self.defs.append((name, head + inner + "\nend."))
        env2 = dict(env)
        return "h_bind (%s fuel %s) (fun %s =>\n%s)" % (rec, stv, pattern_of([self.state_var(v) for v in state]),
                                                      self.block(rest, env2, k))

    # ---------------------------------------------------------------------------------- function
    def translate(self):
        env = {p: t for p, t in self.params}
        for g, t in self.globals:
            env[g] = t
        self.loop_k, self.protected, self.nested_ok, self.loop_vars, self.in_loop = None, set(), set(), [], False
        self.ctx_fn, self.ctx_while, self.narrowed = True, None, []

        def final(e):
            if self.ret_type != "unit":
                raise self.err("control can fall off the end of a function that returns %s" % (self.ret_type,))
            return "h_ret %s" % tuple_of(self.result_items("tt", e))
        body = self.block(self.body_stmts(), env, K(final, cheap=True))
        params = ["(%s : %s)" % (mangle(p), coq_type(t)) for p, t in self.params]
        order = [f[0] for f in self.heap.fields]
        for key in sorted(self.wfields + self.rfields, key=order.index):
            params.append("(%s : nat -> %s)" % (self.hvar(key), coq_type(self.heap.field(key)[1])))
        for g, t in self.globals:
            params.append("(%s : %s)" % (mangle(g), coq_type(t)))
        if self.fuel:
            params.append("(fuel : nat)")
        self.defs.append((self.coq, "Definition %s %s : res unit %s :=\n%s." % (self.coq, " ".join(params), self.result_type(), body)))
        names = [d[0] for d in self.defs]
        for p in list(env) + list(self.local_types):
            if mangle(p) in names:
                raise self.err("local %s clashes with a generated definition" % p)
        return "\n\n".join(indent_code(d[1]) for d in self.defs)


def indent_code(text):
    """indent the nested continuation lambdas by their parenthesis depth (readability only)"""
    out, depth = [], 0
    for line in text.split("\n"):
        out.append("  " * min(depth, 12) + line)
        depth += line.count("(") - line.count(")")
        depth = max(depth, 0)
    return "\n".join(out)


def has_node(stmts, kinds):
    return any(isinstance(n, kinds) for s in stmts for n in ast.walk(s))


def has_while(stmts):
    return has_node(stmts, (ast.While,))


def nested_appends(stmts, outer):
    """index nodes j of the statements `outer[j].append(...)` anywhere in stmts"""
    out = []
    for s in stmts:
        for n in ast.walk(s):
            if isinstance(n, ast.Call) and isinstance(n.func, ast.Attribute) and n.func.attr == "append" \
                    and isinstance(n.func.value, ast.Subscript) and isinstance(n.func.value.value, ast.Name) \
                    and n.func.value.value.id == outer:
                out.append(sub_index(n.func.value))
    return out


def effects(stmts, fn):
    """what a statement list can modify, in source order: local names (assignment, augmented assignment, in-place list
    operations, lists a callee modifies) and store fields ("h:<key>": assignments, appends, callee writes).  Names bound
    only as loop targets are included too (they are filtered by `in env` at the use sites)."""
    out = []

    def add(v):
        if v not in out:
            out.append(v)

    def target(t):
        fo = field_of(t, fn.heap)
        if fo:
            add("h:" + fo[1])
        elif isinstance(t, ast.Attribute) and dotted(t) in dict(fn.globals):
            add(dotted(t))
        elif isinstance(t, ast.Name):
            add(t.id)
        elif isinstance(t, (ast.Tuple, ast.List)):
            for e in t.elts:
                target(e)
        elif isinstance(t, ast.Subscript):
            target(t.value)

    def visit(n):
        if isinstance(n, ast.Assign):
            if isinstance(n.value, ast.Call):
                visit_call(n.value)
            for t in n.targets:
                target(t)
        elif isinstance(n, ast.AugAssign):
            target(n.target)
        elif isinstance(n, ast.Expr) and isinstance(n.value, ast.Call):
            visit_call(n.value)
        elif isinstance(n, (ast.For, ast.While)):
            if isinstance(n, ast.For):
                target(n.target)
            for s in n.body + n.orelse:
                visit(s)
        elif isinstance(n, ast.If):
            for s in n.body + n.orelse:
                visit(s)
        elif isinstance(n, (ast.Delete, ast.With, ast.Try, ast.FunctionDef, ast.ClassDef, ast.Global, ast.Nonlocal)):
            raise Unsupported("statement %s" % type(n).__name__, n, fn.qual)

    def visit_call(c):
        d = dotted(c.func)
        if d in fn.calls:
            callee = fn.done[fn.calls[d]]
            for a, (pn, _) in zip(c.args, callee.params):
                if pn in callee.lwrites and isinstance(a, ast.Name):
                    add(a.id)
            for k in callee.wfields:
                add("h:" + k)
        elif isinstance(c.func, ast.Attribute) and c.func.attr in ("append", "pop", "sort", "extend", "remove", "reverse",
                                                                   "insert", "clear"):
            target(c.func.value)

    for s in stmts:
        visit(s)
    return out


class Module:
    def __init__(self, spec, tree):
        self.heap = Heap(spec)
        self.used_accessors, self.used_oracles = set(), {}
        self.imports_math = any(isinstance(n, ast.Import) and any(a.name == "math" and a.asname is None for a in n.names)
                                for n in tree.body)
        self.shadowed = B.module_shadows(tree, None)
        bound = set()
        for n in ast.walk(tree):
            if isinstance(n, (ast.FunctionDef, ast.ClassDef)) and n in tree.body:
                bound.add(n.name)
            if isinstance(n, (ast.Assign,)) and n in tree.body:
                for t in n.targets:
                    for m in ast.walk(t):
                        if isinstance(m, ast.Name):
                            bound.add(m.id)
        if "math" in bound:
            self.imports_math = False


LAST_TRANSLATORS = {}       # qualified name -> HeapFn of the last translate_spec call (read by the self-test)


def translate_spec(repo, spec):
    """-> (coq text, [{"function", "sha1", "source"}]); raises Unsupported."""
    LAST_TRANSLATORS.clear()
    path = os.path.join(repo, spec["source"])
    src = open(path).read()
    tree = ast.parse(src, filename=path)
    lines = src.splitlines(keepends=True)
    mod = Module(spec, tree)
    done, parts, info, fts = {}, [], [], []
    for item in spec["functions"]:
        cls, name = item[0], item[1]
        qual = (cls + "." if cls else "") + name
        node = find_function(tree, cls or None, name, spec["source"])
        fs = function_source(lines, node)
        sha = hashlib.sha1(fs.encode()).hexdigest()
        if qual not in [i["function"] for i in info]:
            info.append({"function": qual, "sha1": sha, "source": fs})
        fspec = spec.get("types", {}).get(qual)
        if fspec is None:
            raise Unsupported("no typing for %s in the spec" % qual)
        ft = HeapFn(mod, cls or None, name, fspec, node, done)
        fts.append((ft, node, sha))
        done[qual] = ft
        LAST_TRANSLATORS[qual] = ft
    # the set of written fields is known only after every function has been looked at: translate now
    for ft, node, sha in fts:
        ft.wfields, ft.rfields = ft._field_use()
    for ft, node, sha in fts:
        text = ft.translate()
        what = ft.qual if ft.prefix is None else "the first %d statements of %s (what follows them is NOT translated)" % (ft.prefix, ft.qual)
        parts.append("(* %s, lines %d-%d of %s, sha1 %s *)\n%s" % (what, node.lineno, node.end_lineno, spec["source"], sha, text))
    # Section context: types, operators, extension operators, literals, oracles, accessors - in this fixed order
    ops = set().union(*[ft.used_ops for ft, _, _ in fts])
    lits = {}
    for ft, _, _ in fts:
        lits.update(ft.used_lits)
    ctx = ["Context {T E : Type}."]
    cvars = []                                   # (name, type, float instance or None)
    for o in T_OPS:
        if o in ops:
            cvars.append((o, T_OP_TYPE[o], FLOAT_INSTANCE[o]))
    for o in E_OPS:
        if o in ops:
            cvars.append((o, E_OP_TYPE[o], FLOAT_INSTANCE[o]))
    for nm in sorted(lits):
        cvars.append((nm, "T", "(%s)%%float" % float_literal(lits[nm])))
    for ft, _, _ in fts:
        for var, ats, rt in ft.oracles.values():
            if var in mod.used_oracles and var not in [c[0] for c in cvars]:
                cvars.append((var, " -> ".join([coq_type(t) for t in ats] + [coq_type(rt)]), None))
    for key, t, var in mod.heap.fields:
        if key in mod.used_accessors:
            cvars.append(("f_" + var, "nat -> %s" % coq_type(t), None))
    for nm, ty, _ in cvars:
        ctx.append("Context (%s : %s)." % (nm, ty))
    body = textwrap.indent("\n".join(ctx) + "\n\n" + "\n\n".join(parts), "  ")
    # binary64 instances: the Section abstracts operators and literals positionally
    insts = []
    used_by = {}
    for ft, _, _ in fts:
        toks = set()
        for _, code in ft.defs:
            toks |= tokens(code)
        for q in ft._callees():
            toks |= used_by[q]
        used_by[ft.qual] = toks
        args, stop = [], False
        uses_T = "T" in toks or any(nm in toks and "T" in tokens(ty) for nm, ty, _ in cvars)
        uses_E = "E" in toks or any(nm in toks and "E" in tokens(ty) for nm, ty, _ in cvars)
        targs = (["float"] if uses_T else []) + (["float"] if uses_E else [])
        for nm, ty, inst in cvars:
            if nm in toks:
                if inst is None:
                    stop = True
                elif stop:
                    raise Unsupported("internal: operator after an oracle in the Section context")
                else:
                    args.append(inst)
        # what the self-test needs to call the function: the instance (if any) and the Section variables left open
        ft.inst_name = ft.coq + "_f" if (targs or args) else ft.coq
        ft.inst_rest = [nm for nm, ty, inst in cvars if nm in toks and inst is None]
        if targs or args:
            insts.append("Definition %s_f := @%s %s." % (ft.coq, ft.coq, " ".join(targs + args)))
    head = ("(* GENERATED by tools/py2coq_heap.py from %s - never edit, never commit.\n"
            "   Shallow Gallina definitions (object store per written field, lists as values) of: %s. *)\n"
            % (spec["source"], ", ".join(i["function"] for i in info)))
    text = head + PRELUDE + "\nSection Gen.\n" + body + "\nEnd Gen.\n\n(* the binary64 instances *)\n" + "\n".join(insts) + "\n"
    return text, info


def main(argv):
    import argparse
    ap = argparse.ArgumentParser(description=__doc__.split("\n")[0])
    ap.add_argument("--repo", default=os.environ.get("VERIF_REPO", "/repo"))
    ap.add_argument("--spec", required=True)
    ap.add_argument("--out", default="-")
    ap.add_argument("--write-reference", metavar="DIR", default=None)
    a = ap.parse_args(argv)
    spec = json.load(open(a.spec))
    if a.write_reference:
        for i in function_infos(a.repo, spec):
            open(os.path.join(a.write_reference, i["function"] + ".py.txt"), "w").write(i["source"])
        return 0
    try:
        text, info = translate_spec(a.repo, spec)
    except Unsupported as e:
        sys.stderr.write("py2coq_heap: %s\n" % e)
        return 2
    except SyntaxError as e:
        sys.stderr.write("py2coq_heap: the source does not parse: %s\n" % e)
        return 2
    if a.out == "-":
        sys.stdout.write(text)
    else:
        open(a.out, "w").write(text)
    return 0


if __name__ == "__main__":
    sys.exit(main(sys.argv[1:]))
