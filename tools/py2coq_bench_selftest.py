#!/usr/bin/env python3
"""Differential self-test of tools/py2coq_bench.py (the front-end is trusted: this is what backs it).

Synthetic functions that exercise every construct / idiom of the front-end are run by CPython and the generated
definitions are evaluated by Coq (`vm_compute`) on the same inputs, at three instances of the `ops` interface:

  float  binary64 (PrimFloat + - * / sqrt abs, comparisons; `dec n d` = n / d correctly rounded = Python's reading of
         the literal; `powN` = repeated multiplication): CPython on floats, results compared BIT FOR BIT.  Inputs are
         small dyadic numbers so that `x ** n` is exact in both;
  Q      exact rationals: CPython on `fractions.Fraction`, results compared with Qeq_bool;
  sym    strings (every operation prints itself): CPython on a symbolic number class whose operators and numpy ufunc
         methods (cos, sin, exp, sqrt) print themselves the same way; covers the transcendental functions, pi, e,
         operand order, precedence, literal reading, loop unrolling.

A second list holds sources that MUST be rejected.

    /venv/bin/python tools/py2coq_bench_selftest.py      (exit 0 = all agree; needs coqc and /verif/coq built)
"""
import importlib.util
import math
import os
import random
import subprocess
import sys
import tempfile
from decimal import Decimal
from fractions import Fraction

HERE = os.path.dirname(os.path.abspath(__file__))
VERIF = os.path.dirname(HERE)
spec_ = importlib.util.spec_from_file_location("py2coq_bench", os.path.join(HERE, "py2coq_bench.py"))
bench = importlib.util.module_from_spec(spec_)
spec_.loader.exec_module(bench)

SRC = '''
import math
import numpy as np
from math import sqrt
from numpy import exp
from random import uniform


class Holder:
    def acc2(self, x):
        """two accumulators, literal locals folded into an integer exponent, decimal literals"""
        x = x.vector
        s = 0
        p = 1.
        k = 2
        for c in x:
            s += c ** (2. * k) / 4.0 - 0.125 * c
            p *= (c + 0.1)
        return [s, p, s - p, 418.9828872724339 * p]

    def idx(self, x):
        """enumerate, int -> float embedding, integer subtraction used as a number and as an index"""
        v = x.vector
        n = len(v)
        t = 0.0
        for i, c in enumerate(v):
            t += (i + 1) * c - (n - i) / 2
            t = t + v[n - i - 1] * (i + 1.)
        return [t, float(n), n - 3]

    def adj(self, x):
        """range(a, b) with self.dimension, x[i], x[i + 1]"""
        x = x.vector
        r = 0
        for i in range(0, self.dimension - 1):
            a = 1. - x[i]
            r += a * a + (x[i + 1] - x[i] ** 2) * 100.0
        for i in range(1, self.dimension + 1):
            r -= i
        return [r]

    def nest(self, x):
        """nested loops, inner loop re-using the outer loop variable's name, append, if-join on an integer test"""
        m = len(self.costs)
        x = x.vector
        out = []
        for i in range(0, m):
            f = 1.0
            for j in range(0, m - i - 1):
                f *= x[j]
            if i > 0:
                f *= (1. - x[m - i - 1])
            g = float(3)
            for i in range(0, 3):
                g += (x[len(x) - i - 1] - 0.5) ** 2
            f = f * (1 + 100. * g)
            out.append(f)
        return out

    def slices(self, x):
        """slices with constant and len-relative bounds, sum over a comprehension, builtin sum, len"""
        x = x.vector
        n = len(x)
        k = n - 2 + 1
        a = sum([(y - 0.5) * (y - 0.5) for y in x[n - k:]])
        b = sum(x[:2]) + sum(x[1:3]) - sum(x[-2:]) + 2 * sum(x[:-1])
        return [a, b, sum(x) - x[0], x[0] * 9 / (len(x) - 1)]

    def guard(self, x):
        """isclose with a zero relative tolerance, if / else with returns, comparisons, abs, sqrt, ** 0.5"""
        x = x.vector
        s = 0.0
        for c in x:
            s += c * c
        if np.isclose(s, 1., rtol=0., atol=1e-9):
            return [-1.0 * s]
        elif s < 2.5 and not s <= 0.5:
            return [np.sqrt(s) + abs(x[0]) + np.fabs(x[1]) + sqrt(s) + s ** 0.5]
        else:
            r = 0.
            if x[0] >= x[1]:
                r = x[0] - x[1]
            else:
                r = x[1] - x[0]
            return [r, np.abs(x[0] - 3)]

    def vec(self, x):
        """numpy idioms: elementwise expressions of the vector under sum / prod / mean, asarray, slices"""
        x = np.asarray(x.vector)
        a = np.sum(x ** 2)
        b = np.prod(2 * x - 0.5)
        c = np.mean((x - 1) * (x - 1))
        d = np.sum(np.abs(x[1:]) / 4 + 1)
        e = sum(v * v for v in x)
        return [a, b, c, d, e]

    def over(self, x):
        """overwriting accumulators (only the last coordinate counts), three-tuple state"""
        f1 = 0.0
        f2 = 0.0
        f3 = 1.0
        beta = 15.
        m = 5.
        x = x.vector
        for c in x:
            f1 = -1. * (c / beta) ** (2. * m)
            f2 = -1. * c ** 2.
            f3 = c ** 2.
        return [(f1 - 2. * f2) * f3]

    def trans(self, x):
        """transcendental functions, pi, e, numpy and math spellings (symbolic instance)"""
        firstSum = 0.0
        secondSum = 0.0
        x = x.vector
        for c in x:
            firstSum += c ** 2.0
            secondSum += np.cos(2.0 * np.pi * c)
        n = float(len(x))
        return [-20.0 * np.exp(-0.2 * np.sqrt(firstSum / n)) - exp(secondSum / n) + 20.0 + np.e,
                np.sin(x[0]) * np.sin((1 + 1) * x[0] * x[0] / math.pi) ** (2. * 10)]

    def helper(self, f, g):
        return 1 - f / g

    def caller(self, x):
        """calls of translated functions (a method with an object argument, a module-level function with a list literal)"""
        g = self.total(x)
        h = self.helper(x.vector[0], g)
        return [h * g, dist(0.5, 2., x.vector, [1., 0.25, 3., 4.0])]

    def total(self, x):
        return sum(x.vector) + 1

    def draws(self, x):
        """a random draw per coordinate: the stream oracle"""
        f1 = 0.0
        x = x.vector
        for i, c in enumerate(x):
            eps = uniform(0, 1)
            f1 = f1 + eps * abs(c - 1. / (i + 1.))
        return [f1]


class Base:
    """the two helpers of artap's BenchmarkFunction that set() relies on (copied from artap/benchmark_functions.py)"""

    def generate_paramlist(self, dimension, lb, ub, **kwargs):
        param_list = []
        for i in range(0, dimension):
            dict = {'name': str(i), 'bounds': [lb, ub]}
            param_list.append(dict)
        return param_list

    def set_dimension(self, **kwargs):
        if 'dimension' in kwargs:
            self.dimension = kwargs['dimension']


class DeclA(Base):
    def set(self, **kwargs):
        self.name = 'A'
        self.set_dimension(**kwargs)
        self.parameters = self.generate_paramlist(self.dimension, lb=-float(self.dimension), ub=2. * np.pi)
        if self.dimension == 2:
            self.global_optimum = -1.8013
            self.global_optimum_coords = [2.20, 1.57]
        elif self.dimension == 5:
            self.global_optimum = -4.687658
        elif self.dimension == 3:
            self.global_optimum = 0.
            self.global_optimum_coords = [1. / float(x + 1) for x in range(self.dimension)]
        else:
            raise ValueError
        self.costs = [{'name': 'f_1', 'criteria': 'minimize'}]


class DeclB(Base):
    def set(self, **kwargs):
        self.name = 'B'
        self.set_dimension = 2.0
        self.parameters = [{'name': 'x1', 'bounds': [0., 5.], 'tol': 0.1},
                           {'name': 'x2', 'bounds': [-0.5, 2.5]}]
        self.global_optimum = 1.21112
        self.robust_optimum = 1.0
        self.costs = [{'name': 'f_1', 'criteria': 'maximize'}, {'name': 'f_2', 'criteria': 'minimize'}]


def dist(width, multiplier, x: list, z: list):
    res = 0
    for i in range(0, len(x)):
        res += (x[i] - z[i]) ** 2.
    res /= -width
    return res * multiplier
'''

XV = {"returns": "list T", "params": {"x": "obj"}, "attrs": [["x.vector", "list T"]]}
TYPES = {
    "Holder.acc2": dict(XV), "Holder.idx": dict(XV), "Holder.slices": dict(XV), "Holder.guard": dict(XV),
    "Holder.vec": dict(XV), "Holder.over": dict(XV), "Holder.trans": dict(XV),
    "Holder.adj": {"returns": "list T", "params": {"x": "obj"}, "attrs": [["self.dimension", "nat"], ["x.vector", "list T"]]},
    "Holder.nest": {"returns": "list T", "params": {"x": "obj"}, "attrs": [["self.costs", "sized"], ["x.vector", "list T"]]},
    "Holder.helper": {"returns": "T", "params": {"f": "T", "g": "T"}},
    "Holder.total": {"returns": "T", "params": {"x": "obj"}, "attrs": [["x.vector", "list T"]]},
    "dist": {"returns": "T", "params": {"width": "T", "multiplier": "T", "x": "list T", "z": "list T"}},
    "Holder.caller": dict(XV, calls={"self.total": "Holder.total", "self.helper": "Holder.helper", "dist": "dist"}),
    "Holder.draws": dict(XV, oracles=[["random.uniform", [0, 1], "T", "stream"]]),
    "DeclA.set": {"mode": "set"}, "DeclB.set": {"mode": "set"},
}
ORDER = ["Holder.acc2", "Holder.idx", "Holder.adj", "Holder.nest", "Holder.slices", "Holder.guard", "Holder.vec", "Holder.over",
         "Holder.trans", "Holder.helper", "Holder.total", "dist", "Holder.caller", "Holder.draws", "DeclA.set", "DeclB.set"]
# which instances each function is run at, and the vector lengths
# (sym only where every operation has a symbolic operand: Python evaluates constant sub-expressions, Coq keeps them)
KINDS = {"Holder.acc2": ("float", "sym"), "Holder.idx": ("float", "Q"), "Holder.adj": ("float", "Q"),
         "Holder.nest": ("float", "Q"), "Holder.slices": ("float", "Q"), "Holder.guard": ("float",), "Holder.vec": ("float", "Q"),
         "Holder.over": ("float", "sym"), "Holder.trans": ("sym",), "Holder.caller": ("float", "Q"), "Holder.draws": ("float",)}
MAXLEN = {"Holder.caller": 4}          # dist indexes a four-element table
MINLEN = {"Holder.nest": 5, "Holder.slices": 3, "Holder.guard": 2, "Holder.idx": 1, "Holder.caller": 1, "Holder.trans": 1,
          "Holder.vec": 2}

REJECT = {
    "while loop": "def f(x):\n    while x > 0.0:\n        x = x - 1.0\n    return x\n",
    "return in a loop": "def f(xs):\n    s = 0.0\n    for c in xs:\n        if c > 1.0:\n            return s\n        s += c\n    return s\n",
    "break": "def f(xs):\n    s = 0.0\n    for c in xs:\n        s += c\n        break\n    return s\n",
    "truth value of a number": "def f(xs):\n    s = 1.0\n    for c in xs:\n        if c:\n            s *= c\n    return s\n",
    "tuple assignment": "def f(xs):\n    a, b = xs[0], xs[1]\n    return a + b\n",
    "chained comparison": "def f(x):\n    if 0.0 < x < 1.0:\n        return x\n    return 0.0\n",
    "global read": "EPS = 1.0\ndef f(x):\n    return x + EPS\n",
    "attribute write": "def f(x):\n    x.g = 1.0\n    return 1.0\n",
    "subscript store": "def f(xs):\n    xs[0] = 1.0\n    return xs[0]\n",
    "in-place array operation": "import numpy as np\ndef f(xs):\n    ys = np.asarray(xs[1:])\n    ys -= 0.5\n    return np.sum(ys)\n",
    "np.dot": "import numpy as np\ndef f(xs):\n    return np.dot(xs, xs)\n",
    "np.clip": "import numpy as np\ndef f(x):\n    return np.clip(x, 0., 1.)\n",
    "isclose with rtol": "import numpy as np\ndef f(x):\n    if np.isclose(x, 1., rtol=1e-5, atol=1e-9):\n        return 1.0\n    return 0.0\n",
    "isclose defaults": "import numpy as np\ndef f(x):\n    if np.isclose(x, 1.):\n        return 1.0\n    return 0.0\n",
    "fractional power": "def f(x):\n    return x ** 1.5\n",
    "negative power": "def f(x):\n    return x ** -1\n",
    "float exponent variable": "def f(x):\n    return 2.0 ** x\n",
    "negative index": "def f(xs):\n    return xs[-1]\n",
    "slice with a step": "def f(xs):\n    return sum(xs[::2])\n",
    "two different vectors elementwise": "import numpy as np\ndef f(xs):\n    return np.sum(np.asarray(xs[1:]) * np.asarray(xs[:-1]))\n",
    "comprehension with a condition": "def f(xs):\n    return sum([c for c in xs if c > 0.0])\n",
    "shadowed numpy name": "import numpy as np\ndef f(x):\n    np = x\n    return np.cos(x)\n",
    "cos bound twice": "from math import cos\nfrom numpy import cos\ndef f(x):\n    return cos(x)\n",
    "star import": "from numpy import *\ndef f(x):\n    return abs(x)\n",
    "local function call": "def g(x):\n    return x\ndef f(x):\n    return g(x)\n",
    "random draw in an expression": "from random import uniform\ndef f(x):\n    return x * uniform(0, 1)\n",
    "loop variable read after the loop": "def f(xs):\n    s = 0.0\n    for c in xs:\n        s += c\n    return s + c\n",
    "loop local after the loop": "def f(xs):\n    s = 0.0\n    for c in xs:\n        y = c\n        s += y\n    return y\n",
    "iterated list rebound": "def f(xs):\n    s = 0.0\n    for c in xs:\n        xs = xs[1:]\n        s += c\n    return s\n",
    "integer division": "def f(xs):\n    return xs[len(xs) // 2]\n",
    "modulo": "def f(xs, i):\n    return xs[i % 2]\n",
    "lambda": "def f(xs):\n    return sum(map(lambda c: c * c, xs))\n",
    "decorator": "import functools\n@functools.lru_cache()\ndef f(x):\n    return x\n",
    "fall off the end": "def f(x):\n    if x > 0.0:\n        return x\n",
    "type change": "def f(xs):\n    s = xs\n    s = 1.0\n    return s\n",
}
REJECT_TYPES = {"x": "T", "xs": "list T", "i": "nat"}


# ---------------------------------------------------------------------------------------------- encoders
def fl(x):
    if math.isnan(x):
        return "nan"
    if math.isinf(x):
        return "infinity" if x > 0 else "neg_infinity"
    h = float(x).hex()
    return "(%s)" % h if h.startswith("-") else h


def ql(q):
    q = Fraction(q)
    return "(%d # %d)" % (q.numerator, q.denominator)


class Sym:
    """a number that prints the operations applied to it (the `sym` instance of the interface)"""

    def __init__(self, s):
        self.s = s

    @staticmethod
    def of(v):
        if isinstance(v, Sym):
            return v.s
        if isinstance(v, bool):
            raise TypeError
        if isinstance(v, int):
            return "i%d" % v
        if isinstance(v, float):
            q = Fraction(Decimal(repr(v)))
            if q.denominator == 1:
                return "i%d" % q.numerator
            k = 0
            while (abs(q) * 10 ** k).denominator != 1:
                k += 1
            s = "d%d/%d" % (abs(q) * 10 ** k, 10 ** k)
            return "(-%s)" % s if q < 0 else s
        raise TypeError(type(v))

    def _b(self, o, op, swap=False):
        a, b = (Sym.of(o), self.s) if swap else (self.s, Sym.of(o))
        return Sym("(%s%s%s)" % (a, op, b))

    __add__ = lambda s, o: s._b(o, "+")
    __radd__ = lambda s, o: s._b(o, "+", True)
    __sub__ = lambda s, o: s._b(o, "-")
    __rsub__ = lambda s, o: s._b(o, "-", True)
    __mul__ = lambda s, o: s._b(o, "*")
    __rmul__ = lambda s, o: s._b(o, "*", True)
    __truediv__ = lambda s, o: s._b(o, "/")
    __rtruediv__ = lambda s, o: s._b(o, "/", True)
    __neg__ = lambda s: Sym("(-%s)" % s.s)
    __abs__ = lambda s: Sym("abs(%s)" % s.s)

    def __pow__(self, o):
        if float(o) == 0.5:
            return Sym("sqrt(%s)" % self.s)
        assert float(o) == int(o) and o >= 0
        return Sym("(%s^%d)" % (self.s, int(o)))

    cos = lambda s: Sym("cos(%s)" % s.s)
    sin = lambda s: Sym("sin(%s)" % s.s)
    exp = lambda s: Sym("exp(%s)" % s.s)
    sqrt = lambda s: Sym("sqrt(%s)" % s.s)


SYM_COQ = r'''
Definition zs (z : Z) : string := NilZero.string_of_int (Z.to_int z).
Definition bin (op : string) (a b : string) : string := "(" ++ a ++ op ++ b ++ ")".
Definition S_ops : ops string := {|
  o_ltb := fun _ _ => true; o_leb := fun _ _ => true; o_eqb := fun _ _ => true;
  o_add := bin "+"; o_sub := bin "-"; o_mul := bin "*"; o_div := bin "/";
  o_neg := fun a => "(-" ++ a ++ ")"; o_abs := fun a => "abs(" ++ a ++ ")";
  o_pow := fun a n => "(" ++ a ++ "^" ++ zs (Z.of_nat n) ++ ")";
  o_exp := fun a => "exp(" ++ a ++ ")"; o_sin := fun a => "sin(" ++ a ++ ")"; o_cos := fun a => "cos(" ++ a ++ ")";
  o_sqrt := fun a => "sqrt(" ++ a ++ ")"; o_pi := "pi"; o_e := "e";
  o_nat := fun n => "i" ++ zs (Z.of_nat n); o_int := fun z => "i" ++ zs z;
  o_dec := fun n d => "d" ++ zs n ++ "/" ++ zs d |}.
Fixpoint seqb (a b : list string) : bool := match a, b with [], [] => true | x :: a', y :: b' => String.eqb x y && seqb a' b' | _, _ => false end.
'''

FLOAT_COQ = r'''
Definition Zf (z : Z) : float := match z with Z0 => 0%float | Zpos _ => of_uint63 (Uint63.of_Z z) | Zneg p => PrimFloat.opp (of_uint63 (Uint63.of_Z (Zpos p))) end.
Fixpoint fpow (a : float) (n : nat) : float := match n with O => 1%float | S k => PrimFloat.mul a (fpow a k) end.
Definition F_ops : ops float := {|
  o_ltb := PrimFloat.ltb; o_leb := PrimFloat.leb; o_eqb := PrimFloat.eqb;
  o_add := PrimFloat.add; o_sub := PrimFloat.sub; o_mul := PrimFloat.mul; o_div := PrimFloat.div;
  o_neg := PrimFloat.opp; o_abs := PrimFloat.abs; o_pow := fpow;
  o_exp := fun a => a; o_sin := fun a => a; o_cos := fun a => a; o_sqrt := PrimFloat.sqrt;
  o_pi := 0x1.921fb54442d18p+1%float; o_e := 0x1.5bf0a8b145769p+1%float;
  o_nat := fun n => Zf (Z.of_nat n); o_int := Zf; o_dec := fun n d => PrimFloat.div (Zf n) (Zf d) |}.
Fixpoint feqb (a b : list float) : bool := match a, b with [], [] => true | x :: a', y :: b' => fbits_eqb x y && feqb a' b' | _, _ => false end.
'''

Q_COQ = r'''
Definition Q_ops : ops Q := {|
  o_ltb := fun a b => negb (Qle_bool b a); o_leb := Qle_bool; o_eqb := Qeq_bool;
  o_add := Qplus; o_sub := Qminus; o_mul := Qmult; o_div := Qdiv; o_neg := Qopp; o_abs := Qabs;
  o_pow := fun a n => Qpower a (Z.of_nat n);
  o_exp := fun a => a; o_sin := fun a => a; o_cos := fun a => a; o_sqrt := fun a => a; o_pi := 0%Q; o_e := 0%Q;
  o_nat := fun n => inject_Z (Z.of_nat n); o_int := inject_Z; o_dec := fun n d => Qdiv (inject_Z n) (inject_Z d) |}.
Fixpoint qeqb (a b : list Q) : bool := match a, b with [], [] => true | x :: a', y :: b' => Qeq_bool x y && qeqb a' b' | _, _ => false end.
'''

GRID = [0.0, 0.5, 1.0, 1.5, 2.0, -0.5, -1.0, 0.25, -2.5, 3.0, 0.75, 0.125]


class Ind:
    def __init__(self, v):
        self.vector = v


class SymModule:
    """numpy / math with symbolic pi and e (Python would fold `2.0 * np.pi` into a number)"""

    def __init__(self, mod):
        self._mod = mod
        self.pi, self.e = Sym("pi"), Sym("e")

    def __getattr__(self, name):
        return getattr(self._mod, name)


def main():
    rng = random.Random(0)
    work = tempfile.mkdtemp(prefix="py2coq_bench_selftest_")
    os.makedirs(os.path.join(work, "pkg"))
    open(os.path.join(work, "pkg", "m.py"), "w").write(SRC)
    spec = {"source": "pkg/m.py", "module": "SelfBench",
            "functions": [[q.split(".")[0], q.split(".")[1]] if "." in q else ["", q] for q in ORDER], "types": TYPES}
    text, _ = bench.translate_spec(work, spec)
    open(os.path.join(work, "SelfBench.v"), "w").write(text)
    ns = {}
    exec(compile(SRC, "m.py", "exec"), ns)
    import numpy as np
    lines = ["From Coq Require Import Reals List ZArith Bool Arith Floats QArith Qabs String DecimalString Uint63.",
             "From Artap Require Import Base.FloatInst.", "From ArtapGen Require Import SelfBench.", "Import ListNotations.",
             "Open Scope string_scope.", SYM_COQ, FLOAT_COQ, Q_COQ]
    n_cases = {"float": 0, "Q": 0, "sym": 0}
    for q in ORDER:
        if q not in KINDS:
            continue
        name = q.split(".")[1]
        gen = "Holder_%s_gen" % name
        for kind in KINDS[q]:
            for _ in range(40 if kind != "sym" else 6):
                n = rng.choice([MINLEN.get(q, 0), 1, 2, 3, 4, 5, 6])
                n = min(max(n, MINLEN.get(q, 0), 1 if kind == "sym" else 0), MAXLEN.get(q, 99))
                vals = [rng.choice(GRID) for _ in range(n)]
                h = ns["Holder"]()
                h.dimension = n
                h.costs = [None] * rng.choice([1, 2, 3])
                draws = [rng.choice(GRID) for _ in range(n)]
                tape = list(draws)
                if kind == "float":
                    vec, conv, enc, eq, ops, scope = list(vals), float, fl, "feqb", "F_ops", "%float"
                    ns["uniform"] = lambda a, b: tape.pop(0)
                elif kind == "Q":
                    vec, conv, enc, eq, ops, scope = [Fraction(v) for v in vals], Fraction, ql, "qeqb", "Q_ops", "%Q"
                    tape = [Fraction(v) for v in tape]
                    ns["uniform"] = lambda a, b: tape.pop(0)
                else:
                    vec = [Sym("x%d" % i) for i in range(n)]
                    enc, eq, ops, scope = (lambda v: '"%s"' % Sym.of(v)), "seqb", "S_ops", ""
                    tape = [Sym("u%d" % i) for i in range(n)]
                    ns["uniform"] = lambda a, b: tape.pop(0)
                ns["np"], ns["math"] = (SymModule(np), SymModule(math)) if kind == "sym" else (np, math)
                if name == "guard" and kind == "float" and rng.random() < 0.3:
                    vec = [0.6, 0.8] + [0.0] * (n - 2)          # on the isclose branch
                if name == "vec" and kind == "float":
                    arg = Ind(np.array(vec))
                else:
                    arg = Ind(list(vec))
                try:
                    r = getattr(h, name)(arg)
                except ZeroDivisionError:
                    continue
                if kind == "float":
                    r = [float(v) for v in r]
                    if any(math.isnan(v) for v in r):
                        continue
                elif kind == "Q":
                    r = [Fraction(v) for v in r]
                args = []
                if name == "draws":
                    dl = "[%s]" % "; ".join(enc(v) for v in (draws if kind != "sym" else [Sym("u%d" % i) for i in range(n)]))
                    if kind == "Q":
                        dl = "[%s]" % "; ".join(ql(v) for v in draws)
                    args.append("(fun k => nth k %s%s %s)" % (dl, scope, enc(conv(0)) + scope if kind != "sym" else '""'))
                if name == "adj":
                    args.append("%d%%nat" % n)
                if name == "nest":
                    args.append("%d%%nat" % len(h.costs))
                args.append("[%s]%s" % ("; ".join(enc(v) for v in (vec if kind != "sym" else vec)), scope))
                expected = "[%s]%s" % ("; ".join(enc(v) for v in r), scope)
                lines.append("Eval vm_compute in (%s (%s %s %s) %s). (* %s %s %r *)"
                             % (eq, gen, ops, " ".join(args), expected, q, kind, vals))
                n_cases[kind] += 1
    # declared data of set(): box, criteria, optimum, coordinates at the float instance (2 * pi: one rounding in both)
    lines.append("Definition pbeq (a b : float * float) : bool := fbits_eqb (fst a) (fst b) && fbits_eqb (snd a) (snd b).")
    lines.append("Fixpoint lbeq {A} (e : A -> A -> bool) (a b : list A) : bool := match a, b with [], [] => true "
                 "| x :: a', y :: b' => e x y && lbeq e a' b' | _, _ => false end.")
    lines.append("Definition obeq {A} (e : A -> A -> bool) (a b : option A) : bool := match a, b with Some x, Some y => e x y "
                 "| None, None => true | _, _ => false end.")
    lines.append("Definition deq (a b : option (list (float * float) * list bool * option float * option (list float))) : bool := "
                 "obeq (fun u v => match u, v with (b1, c1, o1, k1), (b2, c2, o2, k2) => lbeq pbeq b1 b2 && lbeq Bool.eqb c1 c2 && "
                 "obeq fbits_eqb o1 o2 && obeq (lbeq fbits_eqb) k1 k2 end) a b.")
    n_cases["set"] = 0
    for cls in ("DeclA", "DeclB"):
        for dim in (1, 2, 3, 4, 5):
            o = ns[cls]()
            try:
                o.set(dimension=dim)
                opt = "(Some %s)" % fl(o.global_optimum) if hasattr(o, "global_optimum") else "None"
                co = "(Some [%s])" % "; ".join(fl(float(v)) for v in o.global_optimum_coords) if hasattr(o, "global_optimum_coords") else "None"
                exp = "(Some ([%s], [%s], %s, %s))" % (
                    "; ".join("(%s, %s)" % (fl(float(p["bounds"][0])), fl(float(p["bounds"][1]))) for p in o.parameters),
                    "; ".join("true" if c["criteria"] == "maximize" else "false" for c in o.costs), opt, co)
            except ValueError:
                exp = "None"
            lines.append("Eval vm_compute in (deq (%s_set_gen F_ops %d%%nat) %s%%float). (* %s.set dimension %d *)" % (cls, dim, exp, cls, dim))
            n_cases["set"] += 1
    open(os.path.join(work, "cases.v"), "w").write("\n".join(lines) + "\n")
    flags = ["-Q", os.path.join(VERIF, "coq", "theories"), "Artap", "-Q", work, "ArtapGen", "-w", "-inexact-float,-notation-overridden"]
    for f in ("SelfBench.v", "cases.v"):
        p = subprocess.run(["coqc"] + flags + [os.path.join(work, f)], capture_output=True, text=True, timeout=900)
        if p.returncode != 0:
            print("coqc failed on", os.path.join(work, f), p.stderr[-3000:])
            return 1
    outs = [l.strip() for l in p.stdout.split("\n") if l.strip().startswith("= ")]
    evals = [l for l in lines if l.startswith("Eval")]
    bad = [i for i, o in enumerate(outs) if o != "= true"]
    print("positive: %s cases on %d functions + 2 set() methods, %d disagreements" % (n_cases, len(KINDS), len(bad)))
    for i in bad[:6]:
        print("  DISAGREE:", evals[i][:900])
    if len(outs) != len(evals):
        print("  expected %d results, got %d" % (len(evals), len(outs)))
        bad.append(-1)
    # negative: every source must be rejected with Unsupported
    import ast as _ast
    missed = []
    for name, src in REJECT.items():
        d = tempfile.mkdtemp(prefix="py2coq_bench_rej_")
        os.makedirs(os.path.join(d, "pkg"))
        open(os.path.join(d, "pkg", "m.py"), "w").write(src)
        fn = [n for n in _ast.parse(src).body if isinstance(n, _ast.FunctionDef) and n.name == "f"][0]
        ty = {"returns": "T", "params": {a.arg: REJECT_TYPES[a.arg] for a in fn.args.args}}
        if name == "attribute write":
            ty["params"] = {"x": "obj"}
        if name == "random draw in an expression":
            ty["oracles"] = [["random.uniform", [0, 1], "T", "stream"]]
        try:
            bench.translate_spec(d, {"source": "pkg/m.py", "module": "R", "functions": [["", "f"]], "types": {"f": ty}})
            missed.append(name)
        except bench.Unsupported:
            pass
    print("negative: %d sources, %d wrongly accepted %s" % (len(REJECT), len(missed), missed))
    return 1 if bad or missed else 0


if __name__ == "__main__":
    sys.exit(main())
