#!/usr/bin/env python3
"""Self-test of the source-to-source passes of tools/py2coq_swarm.py: every side condition of a pass must REJECT
(Unsupported) a source that violates it, and the unchanged idiom must be accepted.  (That the accepted translations mean
what the source means is backed as for the other front-ends: the generated definitions are proved equal to the models
of Model/Swarm.v, which the C18 correspondence compares with the running code on every run.)

    /venv/bin/python tools/py2coq_swarm_selftest.py        (2 s; not part of a check run)
"""
import ast
import importlib.util
import os
import sys
import textwrap

HERE = os.path.dirname(os.path.abspath(__file__))
sp = importlib.util.spec_from_file_location("py2coq_swarm", os.path.join(HERE, "py2coq_swarm.py"))
sw = importlib.util.module_from_spec(sp)
sp.loader.exec_module(sw)


def fn_of(src):
    return ast.parse(textwrap.dedent(src)).body[0]


EW = {"loop": "for p in ps", "field": 'features["velocity"]', "type": "list T"}
OK_EW = """
def f(self, ps):
    for p in ps:
        p.features['velocity'] = [0] * len(p.vector)
        for i in range(len(p.vector)):
            p.features['velocity'][i] = p.vector[i]
"""
BAD_EW = {
    "field read before it is assigned": OK_EW.replace("p.features['velocity'] = [0] * len(p.vector)", "x = p.features['velocity']\n        p.features['velocity'] = [0] * len(p.vector)"),
    "first assignment mentions the field": OK_EW.replace("[0] * len(p.vector)", "[0] * len(p.features['velocity'])"),
    "field of another object": OK_EW.replace("= p.vector[i]", "= ps[0].features['velocity'][i]"),
    "field through an alias of the dict": OK_EW.replace("= p.vector[i]", "= p.features.get('velocity')[i]"),
    "statement before the loop": OK_EW.replace("    for p in ps:", "    g = self.leader()\n    for p in ps:"),
    "continue in the loop": OK_EW.replace("        for i in range", "        if p.skip:\n            continue\n        for i in range"),
    "break in the loop": OK_EW.replace("        for i in range", "        if p.skip:\n            break\n        for i in range"),
    "return in the loop": OK_EW.replace("        for i in range", "        if p.skip:\n            return\n        for i in range"),
    "loop variable rebound": OK_EW.replace("        for i in range", "        p = ps[0]\n        for i in range"),
    "conditional first assignment": OK_EW.replace("        p.features['velocity'] = [0] * len(p.vector)", "        if p.ok:\n            p.features['velocity'] = [0] * len(p.vector)"),
    "clash with the log's name": OK_EW.replace("def f(self, ps):", "def f(self, ps, written=None):"),
}

OK_CW = """
def f(self):
    self.init()
    it = 0
    while it < self.options['n']:
        self.step(it)
        it += 1
    self.done()
"""
BAD_CW = {
    "<= test": OK_CW.replace("it < self", "it <= self"),
    "start at 1": OK_CW.replace("it = 0", "it = 1"),
    "step 2": OK_CW.replace("it += 1", "it += 2"),
    "increment first": OK_CW.replace("        self.step(it)\n        it += 1", "        it += 1\n        self.step(it)"),
    "counter assigned in the body": OK_CW.replace("        self.step(it)", "        it = self.step(it)"),
    "break": OK_CW.replace("        self.step(it)", "        if self.step(it):\n            break"),
    "continue": OK_CW.replace("        self.step(it)", "        if self.step(it):\n            continue"),
    "bound is a call": OK_CW.replace("self.options['n']", "self.n()"),
    "bound assigned in the body": OK_CW.replace("        self.step(it)", "        self.options['n'] = 3"),
    "counter read after the loop": OK_CW.replace("self.done()", "self.done(it)"),
    "statement between `it = 0` and the loop": OK_CW.replace("    it = 0\n", "    it = 0\n    self.x()\n"),
    "two loops": OK_CW + "    it = 0\n    while it < self.options['n']:\n        it += 1\n",
}

OK_AC = """
def f(self, xs):
    for it in range(3):
        ys = self.select(xs)
        ys.append(self.new())
        xs = ys
        self.use(xs)
"""
BAD_AC = {
    "alias modified after the binding": OK_AC.replace("        self.use(xs)", "        xs.append(1)"),
    "source modified after the binding": OK_AC.replace("        self.use(xs)", "        ys.append(1)"),
    "source not rebound at the top of the body": OK_AC.replace("        ys = self.select(xs)\n", "").replace("def f(self, xs):", "def f(self, xs, ys):"),
    "alias modified after the loop": OK_AC + "    xs.append(2)\n",
    "item store through the alias": OK_AC.replace("        self.use(xs)", "        xs[0] = 1"),
    "augmented assignment": OK_AC.replace("        self.use(xs)", "        xs += [1]"),
}

OK_ST = """
def f(self, xs):
    for x in xs:
        x.population_id = 0
"""
BAD_ST = {
    "attribute read": OK_ST + "    return xs[0].population_id\n",
    "augmented store": OK_ST.replace("x.population_id = 0", "x.population_id += 1"),
    "no store at all": OK_ST.replace("x.population_id = 0", "x.other = 0"),
}

OK_IP = """
def f(self, swarm):
    crowding_distance(swarm)
    self.leaders.add(swarm)
"""
BAD_IP = {
    "argument is not a name": OK_IP.replace("crowding_distance(swarm)", "crowding_distance(list(swarm))"),
    "call inside an expression": OK_IP.replace("self.leaders.add(swarm)", "self.leaders.add(crowding_distance(swarm))"),
    "keyword argument": OK_IP.replace("crowding_distance(swarm)", "crowding_distance(front=swarm)"),
}


def run():
    fails = []

    def must_pass(what, thunk):
        try:
            thunk()
        except sw.Unsupported as e:
            fails.append("%s: rejected (%s)" % (what, e))

    def must_fail(what, thunk):
        try:
            thunk()
            fails.append("%s: accepted" % what)
        except sw.Unsupported:
            pass
    must_pass("element_writes", lambda: sw.element_writes(fn_of(OK_EW), EW, "f"))
    for k, src in BAD_EW.items():
        must_fail("element_writes / " + k, lambda src=src: sw.element_writes(fn_of(src), EW, "f"))
    must_pass("counting_while", lambda: sw.counting_while(fn_of(OK_CW), "f"))
    for k, src in BAD_CW.items():
        must_fail("counting_while / " + k, lambda src=src: sw.counting_while(fn_of(src), "f"))
    must_pass("alias_copies", lambda: sw.alias_copies(fn_of(OK_AC), True, "f", set()))
    for k, src in BAD_AC.items():
        must_fail("alias_copies / " + k, lambda src=src: sw.alias_copies(fn_of(src), True, "f", set()))
    must_pass("stores", lambda: sw.stores(fn_of(OK_ST), {"population_id": ["ind", "nat"]}, "f", set()))
    for k, src in BAD_ST.items():
        must_fail("stores / " + k, lambda src=src: sw.stores(fn_of(src), {"population_id": ["ind", "nat"]}, "f", set()))
    must_pass("inplace", lambda: sw.inplace_calls(fn_of(OK_IP), ["crowding_distance"], "f"))
    for k, src in BAD_IP.items():
        must_fail("inplace / " + k, lambda src=src: sw.inplace_calls(fn_of(src), ["crowding_distance"], "f"))
    # the counting while really is the for loop: run both on a recording object
    ns = {}
    for name, node in (("w", fn_of(OK_CW)), ("f", sw.counting_while(fn_of(OK_CW), "f"))):
        node.name = name
        exec(compile(ast.fix_missing_locations(ast.Module(body=[node], type_ignores=[])), "<selftest>", "exec"), ns)

    class Rec:
        def __init__(self, n):
            self.options, self.log = {"n": n}, []

        def init(self):
            self.log.append("init")

        def step(self, it):
            self.log.append(it)

        def done(self):
            self.log.append("done")
    for n in (-1, 0, 1, 5):
        a, b = Rec(n), Rec(n)
        ns["w"](a)
        ns["f"](b)
        if a.log != b.log:
            fails.append("counting_while: while and for differ for n = %d" % n)
    total = 5 + len(BAD_EW) + len(BAD_CW) + len(BAD_AC) + len(BAD_ST) + len(BAD_IP) + 4
    print("py2coq_swarm self-test: %d checks, %d failures" % (total, len(fails)))
    for f in fails:
        print("  FAIL " + f)
    return 1 if fails else 0


if __name__ == "__main__":
    sys.exit(run())
