#!/bin/bash
# Re-checks the compiled property theorems (and everything they depend on) with Coq's independent
# checker and records the axioms each Props module relies on:  evidence/coqchk/CXX.txt
# usage: tools/coqchk_all.sh [CXX ...]      (default: every Props/CXX.vo that exists)
cd "$(dirname "$0")/../coq" || exit 2
mkdir -p ../evidence/coqchk
mods=("$@")
if [ ${#mods[@]} -eq 0 ]; then for f in theories/Props/C*.vo; do mods+=("$(basename "$f" .vo)"); done; fi
printf "%s\n" "${mods[@]}" | xargs -P "${COQCHK_JOBS:-6}" -I{} sh -c \
  'timeout 3600 coqchk -silent -o -Q theories Artap Artap.Props.{} > ../evidence/coqchk/{}.txt 2>&1; echo "{} rc=$?" '
