#!/usr/bin/env python3
"""Front-end "var" of tools/py2coq.py: variation operators that DRAW RANDOM NUMBERS inside loops (C08).

The core translator only admits an impure oracle once per function and never inside a loop.  The mutation /
crossover operators of artap/operators.py draw per coordinate.  This front-end is a source-to-source pass in front
of the core translator (same spec format, `"frontend": "var"`; everything else is py2coq.py as it is):

* the random source becomes an ORACLE TAPE: a function `nat -> T` (`random.random()` = `o_random k`,
  `random.uniform(a, b)` = `o_random_uniform a b k`, ...) indexed by a draw counter.  Every function that draws
  (itself or through a translated callee) gets one more parameter, the LAST one: `draw_k : nat`, the number of
  draws made before the call.  The k-th draw of the call is the oracle at `draw_k + k`; the counter is an ordinary
  integer local of the rewritten function (carried through loops by the core translator).  Theorems quantify over
  the tape and over the counter.
* draws of one statement are numbered in evaluation order (arguments before the call, left to right); the statement
  `draw_k = draw_k + n` follows it (for an `if` test: at the head of both branches).  A draw in a conditionally
  evaluated operand (`and` / `or` / conditional expression / lambda / comprehension), in a loop header, in an
  assignment target or nested in the arguments of another draw is rejected.
* a translated callee that draws (`"calls": {"self.pm_mutation": "PmMutator.pm_mutation"}`) must make the SAME
  number of draws on every path (computed here, fail closed); the call gets the counter as its last argument and the
  caller advances its counter by that number.
* `"globals": {"EPSILON": ["T", "sys.float_info.epsilon"]}`: a module-level constant the function reads becomes one
  more parameter (before `draw_k`); its defining expression is pinned TEXTUALLY (exactly one module-level assignment
  with that text, no other binding of the name in the module or the function).
* `"drop": ["if isinstance(x, complex):\n    print(x)"]`: a compound statement designated as NOT translated (debug
  output): exactly one occurrence, no assignment / draw / exit inside, not a whole block; named in the generated file.
* `"pinned": ["x1 = list(p1)"]`: statements that must occur word for word exactly once (what value semantics cannot
  tell apart: `list(p)` / `p.copy()` of an integer ndarray, defect F15).
* `"tuple_return": true`: `return a, b` is read as `return [a, b]` (a tuple of values of one type as their list).
* `a[i], b[j] = e1, e2` (subscript targets) is desugared to `t1 = e1; t2 = e2; a[i] = t1; b[j] = t2`.

Nothing is guessed: what is outside raises `Unsupported`.  The rewritten function is printed in the generated file.
"""
import ast
import copy
import hashlib
import importlib.util
import json
import os
import sys

HERE = os.path.dirname(os.path.abspath(__file__))
COUNTER = "draw_k"


def _load_base():
    path = os.path.join(HERE, "py2coq.py")
    for m in list(sys.modules.values()):
        f = getattr(m, "__file__", None)
        if f and os.path.abspath(f) == path and hasattr(m, "Unsupported") and hasattr(m, "find_function"):
            return m
    spec = importlib.util.spec_from_file_location("py2coq_base_for_var", path)
    m = importlib.util.module_from_spec(spec)
    spec.loader.exec_module(m)
    return m


B = _load_base()
Unsupported = B.Unsupported
dotted = B.dotted


class Pass:
    """the rewriting pass for ONE function"""

    def __init__(self, qual, fspec, counts):
        self.qual = qual
        self.draws = set(fspec.get("draws", []))
        self.calls = dict(fspec.get("calls", {}))
        self.counts = counts                  # qualified callee name -> static number of draws (None = not static)
        self.ntmp = 0

    def err(self, msg, node):
        return Unsupported(msg, node, self.qual)

    # ---- classification ---------------------------------------------------------------------
    def call_kind(self, n):
        """'draw', ('callee', count) or None"""
        if not isinstance(n, ast.Call):
            return None
        d = dotted(n.func)
        if d in self.draws:
            return "draw"
        if d in self.calls:
            c = self.counts.get(self.calls[d], 0)
            if c is None:
                raise self.err("call of %s, whose number of draws is not the same on every path" % d, n)
            if c:
                return ("callee", c)
        return None

    def count_expr(self, e):
        """number of draws an expression makes (static)"""
        if e is None:
            return 0
        total = 0
        for n in ast.walk(e):
            k = self.call_kind(n)
            if k == "draw":
                total += 1
            elif k:
                total += k[1]
        return total

    def has_draws(self, node):
        return any(self.call_kind(n) for n in ast.walk(node))

    # ---- static path count (callees) ---------------------------------------------------------
    def flow(self, stmts, ins):
        """-> (counts at fall-through, counts at a return), None = unknown"""
        rets = set()
        cur = set(ins)
        for st in stmts:
            if not cur:
                break
            if isinstance(st, ast.Return):
                c = self.count_expr(st.value)
                rets |= {i + c for i in cur}
                cur = set()
            elif isinstance(st, ast.If):
                t = self.count_expr(st.test)
                base = {i + t for i in cur}
                o1, r1 = self.flow(st.body, base)
                o2, r2 = self.flow(st.orelse, base)
                if o1 is None or o2 is None:
                    return None, None
                cur, rets = o1 | o2, rets | r1 | r2
            elif isinstance(st, (ast.For, ast.While)):
                if self.has_draws(st):
                    return None, None
                o1, r1 = self.flow(st.body, cur)
                if o1 is None:
                    return None, None
                rets |= r1
            elif isinstance(st, (ast.Assign, ast.AugAssign, ast.Expr, ast.AnnAssign)):
                c = self.count_expr(st)
                cur = {i + c for i in cur}
            elif isinstance(st, (ast.Pass, ast.Continue, ast.Break)):
                pass
            else:
                if self.has_draws(st):
                    return None, None
        return cur, rets

    def static_count(self, fn):
        outs, rets = self.flow(fn.body, {0})
        if outs is None:
            return None
        alls = outs | rets
        return next(iter(alls)) if len(alls) == 1 else None

    # ---- rewriting -----------------------------------------------------------------------------
    def counter(self, off):
        k = ast.Name(id=COUNTER, ctx=ast.Load())
        return k if off == 0 else ast.BinOp(left=k, op=ast.Add(), right=ast.Constant(value=off))

    def bump(self, off, like):
        st = ast.Assign(targets=[ast.Name(id=COUNTER, ctx=ast.Store())],
                        value=ast.BinOp(left=ast.Name(id=COUNTER, ctx=ast.Load()), op=ast.Add(),
                                        right=ast.Constant(value=off)))
        return ast.copy_location(st, like)

    def rw(self, e, st):
        """rewrite the expression e in evaluation order; st = [offset]"""
        if e is None or not self.has_draws(e):
            return e
        if isinstance(e, ast.BoolOp):
            first = self.rw(e.values[0], st)
            for v in e.values[1:]:
                if self.has_draws(v):
                    raise self.err("a draw in a conditionally evaluated operand of and / or", v)
            e.values[0] = first
            return e
        if isinstance(e, ast.IfExp):
            if self.has_draws(e.body) or self.has_draws(e.orelse):
                raise self.err("a draw in a branch of a conditional expression", e)
            e.test = self.rw(e.test, st)
            return e
        if isinstance(e, (ast.Lambda, ast.ListComp, ast.SetComp, ast.DictComp, ast.GeneratorExp)):
            raise self.err("a draw inside a lambda / comprehension", e)
        kind = self.call_kind(e)
        if isinstance(e, ast.Call):
            if e.keywords and (kind or any(self.has_draws(k.value) for k in e.keywords)):
                raise self.err("keyword arguments at a call that draws", e)
            if kind == "draw":
                if any(self.has_draws(a) for a in e.args):
                    raise self.err("a draw nested in the arguments of a draw", e)
            if not kind:
                e.func = self.rw(e.func, st)
            e.args = [self.rw(a, st) for a in e.args]
            if kind:
                e.args.append(self.counter(st[0]))
                e._var_done = True
                st[0] += 1 if kind == "draw" else kind[1]
            return e
        for field, val in ast.iter_fields(e):
            if isinstance(val, ast.expr):
                setattr(e, field, self.rw(val, st))
            elif isinstance(val, list):
                setattr(e, field, [self.rw(v, st) if isinstance(v, ast.expr) else v for v in val])
        return e

    def tmp(self):
        self.ntmp += 1
        return "swap_%d" % self.ntmp

    def desugar_tuple_store(self, s):
        """a[i], b[j] = e1, e2  ->  t1 = e1; t2 = e2; a[i] = t1; b[j] = t2   (right-hand sides first, as Python does)"""
        if not (isinstance(s, ast.Assign) and len(s.targets) == 1 and isinstance(s.targets[0], ast.Tuple)
                and isinstance(s.value, ast.Tuple) and len(s.value.elts) == len(s.targets[0].elts)
                and any(isinstance(t, ast.Subscript) for t in s.targets[0].elts)):
            return [s]
        names = [self.tmp() for _ in s.value.elts]
        out = [ast.copy_location(ast.Assign(targets=[ast.Name(id=n, ctx=ast.Store())], value=v), s)
               for n, v in zip(names, s.value.elts)]
        out += [ast.copy_location(ast.Assign(targets=[t], value=ast.Name(id=n, ctx=ast.Load())), s)
                for n, t in zip(names, s.targets[0].elts)]
        return out

    def block(self, stmts):
        out = []
        for s0 in stmts:
            for s in self.desugar_tuple_store(s0):
                out.extend(self.stmt(s))
        return out

    def stmt(self, s):
        if isinstance(s, (ast.Assign, ast.AugAssign, ast.AnnAssign)):
            tg = s.targets if isinstance(s, ast.Assign) else [s.target]
            if any(self.has_draws(t) for t in tg):
                raise self.err("a draw in an assignment target", s)
            st = [0]
            s.value = self.rw(s.value, st)
            return [s] + ([self.bump(st[0], s)] if st[0] else [])
        if isinstance(s, ast.Expr):
            st = [0]
            s.value = self.rw(s.value, st)
            return [s] + ([self.bump(st[0], s)] if st[0] else [])
        if isinstance(s, ast.Return):
            st = [0]
            s.value = self.rw(s.value, st)
            return [s]
        if isinstance(s, ast.If):
            st = [0]
            s.test = self.rw(s.test, st)
            body, orelse = self.block(s.body), self.block(s.orelse)
            if st[0]:
                body = [self.bump(st[0], s.body[0])] + body
                orelse = [self.bump(st[0], s)] + orelse
            s.body, s.orelse = body, orelse
            return [s]
        if isinstance(s, ast.For):
            if self.has_draws(s.iter) or self.has_draws(s.target):
                raise self.err("a draw in a loop header", s)
            s.body = self.block(s.body)
            if s.orelse and self.has_draws(ast.Module(body=s.orelse, type_ignores=[])):
                raise self.err("a draw in the else part of a loop", s)
            return [s]
        if isinstance(s, ast.While):
            if self.has_draws(s.test):
                raise self.err("a draw in a loop header", s)
            s.body = self.block(s.body)
            if s.orelse and self.has_draws(ast.Module(body=s.orelse, type_ignores=[])):
                raise self.err("a draw in the else part of a loop", s)
            return [s]
        if self.has_draws(s):
            raise self.err("a draw inside %s" % type(s).__name__, s)
        return [s]


def stmt_lists(fn):
    """every statement list of the function (bodies, else parts)"""
    for n in ast.walk(fn):
        for field in ("body", "orelse", "finalbody"):
            v = getattr(n, field, None)
            if isinstance(v, list) and v and isinstance(v[0], ast.stmt):
                yield v


def check_global(tree, fn, name, text, qual):
    """exactly one binding of `name` in the module: a module-level assignment `name = <text>`; not bound in fn"""
    hits = []
    for n in ast.walk(tree):
        if isinstance(n, ast.Name) and n.id == name and isinstance(n.ctx, (ast.Store, ast.Del)):
            hits.append(n)
        elif isinstance(n, ast.arg) and n.arg == name:
            hits.append(n)
        elif isinstance(n, (ast.Import, ast.ImportFrom)):
            for a in n.names:
                if (a.asname or a.name).split(".")[0] == name:
                    hits.append(n)
                elif a.name == "*" and any(isinstance(t, ast.Assign) and t.lineno < n.lineno for t in tree.body
                                           if isinstance(t, ast.Assign) and len(t.targets) == 1
                                           and isinstance(t.targets[0], ast.Name) and t.targets[0].id == name):
                    hits.append(n)                      # a star import AFTER the assignment could rebind the name
        elif isinstance(n, (ast.FunctionDef, ast.ClassDef)) and n.name == name:
            hits.append(n)
        elif isinstance(n, ast.Global) and name in n.names:
            hits.append(n)
    tops = [n for n in tree.body if isinstance(n, ast.Assign) and len(n.targets) == 1
            and isinstance(n.targets[0], ast.Name) and n.targets[0].id == name]
    if len(tops) != 1 or len(hits) != 1:
        raise Unsupported("the global %s is bound %d times in the module (%d module-level assignments): expected "
                          "exactly one assignment" % (name, len(hits), len(tops)), fn, qual)
    got = ast.unparse(tops[0].value)
    if got != text:
        raise Unsupported("the global %s is defined as `%s`, the spec pins `%s`" % (name, got, text), tops[0], qual)


LAST_REWRITTEN = {}        # qualified name -> the FunctionDef after the tape pass (read by tools/py2coq_var_selftest.py)


def translate_spec(repo, spec):
    """-> (coq text, [{"function", "sha1", "source"}]); raises Unsupported."""
    path = os.path.join(repo, spec["source"])
    src = open(path).read()
    tree = ast.parse(src, filename=path)
    lines = src.splitlines(keepends=True)
    done, parts, info, helpers, counts = {}, [], [], set(), {}
    for item in spec["functions"]:
        cls, name = item[0], item[1]
        if len(item) > 2:
            raise Unsupported("front-end var: tagged functions are not supported (%s)" % (item,))
        qual = (cls + "." if cls else "") + name
        node0 = B.find_function(tree, cls or None, name, spec["source"])
        fs = B.function_source(lines, node0)
        info.append({"function": qual, "sha1": hashlib.sha1(fs.encode()).hexdigest(), "source": fs})
        fspec0 = spec.get("types", {}).get(qual)
        if fspec0 is None:
            raise Unsupported("no typing for %s in the spec" % qual)
        if fspec0.get("mode"):
            raise Unsupported("front-end var: modes are not supported (%s)" % qual)
        fspec = copy.deepcopy(fspec0)
        node = copy.deepcopy(node0)
        ps = Pass(qual, fspec, counts)
        argnames = [a.arg for a in node.args.args]
        bound = set(argnames) | set(B.assigned_names(node.body))
        # module-level constants as parameters
        for g, (gt, gtext) in fspec.get("globals", {}).items():
            check_global(tree, node, g, gtext, qual)
            if g in bound:
                raise Unsupported("the global %s is rebound in the function" % g, node, qual)
            node.args.args.append(ast.arg(arg=g))
            fspec.setdefault("params", {})[g] = gt
        # designated compound statements that are NOT translated (debug output): pinned textually, exactly once each
        dropped = []
        for text in fspec.get("drop", []):
            hits = [(blk, st) for blk in stmt_lists(node) for st in blk if ast.unparse(st) == text]
            if len(hits) != 1:
                raise Unsupported("the statement `%s` designated as not translated occurs %d times" % (text, len(hits)), node, qual)
            blk, st = hits[0]
            if ps.has_draws(st) or any(isinstance(n, (ast.Return, ast.Break, ast.Continue, ast.Raise, ast.Assign,
                                                       ast.AugAssign, ast.AnnAssign, ast.Delete, ast.NamedExpr))
                                       for n in ast.walk(st)):
                raise Unsupported("the statement `%s` designated as not translated assigns / draws / leaves" % text, st, qual)
            if len(blk) == 1:
                raise Unsupported("the statement `%s` designated as not translated is a whole block" % text, st, qual)
            blk.remove(st)
            dropped.append(text)
        # "pinned": statements that must occur in the function exactly once, word for word (what the value semantics of
        # the translation cannot tell apart: `x1 = list(p1)` and `x1 = p1.copy()` are both "a fresh copy" for a list of
        # floats, but only the first turns an integer ndarray parent into a list - defect F15)
        for text in fspec.get("pinned", []):
            cnt = sum(1 for blk in stmt_lists(node) for st in blk if ast.unparse(st) == text)
            if cnt != 1:
                raise Unsupported("the statement `%s` pinned by the spec occurs %d times" % (text, cnt), node, qual)
        pinned = list(fspec.get("pinned", []))
        # "tuple_return": `return a, b` is read as `return [a, b]` (a tuple of values of ONE type as the list of them)
        if fspec.get("tuple_return"):
            for n in ast.walk(node):
                if isinstance(n, ast.Return) and isinstance(n.value, ast.Tuple):
                    n.value = ast.copy_location(ast.List(elts=n.value.elts, ctx=ast.Load()), n.value)
        draws = ps.has_draws(node)
        counts[qual] = ps.static_count(node) if draws else 0
        if draws:
            if COUNTER in bound or any(isinstance(n, ast.Name) and n.id == COUNTER for n in ast.walk(node)):
                raise Unsupported("the name %s is used by the function" % COUNTER, node, qual)
            node.args.args.append(ast.arg(arg=COUNTER))
            node.args.defaults = []           # defaults are ignored by the translator; do not let them shift
            fspec.setdefault("params", {})[COUNTER] = "nat"
            for o in fspec.get("oracles", []):
                if o[0] in ps.draws:
                    if len(o) > 3:
                        raise Unsupported("draw oracle %s with a flag" % o[0], node, qual)
                    o[1] = list(o[1]) + ["nat"]
            for d in ps.draws:
                if d not in [o[0] for o in fspec.get("oracles", [])]:
                    raise Unsupported("draw %s is not a declared oracle" % d, node, qual)
        node.body = ps.block(node.body)
        for n in ast.walk(node):
            if isinstance(n, ast.Call) and ps.call_kind(n) and not getattr(n, "_var_done", False):
                raise Unsupported("a draw the rewriting pass did not reach", n, qual)
        ast.fix_missing_locations(node)
        LAST_REWRITTEN[qual] = copy.deepcopy(node)
        fspec.pop("draws", None)
        fspec.pop("globals", None)
        fspec.pop("drop", None)
        fspec.pop("tuple_return", None)
        fspec.pop("pinned", None)
        ft = B.FnTranslator(spec["module"], cls or None, name, fspec, node, done)
        ft.shadowed_builtins = B.module_shadows(tree, cls)
        code = ft.translate()
        note = ""
        if pinned:
            note += "\n(* pinned word for word by the spec: %s *)" % "; ".join("`%s`" % t.replace("*)", "* )") for t in pinned)
        if dropped:
            note += "\n(* NOT translated (statements designated by the spec: no assignment, no draw, no exit): %s *)" % "; ".join(
                "`%s`" % t.replace("*)", "* )").replace("\n", " ") for t in dropped)
        if ft.skipped:
            note += "\n(* NOT translated (designated by the spec; effects outside the result): %s *)" % "; ".join(
                "`%s` x%d" % (t.replace("*)", "* )"), c) for t, c in sorted(ft.skipped.items()))
        shown = ast.unparse(node).replace("(*", "( *").replace("*)", "* )")
        parts.append("(* %s.%s, lines %d-%d of %s, sha1 %s; draws on every path: %s.\n   After the tape pass of "
                     "tools/py2coq_var.py the function reads:\n%s\n*)%s\n%s" % (
                         cls or "<module>", name, node0.lineno, node0.end_lineno, spec["source"],
                         hashlib.sha1(fs.encode()).hexdigest(),
                         "not static" if counts[qual] is None else counts[qual],
                         "\n".join("     " + ln for ln in shown.splitlines()), note, code))
        helpers |= ft.ghelpers
        done[qual] = ft
    head = ("(* GENERATED by tools/py2coq_var.py (front-end of tools/py2coq.py) from %s - never edit, never commit.\n"
            "   Shallow Gallina definitions of: %s.\n"
            "   Random draws are an oracle tape indexed by the draw counter `draw_k` (last parameter). *)\n"
            "From Coq Require Import List ZArith Bool Arith Floats.\nImport ListNotations.\n\n"
            % (spec["source"], ", ".join(i["function"] for i in info)))
    head += "".join(B.GLOBAL_HELPERS[h] + "\n\n" for h in sorted(helpers))
    return head + "\n\n".join(parts) + "\n", info


def main(argv):
    import argparse
    ap = argparse.ArgumentParser(description=__doc__.split("\n")[0])
    ap.add_argument("--repo", default=os.environ.get("VERIF_REPO", "/repo"))
    ap.add_argument("--spec", required=True)
    ap.add_argument("--out", default="-")
    a = ap.parse_args(argv)
    spec = json.load(open(a.spec))
    try:
        text, _ = translate_spec(a.repo, spec)
    except Unsupported as e:
        sys.stderr.write("py2coq_var: %s\n" % e)
        return 2
    if a.out == "-":
        sys.stdout.write(text)
    else:
        open(a.out, "w").write(text)
    return 0


if __name__ == "__main__":
    sys.exit(main(sys.argv[1:]))
