#!/bin/bash
# usage: tools/keepseed.sh <name> <dir with patch.diff demo.py meta.json> "<what I ran / outcome>"
D=/verif/seeded/$1; mkdir -p $D; cp $2/patch.diff $2/demo.py $D/ 2>/dev/null
python3 - "$2/meta.json" "$D/meta.json" "$3" <<'PY'
import json,sys
try: m=json.load(open(sys.argv[1]))
except Exception: m={}
m["confirmed_by_lead"]=sys.argv[3]
json.dump(m,open(sys.argv[2],"w"),indent=1)
PY
ls $D
