#!/bin/bash
# Runs every seeded change against the check(s) of its property (scratch worktree per job, removed afterwards) and
# records the outcome in /verif/seeded/<name>/regression.json:  flagged-with-input / flagged-no-input / MISSED.
# usage: tools/seed_regression.sh [name-glob]      env: JOBS (default 4)
cd /verif
pat="${1:-*}"
one() {
  d=$1; n=$(basename $d)
  p=$(python3 -c "import json;print(json.load(open('$d/meta.json')).get('property',''))")
  [ -z "$p" ] && return
  WT=/tmp/seedreg_$n
  git -C /repo worktree add --detach $WT -q 2>/dev/null || return
  if ! git -C $WT apply $d/patch.diff 2>/dev/null; then res="PATCH-DOES-NOT-APPLY"; out=""; else
    W=/tmp/seedreg_work_$n; rm -rf $W; mkdir -p $W
    out=$(cd /verif && VERIF_REPO=$WT VERIF_WORK=$W VERIF_NO_EVIDENCE=1 timeout 1500 ./check $p --tier quick 2>&1 | grep -E "VIOLATION|quick:" | tail -3)
    if echo "$out" | grep -q "no-failing-input-found"; then res="flagged-no-input";
    elif echo "$out" | grep -q "VIOLATION"; then res="flagged-with-input"; else res="MISSED"; fi
    rm -rf $W
  fi
  git -C /repo worktree remove --force $WT
  python3 - "$d" "$res" "$out" <<'PY'
import json,sys,subprocess,time
d,res,out=sys.argv[1:4]
json.dump({"result":res,"check_output":out.splitlines()[-1:] ,"repo_head":subprocess.check_output(['git','-C','/repo','rev-parse','--short','HEAD']).decode().strip(),
           "verif_head":subprocess.check_output(['git','-C','/verif','rev-parse','--short','HEAD']).decode().strip(),"when":time.strftime('%Y-%m-%d %H:%M')},open(d+'/regression.json','w'),indent=1)
print(d.split('/')[-1],res)
PY
}
export -f one
ls -d /verif/seeded/$pat/ | xargs -P ${JOBS:-4} -I{} bash -c 'one {}'
