"""C06 - transient evaluation failures are retried (at most five attempts), logged in problem.failed and never
recorded as results; five consecutive failures raise RuntimeError, any other exception propagates at once.
Correspondence with Model/Job.v (drivers Run/C05Run.v / Run/C06Run.v) and direct oracle.

The scripted Problem, the `Session` that drives artap through Algorithm.evaluate / evaluate_scalar / SweepAlgorithm
and both direct oracles live in harness/c05.py (shared model, shared machinery); this module generates the fault
schedules: every pattern of one design (success / fatal after 0..4 transient failures, five in a row) at every
position of batches of up to three designs, random histories with high fault rates, and 2-worker parallel runs
(joblib threads) in which the exception has to surface through joblib.

The replacement design ("a freshly sampled design inside the bounds") is checked here on problems with MIXED
parameter descriptions (red-team lesson: a gen_vector that lets `precision` / `parameter_type` of one parameter leak
into the next is invisible when every parameter declares the same keys): every combination of no precision /
precision 1, 0.5, 0.05, 1e-3 / parameter_type absent, real, integer / integer, float, negative, tiny, huge bounds / no
bounds (initial_value only), in every order.  Each replacement is (a) checked coordinate by coordinate against the
bounds of ITS OWN parameter by the direct oracle, with the slack C08 uses (1e-12, or that parameter's declared
precision / 2, plus 4 ulp of the larger bound), and (b) compared with Model/Reroll.v `gen_vector_desc` evaluated in
Coq (exact rationals) on the draws of random() that gen_vector consumed (`c06_reroll_run`).

Red-team round 2: the model sees only Transient / Fatal, so the outcome must not depend on what the exception CARRIES.
`Shaper` builds every scripted exception of the sessions of this module in one of 30 shapes (no arguments, '', int, bool,
(errno, strerror[, filename]), bytes, None, nan, tuple / list / dict / exception / object / class as only argument, a
200 kB string, a string full of format characters / quotes / NUL / lone surrogate, swapped and five arguments;
user-defined subclasses with extra attributes and args == (), with an own __str__, and one that is also a ValueError;
explicit __cause__ (non-transient and transient), implicit __context__ (raised inside an except block), args replaced
after construction, add_note, a pre-set traceback, ONE exception object raised at every attempt); every shape x every
transient class is enumerated (job recovers after 1..4 such failures / five in a row / fatal after them), the other
serial, mixed-description and parallel / nested sessions draw a shape per attempt.  An exception whose __str__ raises
is not scripted: the unchanged handler prints the exception, so it would leave the handler with the __str__'s error.
"""
import contextlib
import copy
import math
import threading
import time
from fractions import Fraction

from harness.core import nl, bl, ll, pl, ql
from harness import c05 as base

PROP = "C06"
THEOREMS = {"Artap.Props.C06": [
    "C06_attempts_le_5", "C06_batch_attempts_le_5", "C06_job_protocol", "C06_failed_log_exact",
    "C06_stored_pair_after_reroll", "C06_stored_costs_belong_to_stored_vector", "C06_reroll_invariant",
    "C06_result_decided", "C06_five_failures_raise", "C06_four_failures_do_not_raise", "C06_fatal_propagates",
    "C06_raise_leaves_batch_at_once",
    "C06_replacement_reads_own_keys", "C06_replacement_is_gen_vector", "C06_replacement_in_bounds", "C06_replacement_in_own_box",
    "C06_integer_replacement_in_integer_bounds", "C06_retried_vectors_in_bounds", "C06_stored_vector_in_bounds"]}
AXIOMS_OK = []
# second tie to the code (tools/py2coq.py + front-end tools/py2coq_eff.py + coq/theories/GenProofs): the source of
# Job.evaluate is translated on every run (try/except as a match on the objective's outcome, raise as a result, the
# re-draw and sync_individual as effects in order) and proved equal to Model/Job.v job_evaluate for all inputs
# (JobGen / GenProofs/JobEquiv.v).  Four modules are declared, 6 source functions, 8 theorems: SignedCostsGen
# (Individual.calc_signed_costs = Job.signed_costs), JobGen (Job.evaluate), EvalPathGen (Evaluator.evaluate_serial /
# evaluate_parallel / evaluate_scalar = Job.evaluate_serial, the submission filter of Parallel.par_tasks,
# Job.evaluate_scalar) and IndividualInitGen (Individual.__init__ = Job.fresh).  VectorAndNumbers.gen_vector is NOT
# translated: inside Job.evaluate it is an oracle effect, Model/Reroll.v is tied to it by the c06_reroll comparison.
from harness.core import translated_specs
TRANSLATED = translated_specs("SignedCostsGen", "JobGen", "EvalPathGen", "IndividualInitGen")
TRUSTED = [
    "Coq 8.16.1 kernel, vm_compute for model evaluation (no native_compute)",
    "hand-written model Model/Job.v (shared with C05) tied to job.py / operators.py by this correspondence run",
    "the objective (fault schedule) and the constraint function are oracles: observed on the implementation and given to the model as "
    "tapes; the theorems hold for every schedule and oracle. In the retry-loop model the replacement design is an oracle tape too; the "
    "replacement itself is modelled separately (Model/Reroll.v gen_vector_desc: which keys of which parameter description gen_vector "
    "reads for each coordinate, over gen_number of Model/Variation.v, C08) and compared on every recorded replacement with the "
    "implementation's vector in exact rationals on the recorded random() draws (regime R3: 4 ulp; one step / one unit more, counted, "
    "where the quotient is within rounding error of a rounding tie or the number within rounding error of an integer before int())",
    "random() is an oracle (draws recorded by wrapping artap.utils.random during gen_vector; 15 % of the mixed-description sessions "
    "script extreme draws 0, 1 - 2^-53, 2^-53, 0.5); the theorems assume draws in [0, 1)",
    "exception classes are mapped to the model's outcomes by the harness: TimeoutError, RuntimeError and subclasses of RuntimeError "
    "(NotImplementedError, RecursionError) are Transient, every other class (ValueError, ZeroDivisionError, KeyError, ArithmeticError, "
    "OSError, a BaseException subclass) is Fatal; user-defined subclasses of the four transient classes (incl. one that also derives "
    "from ValueError) are Transient (isinstance, as the except clause reads); what the exception carries (arguments, attributes, "
    "__cause__ / __context__, notes, traceback, object identity) is not an input of the model and is varied over 30 shapes",
    "parallel runs are compared design by design (the calls of one job are its own attempts); joblib's dispatch, thread scheduling and "
    "the GIL are not modelled (C07)",
]
ASSUMPTIONS = [
    "the constraint function, data_store.sync_individual and gen_vector do not raise; the objective does not modify the individual; "
    "str() of the raised exception does not raise (the handler prints it)",
    "'inside the bounds' is read as C08 reads it: every coordinate within 1e-12 (no declared precision) or half of its own parameter's "
    "declared precision of its own parameter's [lb, ub] (gen_number rounds to a grid), plus 4 ulp of the larger bound for binary64; "
    "proved in exact rationals (C06_replacement_in_bounds / _in_own_box / C06_stored_vector_in_bounds from C08's gen_number theorem), "
    "checked on the implementation by the direct oracle coordinate by coordinate against the parameter's own description",
    "parameters without 'bounds' (initial_value only) have no box to be inside of (modelled, compared, not checked by the oracle); "
    "parameter_type 'integer' truncates with int() after rounding: with integer bounds the oracle requires [lb, ub], with non-integer "
    "bounds there may be no design of that type in the box and the coordinate is skipped and counted (C08 excludes it too); the "
    "theorem for truncated coordinates is 'an integer less than 1 from the box' and 'inside whenever the rounded number is'",
    "'at most five attempts' is per Job.evaluate call: a design left EMPTY by five failures gets five new attempts if the caller catches "
    "the RuntimeError and evaluates it again",
]

HEADER = ("From Artap Require Import Run.C06Run.\nFrom Coq Require Import List ZArith Floats.\nImport ListNotations.\n"
          "Open Scope float_scope.\n")

TR = list(base.TRANSIENT)
FA = list(base.FATAL)


design_patterns = base.design_patterns
pattern_codes = base.pattern_codes


def raises(pat):
    return pat[0] != "ok"


# ==============================================================================================================
# what the exception carries (red-team round 2): the model sees Transient / Fatal only, so nothing may depend on it
# ==============================================================================================================
_SUB = {}


def subclasses(cls):
    """user-defined subclasses of a transient class: extra attributes and an __init__ that passes nothing on (args == ()),
    an own __str__, and a class that is ALSO a ValueError (like io.UnsupportedOperation is OSError and ValueError)"""
    if cls not in _SUB:
        class WithAttributes(cls):
            def __init__(self, host, seconds, **detail):
                super().__init__()
                self.host, self.seconds, self.detail, self.code = host, seconds, detail, 3

        class OwnStr(cls):
            def __str__(self):
                return "solver gave up: %r" % (self.args[1:],)

        class AlsoValueError(cls, ValueError):
            pass
        _SUB[cls] = {"sub_attributes": WithAttributes, "sub_own_str": OwnStr, "sub_also_valueerror": AlsoValueError}
    return _SUB[cls]


TEXT_SPECIAL = "solver {} said: 100%s {0} %d {name} \\ \u2028 \udcff \x00 \" ' done"

# label -> constructor arguments (the class is called with them)
ARG_SHAPES = {
    "noargs": (), "empty_str": ("",), "int": (110,), "bool": (True,), "errno_strerror": (110, "Connection timed out"),
    "errno_strerror_filename": (2, "No such file or directory", "/tmp/solver.out"), "bytes": (b"\xff solver died",),
    "none": (None,), "nan": (float("nan"),), "tuple": ((1, "x"),), "list": ([3, 4],), "dict": ({"return_code": 3},),
    "exception": (ValueError("inner"),), "object": (object(),), "class": (KeyError,), "long_str": ("x" * 200000,),
    "format_characters": (TEXT_SPECIAL,), "int_str_swapped": ("Connection timed out", 110), "five_args": (1, "a", None, b"b", 2.5),
}
TRANSIENT_SHAPES = (["text"] + list(ARG_SHAPES) + ["sub_attributes", "sub_own_str", "sub_also_valueerror", "cause", "cause_transient",
                                                  "context", "args_replaced", "note", "same_object", "traceback"])
FATAL_SHAPES = ["text", "noargs", "int", "errno_strerror", "bytes", "none", "tuple", "cause", "context"]


class Shaper:
    """chooses what each scripted exception carries; `force` = one shape for every transient exception of the session"""

    def __init__(self, rng, hist, force=None, plain=0.35):
        self.rng, self.hist, self.force, self.plain = rng, hist, force, plain
        self.reused = {}

    def pick(self, shapes):
        if self.force in shapes:
            return self.force
        return "text" if self.rng.random() < self.plain else self.rng.choice(shapes)

    def build(self, cls, shape, text):
        if shape == "text":
            return cls(text)
        if shape in ARG_SHAPES:
            return cls(*ARG_SHAPES[shape])
        if shape == "sub_attributes":
            return subclasses(cls)[shape]("solver-7", 30.0, attempt=1)
        if shape in ("sub_own_str", "sub_also_valueerror"):
            return subclasses(cls)[shape](*self.rng.choice([(), (text,), (110, "Connection timed out")]))
        if shape == "same_object":                          # one exception object raised again and again
            if cls not in self.reused:
                self.reused[cls] = cls(110, "raised before")
            return self.reused[cls]
        e = cls(*self.rng.choice([(), (text,), (110,)]))
        if shape == "cause":                                # raise ... from an exception of a non-transient class
            e.__cause__, e.__suppress_context__ = ValueError("the real reason"), True
        elif shape == "cause_transient":
            e.__cause__, e.__suppress_context__ = TimeoutError(110, "Connection timed out"), True
        elif shape == "args_replaced":
            e.args = (7, None)
        elif shape == "note":
            e.add_note("raised by the scripted objective")
        elif shape == "traceback":
            try:
                raise e
            except BaseException:
                pass
        return e                                            # "context": raised inside an except block, see throw()

    def transient(self, code, text):
        shape = self.pick(TRANSIENT_SHAPES)
        k = "transient:" + shape
        self.hist[k] = self.hist.get(k, 0) + 1
        return self.build(base.TRANSIENT[code], shape, text), TR_NAME[code] + ":" + shape

    def fatal(self, code, text, lab):
        shape = self.pick(FATAL_SHAPES)
        k = "fatal:" + shape
        self.hist[k] = self.hist.get(k, 0) + 1
        cls = base.FATAL[code][0] or lab.BaseExc
        if shape == "errno_strerror":           # not 110: OSError(110, ...) constructs a TimeoutError, which is transient
            return cls(5, "Input/output error"), cls.__name__ + ":" + shape
        return self.build(cls, shape, text), cls.__name__ + ":" + shape


TR_NAME = {k: v.__name__ for k, v in base.TRANSIENT.items()}


def throw(e, label):
    if label.endswith(":context"):
        try:
            raise KeyError("looked up while the solver was failing")
        except KeyError:
            raise e
    raise e


class Shaped:
    """mixin for the sessions of this module: the scripted exceptions come from self.shaper (None: as in c05)"""
    shaper = None

    def init_shapes(self, shaper):
        self.shaper = shaper
        self.payloads = []

    def fail(self, group, what, **detail):
        if getattr(self, "payloads", None):
            detail = dict(detail, exceptions_raised=list(self.payloads[-15:]))
        super().fail(group, what, **detail)


def serial_case(lab, rng, pats, cfg_force=None, again=True, shaper=None, transient=None, fatal=None):
    """a batch of len(pats) new designs evaluated serially under the concatenated schedule; then evaluated again
    (the caller caught the exception) with no further faults; transient: the code of every transient failure"""
    sched = []
    for p in pats:
        sched += [transient if (transient and c in base.TRANSIENT) else fatal if (fatal and c in base.FATAL) else c for c in pattern_codes(rng, p)]
        if raises(p):
            break
    cfg = base.rand_cfg(rng, **(cfg_force or {}))
    cfg["schedule"] = sched
    s = Session06(lab, cfg, shaper)
    pool = [base.rand_vec(rng, cfg["dim"]) for _ in range(2)]
    ids = [s.mk(base.rand_vec(rng, cfg["dim"], pool)) for _ in pats]
    s.evaluate(ids)
    if again:
        s.evaluate(ids)
        if rng.random() < 0.3:
            s.evaluate(list(reversed(ids)))
    return s.freeze()


# ==============================================================================================================
# mixed parameter descriptions and the replacement design
# ==============================================================================================================
GEN_HEADER = ("From Artap Require Import Model.Reroll Run.C06Run.\nFrom Coq Require Import List ZArith QArith.\nImport ListNotations.\n")
TOL_DEFAULT = 1e-12
ONE_BELOW = 1.0 - 2.0 ** -53

PRECS = [None, 1, 0.5, 0.05, 1e-3]
PTYPES = [None, "real", "integer"]
BOUNDS = {"int": [(10, 60), (0, 5), (1, 2)],
          "float": [(0.2, 0.4), (0.25, 3.75), (-0.75, 0.5)],
          "negative": [(-10, -1), (-7.5, -2.25), (-5, -1)],
          "tiny": [(1e-9, 2e-9), (0.3, 0.3 + 1e-9), (1e-13, 3e-13)],
          "huge": [(-1e15, 1e15), (1e6, 1e12), (0.0, 1e150)],       # squares stay finite in the scripted objective
          "none": [2.0, 4, 0.3, -4.0]}            # no 'bounds' key: gen_vector samples [initial_value / 2, 3 initial_value / 2]
KINDS = [(b, pr, pt) for b in BOUNDS for pr in PRECS for pt in PTYPES]


def declares(kind):
    """does a description of this kind declare something that a later parameter could wrongly inherit?"""
    return kind[1] is not None or kind[2] == "integer"


def make_param(rng, kind):
    """one parameter description as a hashable tuple of (key, value) items, keys in random order"""
    b, prec, ptype = kind
    items = []
    if b == "none":
        items.append(("initial_value", rng.choice(BOUNDS[b])))
    else:
        items.append(("bounds", rng.choice(BOUNDS[b])))
        if rng.random() < 0.2:
            items.append(("initial_value", rng.choice([0.0, 1.0, 1e3])))        # present but not read
    if prec is not None:
        items.append(("precision", prec))
    if ptype is not None:
        items.append(("parameter_type", ptype))
    rng.shuffle(items)
    return tuple(items)


def spec_params(spec):
    out = []
    for i, items in enumerate(spec):
        p = {"name": "x%d" % i}
        for k, v in items:
            p[k] = list(v) if k == "bounds" else v
        out.append(p)
    return out


def rand_spec(rng, dim):
    return tuple(make_param(rng, rng.choice(KINDS)) for _ in range(dim))


def start_vector(rng, spec):
    """a design the caller submits: inside each parameter's own box (ints for integer-typed parameters)"""
    v = []
    for items in spec:
        p = dict(items)
        if "bounds" in p:
            lb, ub = p["bounds"]
            x = rng.choice([lb, ub, lb + rng.choice([0.25, 0.5, 0.75]) * (ub - lb)])
        else:
            x = p["initial_value"]
        if p.get("parameter_type") == "integer" and abs(x) < 2 ** 50:
            x = int(x)
        v.append(float(x))
    return v


def ulp_of(*xs):
    return math.ulp(max(abs(float(x)) for x in xs))


def integral(x):
    return float(x) == math.floor(float(x))


def outside_own_box(x, p):
    """the property's clause for one coordinate of a replacement design and the description of ITS parameter (as
    the user wrote it): None when inside [lb, ub] up to the slack C08 uses, 'skipped: ...' when the description is
    outside the property, else a description of the violation"""
    if isinstance(x, bool) or not isinstance(x, (int, float)) and type(x).__name__ not in ("float64", "float32", "int64", "int32"):
        return "not a real number: %r" % (x,)
    if isinstance(x, float) and (math.isnan(x) or math.isinf(x)):
        return "not a finite number: %r" % (x,)
    if "bounds" not in p:
        return "skipped: no bounds declared"
    lb, ub = p["bounds"]
    if p.get("parameter_type") == "integer" and not (integral(lb) and integral(ub)):
        return "skipped: integer-typed parameter with non-integer bounds (no design of that type in the box; C08 excludes it)"
    prec = p.get("precision")
    t = Fraction(prec) / 2 if prec else Fraction(TOL_DEFAULT)
    t += 4 * Fraction(ulp_of(lb, ub))
    X = Fraction(x)
    if X < Fraction(lb) - t:
        return "below its lower bound %r by %.3g" % (lb, float(Fraction(lb) - X))
    if X > Fraction(ub) + t:
        return "above its upper bound %r by %.3g" % (ub, float(X - Fraction(ub)))
    return None


def enc_pdesc(p):
    b = "(Some (%s, %s))" % (ql(p["bounds"][0]), ql(p["bounds"][1])) if "bounds" in p else "None"
    iv = p.get("initial_value", 0)
    pr = "(Some %s)" % ql(p["precision"]) if "precision" in p else "None"
    return "(mk_pd %s %s %s %s)" % (b, ql(iv), pr, bl(p.get("parameter_type") == "integer"))


class Lab06(base.Lab):
    """base.Lab + Problems built from a mixed parameter specification (cfg['pstyle'] = a spec tuple)"""

    def __init__(self, ctx):
        super().__init__(ctx)
        import artap.utils as utils
        self.utils = utils
        self.real_random = utils.random
        self.spec_cache = {}

    def problem_for(self, dim, crit, pstyle, private=False):
        if not isinstance(pstyle, tuple):
            return super().problem_for(dim, crit, pstyle, private)
        key = (tuple(crit), pstyle, self.spec_serial if private else 0)
        if private:
            self.spec_serial += 1
        if key not in self.spec_cache:
            params = spec_params(pstyle)
            costs = []
            for j, c in enumerate(crit):
                d = {"name": "F%d" % j}
                if c is not None:
                    d["criteria"] = c
                costs.append(d)
            with contextlib.redirect_stderr(base.io.StringIO()):
                p = self.ScriptedProblem(parameters=params, costs=costs)
            p.logger.setLevel(self.logging.CRITICAL)
            self.spec_cache[key] = (p, self.DummyAlgorithm(p))
            self.pristine[id(p)] = copy.deepcopy(params)
            if len(self.spec_cache) > 400:                       # working directories are removed as we go
                self.drop_specs()
        return self.spec_cache[key]

    spec_serial = 1

    def drop_specs(self):
        for p, _ in list(self.spec_cache.values()):
            self.discard(p)
        self.spec_cache.clear()

    def discard(self, problem):
        super().discard(problem)
        for k in [k for k, v in self.spec_cache.items() if v[0] is problem]:
            del self.spec_cache[k]


class RollTap:
    """mixin for base.Session / base.ParSession: every gen_vector call made for a retry is recorded together with the
    draws of random() it consumed (artap.utils.random is wrapped while the session runs; per thread)"""

    def init_tap(self):
        self.rolls = []                      # {"draws": [...], "vector": [...], "own_parameters": bool}
        self.tls = threading.local()

    def tap_random(self):
        session, real, src = self, self.lab.real_random, self.cfg.get("draw_source")

        def random():
            d = getattr(session.tls, "draws", None)
            if d is None:
                return real()
            r = src() if src is not None else real()
            d.append(r)
            return r
        return random

    @contextlib.contextmanager
    def patched(self):
        u = self.lab.utils
        saved = u.random
        u.random = self.tap_random()
        try:
            with super().patched():
                yield
        finally:
            u.random = saved

    def sample(self, cls, design_parameters):
        real = self.lab.real_gen_vector.__func__
        self.tls.draws = []
        try:
            v = real(cls, design_parameters)
        finally:
            draws, self.tls.draws = self.tls.draws, None
        self.rolls.append({"draws": draws, "vector": list(v), "own_parameters": design_parameters is self.problem.parameters})
        return v

    def gen_vector_wrapper(self):
        session = self
        real = self.lab.real_gen_vector.__func__
        parallel = isinstance(self, base.ParSession)

        def gen_vector(cls, design_parameters):
            if parallel:
                if getattr(session.local, "session", None) is not session:
                    return real(cls, design_parameters)                 # a thread that is not working for this session
                v = session.sample(cls, design_parameters)
                with session.lock:
                    session.drolls.setdefault(getattr(session.local, "did", -1), []).append([float(x) for x in v])
                    session.tape.append([float(x) for x in v])
                return v
            if session.in_generate:                                      # a generator sampling its designs, not a retry
                return real(cls, design_parameters)
            v = session.sample(cls, design_parameters)
            session.tape.append([float(x) for x in v])
            session.tape_at.append(len(session.calls))
            return v
        return classmethod(gen_vector)


class Session06(Shaped, RollTap, base.Session):
    def __init__(self, lab, cfg, shaper=None):
        base.Session.__init__(self, lab, cfg)
        self.init_tap()
        self.init_shapes(shaper)

    def objective(self, individual):
        n = len(self.calls)
        code = self.schedule[n] if n < len(self.schedule) else "ok"
        if code == "ok" or self.shaper is None:
            return super().objective(individual)
        vec = [float(x) for x in individual.vector]
        if code in base.TRANSIENT:
            e, label = self.shaper.transient(code, "scripted transient failure at call %d" % n)
            out = "Transient"
        else:
            e, label = self.shaper.fatal(code, "scripted failure at call %d" % n, self.lab)
            out = "(Fatal %s)" % nl(base.FATAL[code][1])
        self.calls.append((individual, vec, code, e))
        self.outs.append(out)
        self.payloads.append(label)
        throw(e, label)

    def oracle_jobs(self, entry, ids, before, n0, f0, t0, exc):
        k0 = len(self.failures)
        super().oracle_jobs(entry, ids, before, n0, f0, t0, exc)
        # the bounds of a replacement are checked coordinate by coordinate, with the property's slack, by check_rolls
        self.failures[k0:] = [f for f in self.failures[k0:] if f[1] != "replacement design outside the bounds"]


class ParSession06(Shaped, RollTap, base.ParSession):
    def __init__(self, lab, cfg, patterns, processes=2, nest=None, shaper=None):
        base.ParSession.__init__(self, lab, cfg, patterns, processes=processes, nest=nest)
        self.init_tap()
        self.init_shapes(shaper)

    def objective(self, individual):
        """base.ParSession.objective with the exceptions built by the shaper"""
        if self.shaper is None:
            return super().objective(individual)
        label = None
        with self.lock:
            did = self.id_of(individual)
            att = len(self.dcalls.setdefault(did, []))
            pat = self.patterns.get(did, [])
            code = pat[att] if att < len(pat) else "ok"
            vec = [float(x) for x in individual.vector]
            exc = None
            text = "scripted failure of design %d attempt %d" % (did, att)
            if code in base.TRANSIENT:
                exc, label = self.shaper.transient(code, text)
            elif code in base.FATAL:
                exc, label = self.shaper.fatal(code, text, self.lab)
            if label is not None:
                self.payloads.append("design %d: %s" % (did, label))
            self.dcalls[did].append((vec, code, exc))
            self.calls.append((individual, vec, code, exc))
            self.local.did = did
            self.local.session = self
            inner = self.nest.pop(did, None) if att == 0 else None
        if inner is not None:
            try:
                self.alg.evaluator.job.evaluate(self.objs[inner])       # recorded by the wrapper of run_parallel
            except BaseException:                                          # noqa: the nested caller catches everything
                pass
            self.local.did = did
        if exc is not None:
            throw(exc, label)
        return self.represent(self.F(vec))


def check_rolls(ctx, s, acc, label):
    """direct oracle + one exact-rational model case per replacement design sampled during session `s`"""
    params = s.bounds                                     # the parameter descriptions as the user wrote them
    h = acc["hist"]
    inp = {"parameters": params, "entry": label}
    if s.problem.parameters != params and not acc.get("reported_modified"):
        acc["reported_modified"] = True
        ctx.mismatches.append({"what": "the problem's parameter descriptions were modified during evaluation", "case": dict(inp, now=s.problem.parameters)})
    for roll in s.rolls:
        v, draws = roll["vector"], roll["draws"]
        h["replacements"] += 1
        case = dict(inp, draws=draws, replacement=[x if isinstance(x, (int, float)) else repr(x) for x in v])

        def fail(what, **kw):
            if len(ctx.oracle_failures) < 40:
                ctx.oracle_failures.append({"what": what, "input": dict(case, **kw), "observed": case["replacement"],
                                            "required": "every coordinate within 1e-12 (or half of its own declared precision) of its own parameter's bounds",
                                            "match": {"kind": "replacement_out_of_bounds"}})
        if not roll["own_parameters"]:
            ctx.mismatches.append({"what": "the replacement was not sampled from problem.parameters", "case": case})
        if len(v) != len(params):
            fail("replacement design has %d coordinates for %d parameters" % (len(v), len(params)))
            continue
        ok = True
        for i, (x, p) in enumerate(zip(v, params)):
            why = outside_own_box(x, p)
            h["coordinates"] += 1
            if why is None:
                h["coordinates_checked"] += 1
            elif why.startswith("skipped"):
                h["coordinates_" + ("without_bounds" if "no bounds" in why else "integer_typed_noninteger_bounds")] += 1
            else:
                ok = False
                fail("replacement design outside the bounds: coordinate %d (%s) = %r is %s" % (i, p["name"], x, why), coordinate=i, parameter=p)
        if not ok:
            continue
        if len(draws) != len(params):
            acc["gcases"].append("{| r_params := %s; r_draws := %s; r_impl := %s; r_tol := %s |}" % (
                ll(params, enc_pdesc), ll(draws, ql), ll(v, ql), ll([0] * len(v), ql)))
            acc["gexpected"].append("0%nat")
            acc["gmeta"].append(case)
            continue
        tols = []
        for i, (x, p, r) in enumerate(zip(v, params, draws)):
            if "bounds" in p:
                lb, ub = Fraction(p["bounds"][0]), Fraction(p["bounds"][1])
            else:
                lb, ub = Fraction(p["initial_value"]) / 2, Fraction(p["initial_value"]) * 3 / 2
            prec = p.get("precision")
            pe = Fraction(prec) if prec else Fraction(TOL_DEFAULT)
            xq = Fraction(r) * (ub - lb) + lb
            yq = xq / pe
            u = Fraction(ulp_of(lb, ub, x))
            t = 4 * u
            err_y = 3 * u / pe + abs(yq) * Fraction(2) ** -51
            if abs(yq - math.floor(yq) - Fraction(1, 2)) <= err_y:
                t += pe
                h["near_tie_coordinates"] += 1
            if p.get("parameter_type") == "integer" and prec is None:
                h["truncated_coordinates"] += 1
                mq = round(yq) * pe                      # the model's number before int(): half-even, as Python's round
                if abs(mq - round(mq)) <= t:
                    t += 1
                    h["near_integer_before_truncation"] += 1
            h["declared_precision" if prec else "default_precision"] += 1
            tols.append(t)
        acc["gcases"].append("{| r_params := %s; r_draws := %s; r_impl := %s; r_tol := %s |}" % (
            ll(params, enc_pdesc), ll(draws, ql), ll(v, ql), ll(tols, ql)))
        acc["gexpected"].append("0%nat")
        acc["gmeta"].append(case)
        kinds = tuple(tuple(sorted((k, str(val)) for k, val in p.items() if k != "name")) for p in params)
        ctx.count(("reroll", kinds), nontrivial=len({tuple(k for k, _ in kd) for kd in kinds}) > 1)
        if len(params) > 1 and h["replacements"] % 97 == 5:
            ctx.sample({"parameters": params, "draws": draws, "replacement": case["replacement"]})


def mixed_serial(lab, rng, spec, pats, draw_source=None, crit=None, shaper=None):
    """serial_case on a Problem with the given parameter descriptions, designs starting inside their boxes"""
    sched = []
    for p in pats:
        sched += pattern_codes(rng, p)
        if raises(p):
            break
    cfg = base.rand_cfg(rng, dim=len(spec), pstyle=spec, extra=0, ncons=rng.choice([0, 0, 1]))
    if crit is not None:
        cfg["crit"] = list(crit)                 # same criteria = same cached Problem object
    cfg["schedule"] = sched
    cfg["draw_source"] = draw_source
    s = Session06(lab, cfg, shaper)
    ids = [s.mk(start_vector(rng, spec), {"vrep": "int"} if rng.random() < 0.3 else None) for _ in pats]
    s.evaluate(ids)
    if raises(pats[-1]) or rng.random() < 0.3:
        s.evaluate(ids)
    return s.freeze()


def interleaved06(lab, rng, ctx, out, hist, acc, nested=False, mixed=True, shaper=None):
    """base.interleaved_case for problems with mixed parameter descriptions: one Algorithm.evaluate on distinct new
    designs (plus designs that must be skipped) with max_processes = 2, or serial with nested evaluations started
    from inside the objective; compared design by design; the replacements are checked against their own bounds"""
    TRANSIENT, FATAL, vkey, same_vec = base.TRANSIENT, base.FATAL, base.vkey, base.same_vec
    n = rng.choice([2, 3, 4, 6])
    pats = [rng.choice(design_patterns()) if rng.random() < (0.25 if nested else 0.5) else ("ok", rng.choice([0, 1, 1, 2])) for _ in range(2 * n)]
    dim = rng.choice([2, 2, 3, 4])
    spec = rand_spec(rng, dim) if mixed else 0
    cfg = base.rand_cfg(rng, pstyle=spec, extra=0, **({"dim": dim} if mixed else {}))
    dim = cfg["dim"]
    vec = (lambda: start_vector(rng, spec)) if mixed else (lambda: base.rand_vec(rng, dim, pool))
    patterns, nest = {}, {}
    s = ParSession06(lab, cfg, patterns, processes=1 if nested else 2, nest=nest, shaper=shaper)
    ids = []
    pool = [base.rand_vec(rng, dim) for _ in range(2)]
    for p in pats[:n]:
        i = s.mk(vec(), {"precision": rng.choice([7, 7, 3, 10])} if rng.random() < 0.3 else None)
        patterns[i] = pattern_codes(rng, p)
        ids.append(i)
    inner = []
    if nested:
        for p, outer in zip(pats[n:], ids):
            if rng.random() < 0.7:
                i = s.mk(vec())
                patterns[i] = pattern_codes(rng, p)
                nest[outer] = i
                inner.append(i)
    skipped = []
    for st in rng.sample(["EVALUATED", "IN_PROGRESS", "FAILED"], rng.choice([0, 1, 2])):
        skipped.append(s.mk(vec(), base.junk_preset(rng, st, len(cfg["crit"]))))
    batch = ids + skipped
    rng.shuffle(batch)
    nest_plan = dict(nest)
    before, exc = s.run_parallel(batch)
    for i in inner:
        before[i] = (s.dcalls[i][0][0] if s.dcalls.get(i) else [], [], [], "EMPTY", False, 7)
    ids = ids + inner
    label = "nested" if nested else "parallel"
    hist[label + "_runs"] = hist.get(label + "_runs", 0) + 1
    inp = {"batch": batch, "patterns": {str(k): v for k, v in patterns.items()}, "processes": 1 if nested else 2,
           "nested_evaluations": {str(k): v for k, v in nest_plan.items()}, "parameters": s.bounds,
           "states_before": {str(i): before[i][3] for i in before}}

    if s.payloads:
        inp["exceptions_raised"] = s.payloads[:20]

    def fail(what, **kw):
        if len(ctx.oracle_failures) < 40:
            ctx.oracle_failures.append({"what": label + ": " + what, "input": dict(inp, **kw),
                                        "match": {"kind": "job_" + label, "clause": what[:50]}})
    # ---- direct oracle
    raised = {d: e for d, e in s.dresult.items() if e is not None and d not in inner}
    if raised and exc is None:
        fail("a job raised %s but Algorithm.evaluate returned normally" % ", ".join(type(e).__name__ for e in raised.values()))
    if exc is not None and not any(type(exc) is type(e) for e in raised.values()):
        fail("the caller saw %r, which no job raised" % (exc,))
    for i in skipped:
        if s.dcalls.get(i):
            fail("objective invoked for a design that is %s" % before[i][3], design=i)
    trans = sorted(vkey(c[0]) for cs in s.dcalls.values() for c in cs if c[1] in TRANSIENT)
    failed = sorted(vkey(s.snap(f)[0]) for f in s.problem.failed)
    if trans != failed:
        fail("problem.failed is not the multiset of the vectors of the failed attempts", failed=[s.snap(f)[0] for f in s.problem.failed])
    if any(f.state.name != "FAILED" for f in s.problem.failed):
        fail("a failed copy is not marked FAILED")
    for d, cs in s.dcalls.items():
        if d not in ids:
            continue
        ind = s.objs[d]
        hist[label + "_designs"] = hist.get(label + "_designs", 0) + 1
        codes = [c[1] for c in cs]
        res = s.dresult.get(d, "unfinished")
        if len(cs) > 5:
            fail("%d attempts for one design" % len(cs), design=d)
        if any(c not in TRANSIENT for c in codes[:-1]):
            fail("the job went on after an attempt that did not fail transiently", design=d, outcomes=codes)
        rolls = s.drolls.get(d, [])
        if len(rolls) != sum(1 for c in codes if c in TRANSIENT):
            fail("%d replacement designs for %d transient failures" % (len(rolls), sum(1 for c in codes if c in TRANSIENT)), design=d)
        for k in range(1, len(cs)):
            if k - 1 < len(rolls) and not same_vec(cs[k][0], rolls[k - 1]):
                fail("the retry was not made with the freshly sampled design", design=d)
        last = codes[-1]
        if last == "ok":
            if res is not None:
                fail("job raised %r although its last attempt succeeded" % (res,), design=d)
            elif ind.state.name != "EVALUATED":
                fail("design is %s after a successful attempt" % ind.state.name, design=d)
            else:
                s.check_pair(ind, "C06")
        elif last in FATAL:
            if res is not cs[-1][2]:
                fail("a non-transient %s did not propagate out of the job at once (job result %r)" % (type(cs[-1][2]).__name__, res), design=d)
            elif ind.state.name == "EVALUATED":
                fail("design marked evaluated although its evaluation raised", design=d)
        else:
            if len(cs) == 5 and type(res) is not RuntimeError:
                fail("five consecutive failures did not raise RuntimeError (job result %r)" % (res,), design=d)
            elif len(cs) < 5:
                fail("design given up after %d failed attempt(s)" % len(cs), design=d, job_result=repr(res))
    for g, what, detail in s.failures:
        if g == "C06":
            fail(what, **detail)
    check_rolls(ctx, s, acc, label)
    # ---- one model case per design that was started
    enc_vec, enc_snap, enc_result = base.enc_vec, base.enc_snap, base.enc_result
    table = ll(list(s.cons.values()), lambda p: pl(enc_vec(p[0]), enc_vec(p[1])))
    store_by = {}
    for o, snap in s.store:
        store_by.setdefault(s.id_of(o), []).append(snap)
    for d in ids:
        cs = s.dcalls.get(d)
        if not cs or d not in s.dresult:
            hist[label + "_not_started"] = hist.get(label + "_not_started", 0) + 1
            continue
        outs = []
        for v, code, e in cs:
            outs.append("Transient" if code in TRANSIENT else "(Fatal %s)" % nl(FATAL[code][1]) if code in FATAL
                        else "(Ok %s)" % enc_vec(s.represent(s.F(v))))
        case = "par_design_case %s %s %s %s %s %s" % (ll(s.signs, bl), enc_vec(before[d][0]), nl(before[d][5]), ll(outs), table,
                                                     ll(s.drolls.get(d, []), enc_vec))
        res = base.Session.classify(s.dresult[d])
        expected = pl(ll(["RUnit", "(RRes %s)" % enc_result(res)]),
                      ll([enc_snap(s.snap(s.objs[d]))]), "[]",
                      ll([enc_snap((c[0], [], [], "FAILED", False, 7)) for c in cs if c[1] in TRANSIENT]),
                      ll([pl(nl(0), enc_snap(x)) for x in store_by.get(d, [])]),
                      ll([pl(nl(0), enc_vec(c[0])) for c in cs]), "true")
        out.append((case, expected, {label: True, "design": d, "outcomes": [c[1] for c in cs], "parameters": s.bounds,
                                     "vectors": [c[0] for c in cs], "result": str(res), "final": s.snap(s.objs[d])}))
        ctx.count((label, "mixed", tuple(c[1] for c in cs), str(res), d in inner), nontrivial=nested or len(cs) > 1)
    if mixed or not nested:
        lab.discard(s.problem)


def run(ctx):
    lab = Lab06(ctx)
    rng = ctx.rng
    cases, expected, meta = [], [], []
    hist = base.new_hist()
    hist.update({"patterns": {}, "exception_payloads": {}})
    pats = design_patterns()
    shaped = lambda force=None: Shaper(rng, hist["exception_payloads"], force)
    acc = {"gcases": [], "gexpected": [], "gmeta": [],
           "hist": {"replacements": 0, "coordinates": 0, "coordinates_checked": 0, "coordinates_without_bounds": 0,
                    "coordinates_integer_typed_noninteger_bounds": 0, "near_tie_coordinates": 0, "truncated_coordinates": 0,
                    "near_integer_before_truncation": 0, "declared_precision": 0, "default_precision": 0,
                    "mixed_description_sessions": 0, "ordered_kind_pairs": 0, "scripted_extreme_draws": 0}}

    def add(s, key):
        base.collect(ctx, s, "C06", cases, expected, meta, hist)
        if isinstance(s, RollTap):
            check_rolls(ctx, s, acc, key[0])
        ctx.count(key, nontrivial=True)
        if len(s.calls) >= 5 and len(s.objs) <= 3:
            ctx.sample(s.meta())

    def note(ps):
        for p in ps:
            k = "%s_after_%d" % (p[0], p[1]) if len(p) > 1 else "five_in_a_row"
            hist["patterns"][k] = hist["patterns"].get(k, 0) + 1

    # integer costs (numpy's integer rounding path; a seed sweep met 250000000001000 with precision 7): c05's sessions, here also
    # under transient failures before the integer result
    made = []

    def faulty(cfg):
        made.append(1)
        return Session06(lab, dict(cfg, schedule=["T", "ok", "R", "N", "ok"][len(made) - 1:]), shaped())
    for j, s in enumerate(base.integer_cost_sessions(lab, faulty)):
        add(s, ("integer_costs", j))
    # every pattern of one design alone, and as first / middle / last design of a batch of three
    for p in pats:
        for rep in range(ctx.pick(2, 6)):
            note([p])
            add(serial_case(lab, rng, [p], shaper=shaped() if rep else None), ("single", p, rep))
        for pos in range(3):
            for rep in range(ctx.pick(1, 4)):
                others = [("ok", rng.choice([0, 0, 1, 4])) for _ in range(2)]
                ps = others[:pos] + [p] + others[pos:]
                note(ps)
                add(serial_case(lab, rng, ps, shaper=shaped()), ("triple", p, pos, rep, tuple(others)))
    # all pairs (quick: sampled), all triples (thorough) of patterns
    pairs = [(a, b) for a in pats for b in pats]
    if not ctx.thorough:
        pairs = rng.sample(pairs, 90)
    for a, b in pairs:
        note([a, b])
        add(serial_case(lab, rng, [a, b], shaper=shaped()), ("pair", a, b))
    # what the exception carries: every shape of payload with every transient class, all failures of the job of that shape: the job
    # recovers after 1..4 of them / ends on a non-transient exception after them / fails five times
    for shape in TRANSIENT_SHAPES:
        for k, code in enumerate(TR):
            ps = [[("ok", 1 + (k + j) % 4)] for j in range(ctx.pick(1, 4))]
            more = [[("ok", 0), ("five",)], [("fatal", 1 + k % 4), ("ok", 1)], [("ok", 2), ("ok", 0), ("ok", 3)]]
            ps += more if ctx.thorough else [more[(k + len(shape)) % 3]]
            for j, pp in enumerate(ps):
                note(pp)
                add(serial_case(lab, rng, pp, shaper=shaped(shape), transient=code), ("payload", shape, code, j, tuple(pp)))
    for shape in FATAL_SHAPES:
        for code in FA:
            pp = [("fatal", rng.choice([0, 0, 1, 3]))]
            note(pp)
            add(serial_case(lab, rng, pp, shaper=shaped(shape), fatal=code), ("payload_fatal", shape, code))
    if ctx.thorough:
        for a in pats:
            for b in pats:
                for c in pats:
                    if raises(a) and (b, c) != (pats[0], pats[0]):
                        continue                     # the batch stops at the first design: one representative is enough
                    note([a, b, c])
                    add(serial_case(lab, rng, [a, b, c], again=rng.random() < 0.5, shaper=shaped()), ("triple_all", a, b, c))
    # ---- mixed parameter descriptions: the replacement design against the bounds of its own parameters
    rerolling = [p for p in pats if p != ("ok", 0) and p != ("fatal", 0)]
    def extreme():
        acc["hist"]["scripted_extreme_draws"] += 1
        return rng.choice([0.0, ONE_BELOW, 0.5, 2.0 ** -53, 0.25, 0.75]) if rng.random() < 0.5 else rng.random()

    def mixed(spec, ps, key):
        truncating = any(dict(it).get("parameter_type") == "integer" and "precision" not in dict(it) for it in spec)
        src = extreme if (not truncating and rng.random() < 0.15) else None
        acc["hist"]["mixed_description_sessions"] += 1
        note(ps)
        s = mixed_serial(lab, rng, spec, ps, src, shaper=shaped() if rng.random() < 0.5 else None)
        add(s, key)
        if rng.random() < 0.3:                   # the same long-lived Problem / Algorithm / Job in a second history
            ps2 = [rng.choice(rerolling)]
            note(ps2)
            add(mixed_serial(lab, rng, spec, ps2, src, crit=s.cfg["crit"]), key + ("again",))
        lab.discard(s.problem)

    # every kind of description in first and in second position, next to a description that differs in what it declares
    # (thorough: every ordered pair of a kind that declares a precision / integer type and one that does not, and every kind twice)
    quiet = [k for k in KINDS if not declares(k)]
    loud = [k for k in KINDS if declares(k)]
    if ctx.thorough:
        kind_pairs = [(a, b) for a in KINDS for b in KINDS if declares(a) != declares(b) or a == b]
    else:
        kind_pairs = []
        for k in KINDS:
            other = rng.choice(quiet if declares(k) else loud)
            kind_pairs += [(k, other), (other, k)]
    for a, b in kind_pairs:
        spec = (make_param(rng, a), make_param(rng, b))
        if rng.random() < 0.25:                                  # a third parameter before, between or after
            third = make_param(rng, rng.choice(KINDS))
            j = rng.randrange(3)
            spec = spec[:j] + (third,) + spec[j:]
        acc["hist"]["ordered_kind_pairs"] += 1
        mixed(spec, [("ok", rng.choice([1, 1, 2, 4]))], ("mixed_pair", a, b))
    # random descriptions of 1..5 parameters under every job pattern that re-rolls
    for k in range(ctx.pick(120, 1500)):
        spec = rand_spec(rng, rng.choice([1, 2, 2, 3, 3, 4, 5]))
        ps = [rng.choice(rerolling)] if rng.random() < 0.6 else [("ok", rng.choice([0, 1, 2])), rng.choice(rerolling)]
        mixed(spec, ps, ("mixed", k))
    lab.drop_specs()
    # random histories (evaluate / scalar / sweep, presets, aliasing) under heavy fault rates
    for k in range(ctx.pick(600, 8000)):
        s, kinds = base.random_history(lab, rng, fault_rate=rng.choice([0.2, 0.35, 0.5, 0.7]), fatal_rate=rng.choice([0.0, 0.03, 0.1]))
        base.collect(ctx, s, "C06", cases, expected, meta, hist)
        ctx.count(("hist", tuple(c[2] for c in s.calls), tuple(s.id_of(c[0]) for c in s.calls), tuple(o.split()[0] for o in s.ops)),
                  nontrivial=any(c[2] != "ok" for c in s.calls))
    # 2-worker parallel runs: the exception has to surface through joblib
    par = []
    for k in range(ctx.pick(60, 600)):
        base.interleaved_case(lab, rng, ctx, par, hist, "C06")
    # the same long-lived Job object re-entered from inside the objective (nested evaluation of another design)
    for k in range(ctx.pick(60, 600)):
        base.interleaved_case(lab, rng, ctx, par, hist, "C06", nested=True)
    # both again on problems with mixed parameter descriptions (and with the replacement recorded draw by draw)
    for k in range(ctx.pick(40, 300)):
        interleaved06(lab, rng, ctx, par, hist, acc, nested=k % 3 == 2, mixed=k % 8 != 7, shaper=shaped() if k % 4 else None)
    lab.drop_specs()
    for c, e, m in par:
        cases.append(c)
        expected.append(e)
        meta.append(m)
    ctx.coq_compare("c06", HEADER, "job_case", "job_obs", "c06_run", "c06_obs_eqb", cases, expected, meta, shard=ctx.pick(80, 400))
    ctx.coq_compare("c06_reroll", GEN_HEADER, "reroll_case", "nat", "c06_reroll_run", "Nat.eqb", acc["gcases"], acc["gexpected"], acc["gmeta"],
                    shard=ctx.pick(200, 400))
    hist["replacement_designs"] = acc["hist"]
    for p, _ in list(lab.cache.values()):            # artap's atexit clean-up would meet directories that are already gone
        lab.discard(p)
    ctx.extra["near_boundary"] = acc["hist"]["near_tie_coordinates"] + acc["hist"]["near_integer_before_truncation"]
    ctx.rule = ("fault schedules over {ok, TimeoutError, RuntimeError, NotImplementedError, RecursionError | ValueError, ZeroDivisionError, "
                "KeyError, ArithmeticError, OSError, BaseException subclass}: each of the 11 job patterns (success / fatal after 0..4 "
                "transient failures, five in a row) alone and as first / middle / last design of a batch of three, pairs of patterns "
                "(quick: 90 of the 121 pairs sampled; thorough: all pairs and triples), each followed by a second evaluate of the same batch; every shape of exception payload (30: no / int / (errno, strerror) / "
                "bytes / None / container / exception arguments, format characters, subclasses with attributes, __cause__ / __context__, "
                "one object raised repeatedly ...) x every transient class under jobs that recover after 1..4 failures, fail five times or "
                "end on a fatal exception, and a random shape per attempt elsewhere; random histories with fault rate "
                "0.2..0.7 incl. scalar queries and sweeps; 2-worker parallel runs compared design by design; problems with MIXED parameter "
                "descriptions (each of the 90 kinds {int, float, negative, tiny, huge bounds, no bounds} x {no precision, 1, 0.5, 0.05, "
                "1e-3} x {no parameter_type, real, integer} in first and in second position next to a kind that differs in what it "
                "declares - thorough: all 1962 ordered pairs of a declaring and a non-declaring kind or of a kind with itself -, random descriptions of 1..5 parameters, serial / parallel / nested), every "
                "replacement design compared with the exact-rational model on its recorded draws; every case is non-trivial "
                "except fault-free random histories; distinct = distinct (kind, patterns / outcome sequence, design sequence)")
    ctx.extra.update({"distribution": hist})


LEVEL_TEXT = ("Machine-checked Coq theorems over the state-machine model of Job.evaluate / Evaluator.evaluate_serial shared with C05, for "
              "every fault schedule (outcome of each objective call may depend on the global call number, design, attempt and vector), "
              "every re-roll oracle, every batch and state: at most five attempts per job and per design in a batch, the complete job "
              "protocol (which calls are made with which vectors, what the design / failed list / sync log look like for each result), "
              "problem.failed growing by exactly the transiently failed vectors in order over every history, stored costs belonging to the "
              "stored vector after re-rolls, five consecutive failures raising with the design left EMPTY while four do not, any other "
              "exception leaving at once with the design IN_PROGRESS and nothing appended to failed by that attempt, and the batch being "
              "left at the raising design; the replacement design is gen_vector of the problem's parameter descriptions, each coordinate "
              "computed from the keys of its own description only (Model/Reroll.v) and therefore inside its own parameter's bounds up to "
              "half of its own step (exact rationals, composed from C08's gen_number theorem), as are every retried vector and the stored "
              "vector of a design evaluated after re-rolls. The model is tied to job.py / utils.py on every run by evaluating it in Coq on enumerated and random fault "
              "schedules (serial) and design by design on 2-worker parallel runs, comparing exception kind, call log, problem.failed, "
              "every design's (vector, costs, costs_signed, state) and the sync log bit for bit, and every replacement design sampled on "
              "problems with mixed parameter descriptions against the exact-rational gen_vector model on the recorded random() draws.")
LEVEL_NOTE = ("Trusted: Coq kernel + vm_compute; the hand-written model and the Python harness (incl. the mapping of exception classes to "
              "Transient / Fatal); objective, constraints and random() are oracles. Bounds of the replacement: proved in exact rationals "
              "(binary64 rounding of gen_number is covered by the 4-ulp term of the oracle / comparison tolerance, regime R3, not by a "
              "theorem), direct oracle per coordinate against its own parameter with C08's slack; integer-typed parameters with "
              "non-integer bounds and parameters without bounds are outside the clause (skipped and counted). Parallel runs are compared per design; thread interleavings are C07. "
              "Correspondence is enumerated for single designs (alone and at each position of a batch of three); pairs of job patterns are "
              "sampled in the quick tier (90 of 121) and enumerated, with triples, in the thorough tier; sampled beyond; the theorems are "
              "unbounded. The bounds theorems that go through the retry loop (C06_retried_vectors_in_bounds, C06_stored_vector_in_bounds) "
              "assume that the re-roll tape is gen_vector's model on draws in [0, 1) (rerolls_from), which the c06_reroll comparison samples.")
