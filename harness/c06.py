"""C06 - transient evaluation failures are retried (at most five attempts), logged in problem.failed and never
recorded as results; five consecutive failures raise RuntimeError, any other exception propagates at once.
Correspondence with Model/Job.v (drivers Run/C05Run.v / Run/C06Run.v) and direct oracle.

The scripted Problem, the `Session` that drives artap through Algorithm.evaluate / evaluate_scalar / SweepAlgorithm
and both direct oracles live in harness/c05.py (shared model, shared machinery); this module generates the fault
schedules: every pattern of one design (success / fatal after 0..4 transient failures, five in a row) at every
position of batches of up to three designs, random histories with high fault rates, and 2-worker parallel runs
(joblib threads) in which the exception has to surface through joblib.
"""
import threading
import time

from harness.core import nl, bl, ll, pl
from harness import c05 as base

PROP = "C06"
THEOREMS = {"Artap.Props.C06": [
    "C06_attempts_le_5", "C06_batch_attempts_le_5", "C06_job_protocol", "C06_failed_log_exact",
    "C06_stored_pair_after_reroll", "C06_stored_costs_belong_to_stored_vector", "C06_reroll_invariant",
    "C06_result_decided", "C06_five_failures_raise", "C06_four_failures_do_not_raise", "C06_fatal_propagates",
    "C06_raise_leaves_batch_at_once"]}
AXIOMS_OK = []
TRUSTED = [
    "Coq 8.16.1 kernel, vm_compute for model evaluation (no native_compute)",
    "hand-written model Model/Job.v (shared with C05) tied to job.py / operators.py by this correspondence run",
    "the objective (fault schedule), the constraint function and VectorAndNumbers.gen_vector are oracles: observed on the implementation "
    "and given to the model as tapes; the theorems hold for every schedule and oracle",
    "exception classes are mapped to the model's outcomes by the harness: TimeoutError, RuntimeError and subclasses of RuntimeError "
    "(NotImplementedError, RecursionError) are Transient, every other class (ValueError, ZeroDivisionError, KeyError, ArithmeticError, "
    "OSError, a BaseException subclass) is Fatal",
    "parallel runs are compared design by design (the calls of one job are its own attempts); joblib's dispatch, thread scheduling and "
    "the GIL are not modelled (C07)",
]
ASSUMPTIONS = [
    "the constraint function, data_store.sync_individual and gen_vector do not raise; the objective does not modify the individual",
    "that the replacement design lies inside the bounds is gen_vector's contract (C08); here it is checked by the direct oracle on the "
    "recorded replacements and enters the theorems as the hypothesis of C06_reroll_invariant",
    "'at most five attempts' is per Job.evaluate call: a design left EMPTY by five failures gets five new attempts if the caller catches "
    "the RuntimeError and evaluates it again",
]

HEADER = ("From Artap Require Import Run.C06Run.\nFrom Coq Require Import List ZArith Floats.\nImport ListNotations.\n"
          "Open Scope float_scope.\n")

TR = list(base.TRANSIENT)
FA = list(base.FATAL)


def design_patterns():
    """every way one job can go: ('ok', j) success after j transient failures, ('fatal', j), ('five',)"""
    return [("ok", j) for j in range(5)] + [("fatal", j) for j in range(5)] + [("five",)]


def pattern_codes(rng, pat):
    if pat[0] == "five":
        return [rng.choice(TR) for _ in range(5)]
    codes = [rng.choice(TR) for _ in range(pat[1])]
    codes.append("ok" if pat[0] == "ok" else rng.choice(FA))
    return codes


def raises(pat):
    return pat[0] != "ok"


def serial_case(lab, rng, pats, cfg_force=None, again=True):
    """a batch of len(pats) new designs evaluated serially under the concatenated schedule; then evaluated again
    (the caller caught the exception) with no further faults"""
    sched = []
    for p in pats:
        sched += pattern_codes(rng, p)
        if raises(p):
            break
    cfg = base.rand_cfg(rng, **(cfg_force or {}))
    cfg["schedule"] = sched
    s = base.Session(lab, cfg)
    pool = [base.rand_vec(rng, cfg["dim"]) for _ in range(2)]
    ids = [s.mk(base.rand_vec(rng, cfg["dim"], pool)) for _ in pats]
    s.evaluate(ids)
    if again:
        s.evaluate(ids)
        if rng.random() < 0.3:
            s.evaluate(list(reversed(ids)))
    return s.freeze()


class ParSession(base.Session):
    """2-worker parallel evaluation: outcomes are scripted per (design, attempt); everything is recorded per design"""

    def __init__(self, lab, cfg, patterns):
        super().__init__(lab, dict(cfg, processes=2))
        self.patterns = patterns           # design id -> list of codes by attempt
        self.dcalls = {}                   # design id -> [(vec, code, exc)]
        self.drolls = {}                   # design id -> [vec]
        self.dresult = {}                  # design id -> exception or None
        self.dstore = {}
        self.local = threading.local()
        self.active = 0

    def objective(self, individual):
        with self.lock:
            did = self.id_of(individual)
            att = len(self.dcalls.setdefault(did, []))
            pat = self.patterns.get(did, [])
            code = pat[att] if att < len(pat) else "ok"
            vec = [float(x) for x in individual.vector]
            exc = None
            if code in base.TRANSIENT:
                exc = base.TRANSIENT[code]("scripted transient failure of design %d attempt %d" % (did, att))
            elif code in base.FATAL:
                cls, kind = base.FATAL[code]
                exc = (cls or self.lab.BaseExc)("scripted failure of design %d attempt %d" % (did, att))
            self.dcalls[did].append((vec, code, exc))
            self.calls.append((individual, vec, code, exc))
            self.local.did = did
            self.local.session = self
        if exc is not None:
            raise exc
        return list(self.F(vec))

    def constraints(self, x, base_value):
        with self.lock:
            return super().constraints(x, base_value)

    def gen_vector_wrapper(self):
        session = self
        real = self.lab.real_gen_vector.__func__

        def gen_vector(cls, design_parameters):
            v = real(cls, design_parameters)
            if getattr(session.local, "session", None) is not session:
                return v                       # a thread that is not working for this session
            with session.lock:
                session.drolls.setdefault(getattr(session.local, "did", -1), []).append([float(x) for x in v])
                session.tape.append([float(x) for x in v])
            return v
        return classmethod(gen_vector)

    def run_parallel(self, ids):
        batch = [self.objs[i] for i in ids]
        before = {i: self.snap(self.objs[i]) for i in ids}
        job = self.alg.evaluator.job
        real_evaluate = job.evaluate

        def evaluate(individual):
            with self.lock:
                self.active += 1
            try:
                real_evaluate(individual)
                with self.lock:
                    self.dresult[self.id_of(individual)] = None
            except BaseException as e:
                with self.lock:
                    self.dresult[self.id_of(individual)] = e
                raise
            finally:
                with self.lock:
                    self.active -= 1
        job.evaluate = evaluate
        exc = None
        try:
            with self.patched():
                try:
                    self.alg.evaluate(batch)
                except BaseException as e:      # noqa: the caller's view of what propagates
                    exc = e
                # worker threads may still be inside a job when the exception reaches the caller: let them finish
                t0, quiet = time.time(), 0
                while quiet < 4 and time.time() - t0 < 5:
                    time.sleep(0.005)
                    quiet = quiet + 1 if self.active == 0 else 0
        finally:
            del job.evaluate
        return before, exc


def parallel_case(lab, rng, ctx, out, hist):
    """one Algorithm.evaluate with max_processes = 2 on distinct new designs (plus designs that must be skipped)"""
    n = rng.choice([2, 3, 4, 6])
    pats = [rng.choice(design_patterns()) if rng.random() < 0.5 else ("ok", rng.choice([0, 0, 1, 2])) for _ in range(n)]
    cfg = base.rand_cfg(rng, pstyle=0, extra=0)
    patterns = {}
    s = ParSession(lab, cfg, patterns)
    ids = []
    for p in pats:
        i = s.mk(base.rand_vec(rng, cfg["dim"]))
        patterns[i] = pattern_codes(rng, p)
        ids.append(i)
    skipped = []
    for st in rng.sample(["EVALUATED", "IN_PROGRESS", "FAILED"], rng.choice([0, 1, 2])):
        i = s.mk(base.rand_vec(rng, cfg["dim"]), base.junk_preset(rng, st, len(cfg["crit"])))
        skipped.append(i)
    batch = ids + skipped
    rng.shuffle(batch)
    before, exc = s.run_parallel(batch)
    hist["parallel_runs"] += 1
    inp = {"batch": batch, "patterns": {str(k): v for k, v in patterns.items()}, "processes": 2,
           "states_before": {str(i): before[i][3] for i in before}}

    def fail(what, **kw):
        if len(ctx.oracle_failures) < 40:
            ctx.oracle_failures.append({"what": "parallel: " + what, "input": dict(inp, **kw),
                                        "match": {"kind": "job_parallel", "clause": what[:50]}})
    # ---- direct oracle
    raised = {d: e for d, e in s.dresult.items() if e is not None}
    if raised and exc is None:
        fail("a job raised %s but Algorithm.evaluate returned normally" % ", ".join(type(e).__name__ for e in raised.values()))
    if exc is not None and not any(type(exc) is type(e) for e in raised.values()):
        fail("the caller saw %r, which no job raised" % (exc,))
    for i in skipped:
        if s.dcalls.get(i):
            fail("objective invoked for a design that is %s" % before[i][3], design=i)
    trans = sorted(base.vkey(c[0]) for cs in s.dcalls.values() for c in cs if c[1] in base.TRANSIENT)
    failed = sorted(base.vkey(s.snap(f)[0]) for f in s.problem.failed)
    if trans != failed:
        fail("problem.failed is not the multiset of the vectors of the failed attempts",
             failed=[s.snap(f)[0] for f in s.problem.failed])
    if any(f.state.name != "FAILED" for f in s.problem.failed):
        fail("a failed copy is not marked FAILED")
    for d, cs in s.dcalls.items():
        if d not in ids:
            continue
        ind = s.objs[d]
        hist["parallel_designs"] += 1
        codes = [c[1] for c in cs]
        res = s.dresult.get(d, "unfinished")
        if len(cs) > 5:
            fail("%d attempts for one design" % len(cs), design=d)
        if any(c not in base.TRANSIENT for c in codes[:-1]):
            fail("the job went on after an attempt that did not fail transiently", design=d, outcomes=codes)
        rolls = s.drolls.get(d, [])
        if len(rolls) != sum(1 for c in codes if c in base.TRANSIENT):
            fail("%d replacement designs for %d transient failures" % (len(rolls), sum(1 for c in codes if c in base.TRANSIENT)), design=d)
        for k in range(1, len(cs)):
            if k - 1 < len(rolls) and not base.same_vec(cs[k][0], rolls[k - 1]):
                fail("the retry was not made with the freshly sampled design", design=d)
        for v in rolls:
            if any(not (p["bounds"][0] <= x <= p["bounds"][1]) for x, p in zip(v, s.problem.parameters)):
                fail("replacement design outside the bounds", replacement=v)
        last = codes[-1]
        if last == "ok":
            if res is not None:
                fail("job raised %r although its last attempt succeeded" % (res,), design=d)
            elif ind.state.name != "EVALUATED":
                fail("design is %s after a successful attempt" % ind.state.name, design=d)
            else:
                s.check_pair(ind, "C06")
        elif last in base.FATAL:
            if res is not cs[-1][2]:
                fail("a non-transient %s did not propagate out of the job at once (job result %r)" % (type(cs[-1][2]).__name__, res), design=d)
            elif ind.state.name == "EVALUATED":
                fail("design marked evaluated although its evaluation raised", design=d)
        else:
            if len(cs) == 5 and type(res) is not RuntimeError:
                fail("five consecutive failures did not raise RuntimeError (job result %r)" % (res,), design=d)
            elif len(cs) < 5:
                fail("design given up after %d failed attempt(s)" % len(cs), design=d, job_result=repr(res))
    for g, what, detail in s.failures:
        if g == "C06":
            fail(what, **detail)
    # ---- one model case per design that was started
    table = ll(list(s.cons.values()), lambda p: pl(base.enc_vec(p[0]), base.enc_vec(p[1])))
    store_by = {}
    for o, snap in s.store:
        store_by.setdefault(s.id_of(o), []).append(snap)
    for d in ids:
        cs = s.dcalls.get(d)
        if not cs or d not in s.dresult:
            hist["parallel_not_started"] += 1
            continue
        outs = []
        for vec, code, e in cs:
            outs.append("Transient" if code in base.TRANSIENT else "(Fatal %s)" % nl(base.FATAL[code][1]) if code in base.FATAL
                        else "(Ok %s)" % base.enc_vec(s.F(vec)))
        case = "par_design_case %s %s %s %s %s" % (ll(s.signs, bl), base.enc_vec(before[d][0]), ll(outs), table,
                                                  ll(s.drolls.get(d, []), base.enc_vec))
        res = base.Session.classify(s.dresult[d])
        expected = pl(ll(["RUnit", "(RRes %s)" % base.enc_result(res)]),
                      ll([base.enc_snap(s.snap(s.objs[d]))]), "[]",
                      ll([base.enc_snap((c[0], [], [], "FAILED", False)) for c in cs if c[1] in base.TRANSIENT]),
                      ll([pl(nl(0), base.enc_snap(x)) for x in store_by.get(d, [])]),
                      ll([pl(nl(0), base.enc_vec(c[0])) for c in cs]), "true")
        out.append((case, expected, {"parallel": True, "design": d, "outcomes": [c[1] for c in cs],
                                     "vectors": [c[0] for c in cs], "result": str(res), "final": s.snap(s.objs[d])}))
        ctx.count(("par", tuple(c[1] for c in cs), str(res)), nontrivial=len(cs) > 1)


def run(ctx):
    lab = base.Lab(ctx)
    rng = ctx.rng
    cases, expected, meta = [], [], []
    hist = base.new_hist()
    hist.update({"parallel_runs": 0, "parallel_designs": 0, "parallel_not_started": 0, "patterns": {}})
    pats = design_patterns()

    def add(s, key):
        base.collect(ctx, s, "C06", cases, expected, meta, hist)
        ctx.count(key, nontrivial=True)
        if len(s.calls) >= 5 and len(s.objs) <= 3:
            ctx.sample(s.meta())

    def note(ps):
        for p in ps:
            k = "%s_after_%d" % (p[0], p[1]) if len(p) > 1 else "five_in_a_row"
            hist["patterns"][k] = hist["patterns"].get(k, 0) + 1

    # every pattern of one design alone, and as first / middle / last design of a batch of three
    for p in pats:
        for rep in range(ctx.pick(2, 6)):
            note([p])
            add(serial_case(lab, rng, [p]), ("single", p, rep))
        for pos in range(3):
            for rep in range(ctx.pick(1, 4)):
                others = [("ok", rng.choice([0, 0, 1, 4])) for _ in range(2)]
                ps = others[:pos] + [p] + others[pos:]
                note(ps)
                add(serial_case(lab, rng, ps), ("triple", p, pos, rep, tuple(others)))
    # all pairs (quick: sampled), all triples (thorough) of patterns
    pairs = [(a, b) for a in pats for b in pats]
    if not ctx.thorough:
        pairs = rng.sample(pairs, 90)
    for a, b in pairs:
        note([a, b])
        add(serial_case(lab, rng, [a, b]), ("pair", a, b))
    if ctx.thorough:
        for a in pats:
            for b in pats:
                for c in pats:
                    if raises(a) and (b, c) != (pats[0], pats[0]):
                        continue                     # the batch stops at the first design: one representative is enough
                    note([a, b, c])
                    add(serial_case(lab, rng, [a, b, c], again=rng.random() < 0.5), ("triple_all", a, b, c))
    # random histories (evaluate / scalar / sweep, presets, aliasing) under heavy fault rates
    for k in range(ctx.pick(600, 8000)):
        s, kinds = base.random_history(lab, rng, fault_rate=rng.choice([0.2, 0.35, 0.5, 0.7]), fatal_rate=rng.choice([0.0, 0.03, 0.1]))
        base.collect(ctx, s, "C06", cases, expected, meta, hist)
        ctx.count(("hist", tuple(c[2] for c in s.calls), tuple(s.id_of(c[0]) for c in s.calls), tuple(o.split()[0] for o in s.ops)),
                  nontrivial=any(c[2] != "ok" for c in s.calls))
    # 2-worker parallel runs: the exception has to surface through joblib
    par = []
    for k in range(ctx.pick(60, 600)):
        parallel_case(lab, rng, ctx, par, hist)
    for c, e, m in par:
        cases.append(c)
        expected.append(e)
        meta.append(m)
    ctx.coq_compare("c06", HEADER, "job_case", "job_obs", "c06_run", "c06_obs_eqb", cases, expected, meta, shard=ctx.pick(80, 400))
    ctx.rule = ("fault schedules over {ok, TimeoutError, RuntimeError, NotImplementedError, RecursionError | ValueError, ZeroDivisionError, "
                "KeyError, ArithmeticError, OSError, BaseException subclass}: each of the 11 job patterns (success / fatal after 0..4 "
                "transient failures, five in a row) alone and as first / middle / last design of a batch of three, pairs of patterns "
                "(thorough: all pairs and triples), each followed by a second evaluate of the same batch; random histories with fault rate "
                "0.2..0.7 incl. scalar queries and sweeps; 2-worker parallel runs compared design by design; every case is non-trivial "
                "except fault-free random histories; distinct = distinct (kind, patterns / outcome sequence, design sequence)")
    ctx.extra.update({"distribution": hist})


LEVEL_TEXT = ("Machine-checked Coq theorems over the state-machine model of Job.evaluate / Evaluator.evaluate_serial shared with C05, for "
              "every fault schedule (outcome of each objective call may depend on the global call number, design, attempt and vector), "
              "every re-roll oracle, every batch and state: at most five attempts per job and per design in a batch, the complete job "
              "protocol (which calls are made with which vectors, what the design / failed list / sync log look like for each result), "
              "problem.failed growing by exactly the transiently failed vectors in order over every history, stored costs belonging to the "
              "stored vector after re-rolls, five consecutive failures raising with the design left EMPTY while four do not, any other "
              "exception leaving at once with the design IN_PROGRESS and nothing appended to failed by that attempt, and the batch being "
              "left at the raising design. The model is tied to job.py on every run by evaluating it in Coq on enumerated and random fault "
              "schedules (serial) and design by design on 2-worker parallel runs, comparing exception kind, call log, problem.failed, "
              "every design's (vector, costs, costs_signed, state) and the sync log bit for bit.")
LEVEL_NOTE = ("Trusted: Coq kernel + vm_compute; the hand-written model and the Python harness (incl. the mapping of exception classes to "
              "Transient / Fatal); objective, constraints and gen_vector are oracles (bounds of the replacement: direct oracle + hypothesis "
              "of C06_reroll_invariant, gen_vector itself is C08). Parallel runs are compared per design; thread interleavings are C07. "
              "Correspondence is enumerated for single designs / pairs (thorough: triples) and sampled beyond, the theorems are unbounded.")
