"""C06 - transient evaluation failures are retried (at most five attempts), logged in problem.failed and never
recorded as results; five consecutive failures raise RuntimeError, any other exception propagates at once.
Correspondence with Model/Job.v (drivers Run/C05Run.v / Run/C06Run.v) and direct oracle.

The scripted Problem, the `Session` that drives artap through Algorithm.evaluate / evaluate_scalar / SweepAlgorithm
and both direct oracles live in harness/c05.py (shared model, shared machinery); this module generates the fault
schedules: every pattern of one design (success / fatal after 0..4 transient failures, five in a row) at every
position of batches of up to three designs, random histories with high fault rates, and 2-worker parallel runs
(joblib threads) in which the exception has to surface through joblib.
"""
import threading
import time

from harness.core import nl, bl, ll, pl
from harness import c05 as base

PROP = "C06"
THEOREMS = {"Artap.Props.C06": [
    "C06_attempts_le_5", "C06_batch_attempts_le_5", "C06_job_protocol", "C06_failed_log_exact",
    "C06_stored_pair_after_reroll", "C06_stored_costs_belong_to_stored_vector", "C06_reroll_invariant",
    "C06_result_decided", "C06_five_failures_raise", "C06_four_failures_do_not_raise", "C06_fatal_propagates",
    "C06_raise_leaves_batch_at_once"]}
AXIOMS_OK = []
TRUSTED = [
    "Coq 8.16.1 kernel, vm_compute for model evaluation (no native_compute)",
    "hand-written model Model/Job.v (shared with C05) tied to job.py / operators.py by this correspondence run",
    "the objective (fault schedule), the constraint function and VectorAndNumbers.gen_vector are oracles: observed on the implementation "
    "and given to the model as tapes; the theorems hold for every schedule and oracle",
    "exception classes are mapped to the model's outcomes by the harness: TimeoutError, RuntimeError and subclasses of RuntimeError "
    "(NotImplementedError, RecursionError) are Transient, every other class (ValueError, ZeroDivisionError, KeyError, ArithmeticError, "
    "OSError, a BaseException subclass) is Fatal",
    "parallel runs are compared design by design (the calls of one job are its own attempts); joblib's dispatch, thread scheduling and "
    "the GIL are not modelled (C07)",
]
ASSUMPTIONS = [
    "the constraint function, data_store.sync_individual and gen_vector do not raise; the objective does not modify the individual",
    "that the replacement design lies inside the bounds is gen_vector's contract (C08); here it is checked by the direct oracle on the "
    "recorded replacements and enters the theorems as the hypothesis of C06_reroll_invariant",
    "'at most five attempts' is per Job.evaluate call: a design left EMPTY by five failures gets five new attempts if the caller catches "
    "the RuntimeError and evaluates it again",
]

HEADER = ("From Artap Require Import Run.C06Run.\nFrom Coq Require Import List ZArith Floats.\nImport ListNotations.\n"
          "Open Scope float_scope.\n")

TR = list(base.TRANSIENT)
FA = list(base.FATAL)


design_patterns = base.design_patterns
pattern_codes = base.pattern_codes


def raises(pat):
    return pat[0] != "ok"


def serial_case(lab, rng, pats, cfg_force=None, again=True):
    """a batch of len(pats) new designs evaluated serially under the concatenated schedule; then evaluated again
    (the caller caught the exception) with no further faults"""
    sched = []
    for p in pats:
        sched += pattern_codes(rng, p)
        if raises(p):
            break
    cfg = base.rand_cfg(rng, **(cfg_force or {}))
    cfg["schedule"] = sched
    s = base.Session(lab, cfg)
    pool = [base.rand_vec(rng, cfg["dim"]) for _ in range(2)]
    ids = [s.mk(base.rand_vec(rng, cfg["dim"], pool)) for _ in pats]
    s.evaluate(ids)
    if again:
        s.evaluate(ids)
        if rng.random() < 0.3:
            s.evaluate(list(reversed(ids)))
    return s.freeze()


def run(ctx):
    lab = base.Lab(ctx)
    rng = ctx.rng
    cases, expected, meta = [], [], []
    hist = base.new_hist()
    hist.update({"patterns": {}})
    pats = design_patterns()

    def add(s, key):
        base.collect(ctx, s, "C06", cases, expected, meta, hist)
        ctx.count(key, nontrivial=True)
        if len(s.calls) >= 5 and len(s.objs) <= 3:
            ctx.sample(s.meta())

    def note(ps):
        for p in ps:
            k = "%s_after_%d" % (p[0], p[1]) if len(p) > 1 else "five_in_a_row"
            hist["patterns"][k] = hist["patterns"].get(k, 0) + 1

    # every pattern of one design alone, and as first / middle / last design of a batch of three
    for p in pats:
        for rep in range(ctx.pick(2, 6)):
            note([p])
            add(serial_case(lab, rng, [p]), ("single", p, rep))
        for pos in range(3):
            for rep in range(ctx.pick(1, 4)):
                others = [("ok", rng.choice([0, 0, 1, 4])) for _ in range(2)]
                ps = others[:pos] + [p] + others[pos:]
                note(ps)
                add(serial_case(lab, rng, ps), ("triple", p, pos, rep, tuple(others)))
    # all pairs (quick: sampled), all triples (thorough) of patterns
    pairs = [(a, b) for a in pats for b in pats]
    if not ctx.thorough:
        pairs = rng.sample(pairs, 90)
    for a, b in pairs:
        note([a, b])
        add(serial_case(lab, rng, [a, b]), ("pair", a, b))
    if ctx.thorough:
        for a in pats:
            for b in pats:
                for c in pats:
                    if raises(a) and (b, c) != (pats[0], pats[0]):
                        continue                     # the batch stops at the first design: one representative is enough
                    note([a, b, c])
                    add(serial_case(lab, rng, [a, b, c], again=rng.random() < 0.5), ("triple_all", a, b, c))
    # random histories (evaluate / scalar / sweep, presets, aliasing) under heavy fault rates
    for k in range(ctx.pick(600, 8000)):
        s, kinds = base.random_history(lab, rng, fault_rate=rng.choice([0.2, 0.35, 0.5, 0.7]), fatal_rate=rng.choice([0.0, 0.03, 0.1]))
        base.collect(ctx, s, "C06", cases, expected, meta, hist)
        ctx.count(("hist", tuple(c[2] for c in s.calls), tuple(s.id_of(c[0]) for c in s.calls), tuple(o.split()[0] for o in s.ops)),
                  nontrivial=any(c[2] != "ok" for c in s.calls))
    # 2-worker parallel runs: the exception has to surface through joblib
    par = []
    for k in range(ctx.pick(60, 600)):
        base.interleaved_case(lab, rng, ctx, par, hist, "C06")
    # the same long-lived Job object re-entered from inside the objective (nested evaluation of another design)
    for k in range(ctx.pick(60, 600)):
        base.interleaved_case(lab, rng, ctx, par, hist, "C06", nested=True)
    for c, e, m in par:
        cases.append(c)
        expected.append(e)
        meta.append(m)
    ctx.coq_compare("c06", HEADER, "job_case", "job_obs", "c06_run", "c06_obs_eqb", cases, expected, meta, shard=ctx.pick(80, 400))
    ctx.rule = ("fault schedules over {ok, TimeoutError, RuntimeError, NotImplementedError, RecursionError | ValueError, ZeroDivisionError, "
                "KeyError, ArithmeticError, OSError, BaseException subclass}: each of the 11 job patterns (success / fatal after 0..4 "
                "transient failures, five in a row) alone and as first / middle / last design of a batch of three, pairs of patterns "
                "(thorough: all pairs and triples), each followed by a second evaluate of the same batch; random histories with fault rate "
                "0.2..0.7 incl. scalar queries and sweeps; 2-worker parallel runs compared design by design; every case is non-trivial "
                "except fault-free random histories; distinct = distinct (kind, patterns / outcome sequence, design sequence)")
    ctx.extra.update({"distribution": hist})


LEVEL_TEXT = ("Machine-checked Coq theorems over the state-machine model of Job.evaluate / Evaluator.evaluate_serial shared with C05, for "
              "every fault schedule (outcome of each objective call may depend on the global call number, design, attempt and vector), "
              "every re-roll oracle, every batch and state: at most five attempts per job and per design in a batch, the complete job "
              "protocol (which calls are made with which vectors, what the design / failed list / sync log look like for each result), "
              "problem.failed growing by exactly the transiently failed vectors in order over every history, stored costs belonging to the "
              "stored vector after re-rolls, five consecutive failures raising with the design left EMPTY while four do not, any other "
              "exception leaving at once with the design IN_PROGRESS and nothing appended to failed by that attempt, and the batch being "
              "left at the raising design. The model is tied to job.py on every run by evaluating it in Coq on enumerated and random fault "
              "schedules (serial) and design by design on 2-worker parallel runs, comparing exception kind, call log, problem.failed, "
              "every design's (vector, costs, costs_signed, state) and the sync log bit for bit.")
LEVEL_NOTE = ("Trusted: Coq kernel + vm_compute; the hand-written model and the Python harness (incl. the mapping of exception classes to "
              "Transient / Fatal); objective, constraints and gen_vector are oracles (bounds of the replacement: direct oracle + hypothesis "
              "of C06_reroll_invariant, gen_vector itself is C08). Parallel runs are compared per design; thread interleavings are C07. "
              "Correspondence is enumerated for single designs / pairs (thorough: triples) and sampled beyond, the theorems are unbounded.")
