"""C09 - generation bookkeeping, budget, elitism: correspondence with Model/Runs.v and direct oracle.

Real runs of NSGAII, EpsMOEA, OMOPSO, SMPSO on small scripted problems (1..3 objectives, with and
without transient objective failures).  Observed harness-side only: the objective call log, the
batches handed to the evaluator, the children produced inside GeneticAlgorithm.generate (return
values of mutator.mutate), the pool / result of nondominated_truncate, the populations and
random.choice results of Selector.pop_acceptance.  These tapes are the inputs of the model; the
model's Problem.populations(), call log, call counts and working-population sizes are compared
with the implementation's inside Coq, bit for bit.
"""
import atexit
import contextlib
import io
import shutil
import itertools
import math

from harness.core import fl, zl, nl, bl, ll, pl, optl, translated_specs

PROP = "C09"
# second tie (notes/TRANSLATOR.md): Selector.pop_acceptance is translated from the current source on every run
# and proved equal to Model/Runs.v pop_acceptance (GenProofs/PopAcceptanceEquiv.v)
TRANSLATED = translated_specs("PopAcceptanceGen", "IndividualInitGen", "NsgaRunGen", "GenerateGen", "EpsRunGen")   # + what a new Individual starts with (feasible falsy) = Model/Job.v fresh
THEOREMS = {"Artap.Props.C09": [
    "C09_generate_exact", "C09_nsga2_bookkeeping", "C09_pso_epsmoea_bookkeeping", "C09_nsga2_elitism",
    "C09_single_objective_best_monotone", "C09_pop_acceptance_size", "C09_pop_acceptance_cases",
    "C09_pop_acceptance_total", "C09_epsmoea_population_size", "C09_no_failures_fresh"],
    # the NSGA-II theorems with the C02 sorter (Fnds.fnds) and the C03 truncation (Selection.truncate) plugged in
    "Artap.Proofs.RunsCompose": ["front_rank_c", "select_len_c", "select_nodup_c", "select_incl_c", "select_elitist_c",
                                 "nsga2_bookkeeping_composed", "nsga2_elitism_composed"]}
AXIOMS_OK = []
TRUSTED = [
    "Coq 8.16.1 kernel, vm_compute for model evaluation (no native_compute)",
    "hand-written model Model/Runs.v tied to algorithm_genetic.py / algorithm_NSGAII.py / algorithm_swarm.py / operators.py "
    "(pop_acceptance) / problem.py (populations) by this correspondence run",
    "variation operators (tournament, SBX, polynomial mutation, velocity/position/turbulence) are a tape of candidate vectors; "
    "the objective is a tape of (first vector, replacement vectors, signed costs) per evaluated design; random.choice is an oracle; "
    "the theorems hold for every such tape",
    "the sorter + truncation is a function `select` specified by hypotheses (H_select_len, H_select_nodup, H_select_incl, "
    "H_select_elitist, H_front_rank) in Props/C09.v; Proofs/RunsCompose.v discharges all five for the concrete selector built "
    "from Model/Fnds.v and Model/Selection.v (FndsProofs.fnds_rank, SelectionProofs.truncate_spec / truncate_total), for every "
    "crowding-distance function and every iteration order of the set; in the correspondence `select` is the recorded result of "
    "the real nondominated_truncate, and the harness re-applies the real selector to (offspring + parents) for every transition",
    "PrimFloat primitives appear only in the driver (Run/C09Run.v), not under the 17 property theorems (all closed under the global "
    "context); the translated individual_init_gen_eq_model (binary64 instance of Model/Job.v fresh) prints PrimFloat.float, "
    "whitelisted by `axioms_ok` of GenProofs/specs/IndividualInitGen.json",
]
ASSUMPTIONS = [
    "N >= 2, G >= 1; serial evaluation (max_processes = 1); the initial generator returns N vectors",
    "no design fails 5 times in a row (Job.evaluate would raise) and generate's while loop terminates (finite candidate stream)",
    "H_fresh: after transient failures the evaluated offspring of a generation are still pairwise different designs "
    "(the replacement vector drawn by gen_vector does not repeat another offspring: a probability-one event for continuous parameters, not on a coarse `precision` grid); "
    "automatic without failures",
    "H_same_veq: two designs merged by set() are == (same hash and Individual.__eq__, symmetric for equal-length vectors, C20); "
    "RunsCompose additionally: the key equality is symmetric (H_same_sym), the observed set order is a permutation of the "
    "representatives (H_order, the oracle validity condition of C03), all cost vectors have the same number of objectives",
    "H_same_cost (elitism for merged duplicates and best-cost monotonicity): designs merged by set() carry equal signed costs "
    "(deterministic objective)",
]

HEADER = ("From Artap Require Import Run.C09Run.\nFrom Coq Require Import List ZArith Floats.\nImport ListNotations.\n"
          "Open Scope float_scope.\n")

NS = [2, 3, 4, 7]
GS = [1, 2, 3, 5]
STREAM_LIMIT = 3000


class Runaway(Exception):
    pass


# ----------------------------------------------------------------------------------------------
# encoders
# ----------------------------------------------------------------------------------------------
def enc_vec(v):
    return ll([float(x) for x in v], fl)


def enc_cost(cs):
    """costs_signed = signed objectives + [not feasible]"""
    return pl(ll([float(x) for x in cs[:-1]], fl), zl(int(cs[-1])))


def enc_entry(e):
    return "(mk_ev %s %s %s)" % (enc_vec(e["vec"]), ll(e["repl"], enc_vec), enc_cost(e["cost"]))


def enc_ind(i, vec, cost):
    return "(mk_rind %s %s %s)" % (nl(i), enc_vec(vec), enc_cost(cost))


def enc_obs(ok, pops, log, succ, fail, sizes, ids):
    return "(mk_obs %s %s %s %s %s %s %s)" % (
        bl(ok), ll(pops, lambda tp: pl(nl(tp[0]), ll(tp[1], enc_vec))),
        ll(log, lambda c: pl(enc_vec(c[0]), bl(c[1]))), nl(succ), nl(fail), ll(sizes, nl), ll(ids, nl))


def dominates(p, q):
    """Textbook constrained dominance on signed cost vectors (last entry = infeasibility marker)."""
    pm, qm = abs(int(p[-1])), abs(int(q[-1]))
    if pm != qm:
        return pm < qm
    a, b = p[:-1], q[:-1]
    return all(x <= y for x, y in zip(a, b)) and any(x < y for x, y in zip(a, b))


# ----------------------------------------------------------------------------------------------
def run(ctx):
    import logging
    import random as pyrandom
    import numpy as np
    import artap.operators as ops
    import artap.algorithm_NSGAII as mod_nsga
    from artap.problem import Problem
    from artap.algorithm_NSGAII import NSGAII, IndividualNSGAII
    from artap.algorithm_genetic import EpsMOEA
    from artap.algorithm_swarm import OMOPSO, SMPSO

    logging.disable(logging.CRITICAL)
    rng = ctx.rng

    # ---------------- scripted problem ----------------
    class P(Problem):
        def set(self, **kwargs):
            cfg = kwargs["cfg"]
            self.name = "c09"
            self.cfg = cfg
            self.parameters = [dict(name="x%d" % i, bounds=list(b), **({"precision": cfg["precision"]} if cfg["precision"] else {}))
                               for i, b in enumerate(cfg["bounds"])]
            self.costs = [dict(name="f%d" % k, criteria=("maximize" if k in cfg["maximize"] else "minimize"))
                          for k in range(cfg["nobj"])]
            self.calls = []          # (vector, ok, identity of the individual)
            self.fail_at = set(cfg["fail_at"])

        def evaluate(self, individual):
            x = [float(v) for v in individual.vector]
            k = len(self.calls)
            if k in self.fail_at:
                self.calls.append((x, False, id(individual)))
                raise (TimeoutError if k % 2 == 0 else RuntimeError)("scripted transient failure at call %d" % k)
            self.calls.append((x, True, id(individual)))
            return objective(self.cfg, x)

        def evaluate_inequality_constraints(self, x):
            # red-team round 6: the constrained streams; [] (as the base class) for the unconstrained ones
            g = gvals(self.cfg, x)
            shape = self.cfg["constraint_shape"]
            return g if shape == "list" or not g else (tuple(g) if shape == "tuple" else np.array(g))

    def gvals(cfg, x):
        """Inequality constraints g(x) of a scripted problem (the design is feasible iff every g(x) < 0)."""
        x = [float(v) for v in x]
        out = []
        for c in cfg["constraints"]:
            if c[0] == "upper":                     # x[j] < c
                out.append(x[c[1] % len(x)] - c[2])
            elif c[0] == "lower":                   # x[j] > c
                out.append(c[2] - x[c[1] % len(x)])
            elif c[0] == "sum":                     # sum(x) < c
                out.append(sum(x) - c[1])
            elif c[0] == "ball":                    # inside the ball of squared radius c
                out.append(sum(v * v for v in x) - c[1])
            else:                                   # "outside": outside that ball (the optimum of most objectives is infeasible)
                out.append(c[1] - sum(v * v for v in x))
        return out

    def true_marker(cfg, vec):
        """Infeasibility marker of a recorded design recomputed from the problem's own constraints on the recorded vector."""
        return not all(v < 0.0 for v in gvals(cfg, vec))

    def objective(cfg, x):
        out = []
        for k in range(cfg["nobj"]):
            if cfg["family"] == "smooth":
                y = sum((v - 0.5 * k) ** 2 for v in x) + 0.25 * k * x[0]
            elif cfg["family"] == "coarse":          # many ties between designs
                y = float(round(sum(abs(v - k) for v in x)))
            else:                                   # "mixed": conflicting objectives
                y = (x[0] - k) ** 2 + (sum(x[1:]) if k % 2 == 0 else -sum(x[1:]))
            # objective magnitude (red-team round 5): offset + factor * y, per objective; (0, 1) = the plain family
            off, mul = cfg["scale"][k]
            out.append(off + mul * y)
        return out

    def resigned(cfg, ind, marker=None):
        """Signed costs of a recorded design recomputed by the harness from its recorded raw costs: sign * (cost rounded to
        7 decimals), sign = -1 for a maximised objective; the infeasibility marker is the recorded one (the scripted problems
        are unconstrained) unless `marker` is given.  None if the design carries no complete cost list."""
        raw = list(ind.costs)
        if len(raw) != cfg["nobj"] or len(ind.costs_signed) != cfg["nobj"] + 1:
            return None
        return [(-1 if k in cfg["maximize"] else 1) * float(np.round(float(raw[k]), decimals=7)) for k in range(cfg["nobj"])] + \
               [bool(ind.costs_signed[-1]) if marker is None else marker]

    # ---------------- recording ----------------
    class Rec:
        def __init__(self):
            self.batches = []      # dict(objs, vecs_in, call_from, call_to)
            self.streams = []      # per generate call: list of mutate results
            self.truncs = []       # (pool objects, result objects)
            self.acc = []          # pop_acceptance steps
            self.in_acc = None
            self.choice = None

    rec_box = [None]

    class RandomShim:
        """Stands in for the `random` module inside artap.operators; records choice() inside pop_acceptance."""
        def __getattr__(self, name):
            return getattr(pyrandom, name)

        def choice(self, seq):
            r = pyrandom.choice(seq)
            rec = rec_box[0]
            if rec is not None and rec.in_acc is not None:
                if seq is rec.in_acc:
                    rec.choice = next(i for i, o in enumerate(seq) if o is r)
                else:
                    rec.choice = int(r)
            return r

    orig_acc = ops.Selector.pop_acceptance
    orig_trunc = mod_nsga.nondominated_truncate

    def acc_wrapper(self, individuals, individual):
        rec = rec_box[0]
        before = list(individuals)
        rec.in_acc, rec.choice = individuals, None
        try:
            return orig_acc(self, individuals, individual)
        finally:
            rec.in_acc = None
            rec.acc.append(dict(before=before, x=individual, after=list(individuals), choice=rec.choice))

    def trunc_wrapper(population, size):
        pool = list(population)
        res = orig_trunc(population, size)
        rec_box[0].truncs.append((pool, list(res), size))
        return res

    def recording(Base):
        class R(Base):
            def generate(self, parents, archive=None):
                rec = rec_box[0]
                stream = []
                inner = self.mutator.mutate

                def mutate(*a, **k):
                    r = inner(*a, **k)
                    stream.append([float(v) for v in r])
                    if len(stream) > STREAM_LIMIT:
                        raise Runaway()
                    return r
                self.mutator.mutate = mutate
                try:
                    offs = super().generate(parents, archive)
                finally:
                    del self.mutator.mutate
                rec.streams.append(stream)
                return offs
        R.__name__ = Base.__name__
        return R

    CLASSES = {"NSGAII": recording(NSGAII), "EpsMOEA": recording(EpsMOEA), "OMOPSO": OMOPSO, "SMPSO": SMPSO}

    def real_run(cfg):
        """One run of artap; returns everything observed."""
        rec = rec_box[0] = Rec()
        problem = P(cfg=cfg)
        algo = CLASSES[cfg["algo"]](problem)
        algo.options['max_population_number'] = cfg["G"]
        algo.options['max_population_size'] = cfg["N"]
        algo.options['verbose_level'] = 0
        if cfg["algo"] in ("NSGAII", "EpsMOEA"):
            algo.options['prob_cross'] = cfg["prob_cross"]
            algo.options['prob_mutation'] = cfg["prob_mutation"]
        inner_eval = algo.evaluator.evaluate

        def evaluate(individuals):
            b = dict(objs=list(individuals), vecs_in=[[float(v) for v in i.vector] for i in individuals],
                     call_from=len(problem.calls))
            rec.batches.append(b)
            try:
                return inner_eval(individuals)
            finally:
                b["call_to"] = len(problem.calls)
                b["vecs_out"] = [[float(v) for v in i.vector] for i in individuals]
                b["costs"] = [list(i.costs_signed) for i in individuals]
        algo.evaluator.evaluate = evaluate
        pyrandom.seed(cfg["seed"])
        ops.random = shim
        ops.Selector.pop_acceptance = acc_wrapper
        mod_nsga.nondominated_truncate = trunc_wrapper
        error = None
        try:
            with contextlib.redirect_stdout(io.StringIO()):
                algo.run()
        except Runaway:
            error = "runaway"
        except Exception as e:      # a run that raises is reported by the oracle (the schedules never raise by construction)
            error = "%s: %s" % (type(e).__name__, e)
        finally:
            ops.random = pyrandom
            ops.Selector.pop_acceptance = orig_acc
            mod_nsga.nondominated_truncate = orig_trunc
            rec_box[0] = None
            # Problem registers an atexit handler per instance that removes /tmp/artap-<time digits>/ (names collide
            # between instances created in the same tick): clean up here instead
            atexit.unregister(problem.cleanup)
            shutil.rmtree(problem.working_dir, ignore_errors=True)
        return problem, rec, error

    shim = RandomShim()

    # ---------------- tapes from a recorded run ----------------
    def entries_of(problem, batch):
        """Group the calls of one evaluator batch by design (consecutive calls on the same object)."""
        calls = problem.calls[batch["call_from"]:batch["call_to"]]
        groups = [list(g) for _, g in itertools.groupby(calls, key=lambda c: c[2])]
        by_obj = {id(o): k for k, o in enumerate(batch["objs"])}
        ents = []
        for g in groups:
            k = by_obj.get(g[0][2])
            cost = batch["costs"][k] if k is not None and len(batch["costs"][k]) > 0 else [math.nan, 1]
            ents.append(dict(vec=g[0][0], repl=[c[0] for c in g[1:]], cost=cost))
        return ents

    def pairs(stream):
        out = [(stream[i], stream[i + 1]) for i in range(0, len(stream) - 1, 2)]
        if len(stream) % 2:
            out.append((stream[-1], stream[-1]))       # cannot happen: mutate is called twice per loop pass
        return out

    def enc_stream(stream):
        return ll(pairs(stream), lambda p: pl(enc_vec(p[0]), enc_vec(p[1])))

    def observed(problem, sizes):
        pops = [(int(t), [[float(v) for v in i.vector] for i in inds]) for t, inds in problem.populations().items()]
        log = [(c[0], c[1]) for c in problem.calls]
        succ = sum(1 for c in problem.calls if c[1])
        return pops, log, succ, len(problem.calls) - succ, sizes

    def build_case(cfg, problem, rec):
        """Coq case + expected observation + JSON description."""
        algo, N, G = cfg["algo"], cfg["N"], cfg["G"]
        b = rec.batches
        init = b[0]["vecs_in"] if b else []
        e0 = entries_of(problem, b[0]) if b else []
        sizes = []
        if algo == "NSGAII":
            gens = []
            for k in range(1, len(b)):
                st = rec.streams[k - 1] if k - 1 < len(rec.streams) else []
                gens.append("(mk_gen %s %s)" % (enc_stream(st), ll(entries_of(problem, b[k]), enc_entry)))
            table = []
            for pool, res, size in rec.truncs:
                pos = [next(i for i, o in enumerate(pool) if o is r) for r in res]
                table.append(pl(ll([o.vector for o in pool], enc_vec), ll(pos, nl)))
            case = "(CaseNsga %s %s %s %s %s %s)" % (nl(N), nl(G), ll(init, enc_vec), ll(e0, enc_entry), ll(gens), ll(table))
        elif algo == "EpsMOEA":
            gens = []
            acc = list(rec.acc)
            for k in range(1, len(b)):
                st = rec.streams[k - 1] if k - 1 < len(rec.streams) else []
                n_off = len(b[k]["objs"])
                steps, acc = acc[:n_off], acc[n_off:]
                gens.append("(mk_egen %s %s %s)" % (enc_stream(st), ll(entries_of(problem, b[k]), enc_entry),
                                                   ll([s["choice"] for s in steps], lambda c: optl(c, nl))))
            sizes = [len(s["after"]) for s in rec.acc]
            case = "(CaseEps %s %s %s %s %s)" % (nl(N), nl(G), ll(init, enc_vec), ll(e0, enc_entry), ll(gens))
        else:
            pops_now = problem.populations()
            gens = []
            for k in range(1, len(b)):
                # SMPSO's crowding_distance(swarm) sorts the offspring list in place before it is recorded
                recorded = pops_now.get(k, [])
                perm = [next((i for i, o in enumerate(b[k]["objs"]) if o is r), len(b[k]["objs"])) for r in recorded]
                gens.append("(mk_pgen %s %s %s)" % (ll(b[k]["vecs_in"], enc_vec), ll(entries_of(problem, b[k]), enc_entry), ll(perm, nl)))
            case = "(CasePso %s %s %s %s)" % (nl(G), ll(init, enc_vec), ll(e0, enc_entry), ll(gens))
        obs = observed(problem, sizes)
        return case, enc_obs(True, *obs, []), obs

    # ---------------- direct oracle on one run ----------------
    def fail(what, cfg, clause, **kw):
        if len(ctx.oracle_failures) < 40:
            inp = {k: cfg[k] for k in ("algo", "N", "G", "nobj", "family", "bounds", "precision", "maximize", "fail_at", "seed",
                                       "prob_cross", "prob_mutation", "scale", "constraints", "constraint_shape")}
            inp.update(kw)
            ctx.oracle_failures.append({"what": what, "input": inp,
                                        "match": {"kind": "run", "algo": cfg["algo"], "clause": clause}})

    short = {"n": 0}      # generations whose merged population had fewer than N distinct designs

    def oracle_run(cfg, problem, rec, error):
        algo, N, G = cfg["algo"], cfg["N"], cfg["G"]
        if error is not None:
            fail("the run raised %s although no design fails 5 times in a row" % error, cfg, "raises")
            return
        pops = problem.populations()
        sizes = [(int(t), len(v)) for t, v in pops.items()]
        succ = sum(1 for c in problem.calls if c[1])
        first = 1 if algo == "NSGAII" else 0
        want = [(t, N) for t in range(first, G + 1)]
        if algo == "NSGAII":
            # "exactly N designs each, none repeated": generation t+1 is the truncation of offspring + parent copies of pass t;
            # when that merged population holds fewer than N DISTINCT designs (a grid of very few points with many re-rolled
            # designs) N unrepeated designs do not exist, and the truncation returns all distinct ones (property C03:
            # min(k, number of distinct designs)).  The clause is applied as min(N, distinct designs of the merged population);
            # such generations are counted in the evidence.
            # (merged population taken from what the harness observed itself: the offspring objects of evaluation batch t and
            # the recorded generation t, not from the implementation's call of the truncation)
            for t in range(1, G):
                if t not in pops or t >= len(rec.batches):
                    continue
                merged = list(rec.batches[t]["objs"]) + list(pops[t])
                distinct = len(set(tuple(float(x) for x in o.vector) for o in merged))
                if distinct < N:
                    want[t + 1 - first] = (t + 1, distinct)
                    short["n"] += 1
        if sizes != want:
            fail("recorded generations (tag, size) = %r, required %r" % (sizes, want), cfg, "generations", observed=sizes)
        budget = N * G if algo == "NSGAII" else N * (G + 1)
        if succ != budget:
            fail("%d successful objective evaluations, required %d" % (succ, budget), cfg, "budget", observed=succ)
        if algo == "NSGAII":
            tags = sorted(pops)
            for t in tags:
                if t >= 2:
                    vs = [tuple(i.vector) for i in pops[t]]
                    if len(set(vs)) != len(vs):
                        fail("generation %d records the same design vector twice" % t, cfg, "repeat", generation=t,
                             vectors=[list(v) for v in vs])
            for t in tags:
                if t + 1 not in pops:
                    continue
                prev, nxt = pops[t], pops[t + 1]
                kept = set(tuple(i.vector) for i in nxt)
                dropped = [d for d in prev if tuple(d.vector) not in kept]
                # twice: on the implementation's costs_signed, and on signed costs recomputed by the harness from the recorded
                # raw costs (sign * round(cost, 7 decimals)): the latter does not trust the implementation's rounding
                variants = [("recorded signed costs", lambda i: list(i.costs_signed)),
                            ("signed costs recomputed from the recorded costs, 7 decimals", lambda i: resigned(cfg, i))]
                if cfg["constraints"]:
                    # red-team round 6: on a constrained problem the dominance of the statement is the constrained dominance of
                    # the designs themselves: feasibility of every recorded design recomputed by the harness from the problem's
                    # inequality constraints on the recorded vector (all g(x) < 0), not the marker the implementation stored
                    # (equal on the unchanged tree: Job.evaluate computes the marker from the same constraints on the vector it
                    # then evaluates, property C05)
                    variants += [
                        ("recorded signed costs, feasibility recomputed from the constraints on the recorded vector",
                         lambda i: (list(i.costs_signed[:-1]) + [true_marker(cfg, i.vector)]) if len(i.costs_signed) else None),
                        ("signed costs recomputed from the recorded costs, 7 decimals, feasibility recomputed from the constraints "
                         "on the recorded vector", lambda i: resigned(cfg, i, true_marker(cfg, i.vector)))]
                for how, sc in variants:
                    if any(sc(i) is None for i in list(prev) + list(nxt)):
                        continue
                    found = False
                    for d in dropped:
                        for s in nxt:
                            if dominates(sc(d), sc(s)):
                                fail("generation %d keeps a design dominated by a dropped design of generation %d (%s)" % (t + 1, t, how),
                                     cfg, "elitism", generation=t + 1,
                                     dropped=dict(vector=list(d.vector), raw_costs=[float(c) for c in d.costs],
                                                  costs=[float(c) for c in sc(d)], constraints=gvals(cfg, d.vector),
                                                  recorded_marker=bool(d.costs_signed[-1])),
                                     survivor=dict(vector=list(s.vector), raw_costs=[float(c) for c in s.costs],
                                                   costs=[float(c) for c in sc(s)], constraints=gvals(cfg, s.vector),
                                                   recorded_marker=bool(s.costs_signed[-1])))
                                found = True
                                break
                        if found:
                            break
                    # "for an unconstrained single objective the best recorded cost never gets worse"
                    if cfg["nobj"] == 1 and prev and nxt and not cfg["constraints"]:
                        bp = min(float(sc(i)[0]) for i in prev)
                        bn = min(float(sc(i)[0]) for i in nxt)
                        if bn > bp:
                            fail("single objective: best cost of generation %d is %r, worse than %r of generation %d (%s)"
                                 % (t + 1, bn, bp, t, how), cfg, "best_monotone", generation=t + 1)
                    if found:
                        break
            # every transition: recorded next generation = the real selector applied to offspring + parents
            for k in range(1, len(rec.batches)):
                t = k          # parents = generation k, next = generation k + 1
                if t not in pops or t + 1 not in pops:
                    continue
                offs, parents = rec.batches[k]["objs"], pops[t]
                pool = []
                for o in list(offs) + list(parents):
                    c = IndividualNSGAII([float(v) for v in o.vector])
                    c.costs, c.costs_signed = list(o.costs), list(o.costs_signed)
                    pool.append(c)
                sel = ops.TournamentSelector(problem.parameters)
                sel.fast_nondominated_sorting(pool)
                want_next = sorted(tuple(i.vector) for i in ops.nondominated_truncate(pool, N))
                got_next = sorted(tuple(i.vector) for i in pops[t + 1])
                if want_next != got_next:
                    fail("generation %d is not the selector's truncation of (offspring + generation %d)" % (t + 1, t), cfg,
                         "transition", generation=t + 1, observed=[list(v) for v in got_next], required=[list(v) for v in want_next])
        if algo == "EpsMOEA":
            for s in rec.acc:
                oracle_acceptance(s["before"], s["x"], s["after"], s["choice"], cfg, N)

    def oracle_acceptance(before, x, after, choice, cfg, N=None):
        """The three-way case statement, on the implementation's own lists (objects by identity)."""
        def bad(what, clause):
            d = dict(population=[[float(c) for c in p.costs_signed] for p in before], offspring=[float(c) for c in x.costs_signed],
                     choice=choice, result_positions=[next((i for i, o in enumerate(before) if o is a), "offspring") for a in after])
            if cfg is not None:
                fail(what, cfg, clause, **d)
            elif len(ctx.oracle_failures) < 40:
                ctx.oracle_failures.append({"what": what, "input": d, "match": {"kind": "pop_acceptance", "clause": clause}})
        if len(after) != len(before) or (N is not None and len(after) != N):
            bad("pop_acceptance changed the population size from %d to %d" % (len(before), len(after)), "acceptance_size")
            return
        doms = [i for i, p in enumerate(before) if dominates(list(x.costs_signed), list(p.costs_signed))]
        dominated = any(dominates(list(p.costs_signed), list(x.costs_signed)) for p in before)
        same = len(after) == len(before) and all(a is b for a, b in zip(after, before))
        removed = [i for i, p in enumerate(before) if not any(a is p for a in after)]
        appended = len(after) > 0 and after[-1] is x and len(removed) == 1 and \
            all(a is b for a, b in zip(after[:-1], [p for i, p in enumerate(before) if i != removed[0]]))
        if doms:
            if not (appended and removed[0] in doms):
                bad("offspring dominates members %r but the step did not replace one of them" % doms, "acceptance_dominating")
        elif dominated:
            if not same:
                bad("offspring is dominated and dominates nobody but was not rejected", "acceptance_rejected")
        else:
            if not appended:
                bad("incomparable offspring did not replace exactly one member", "acceptance_arbitrary")

    # ---------------- configurations ----------------
    def make_cfg(algo, N, G, nobj, with_fail, seed):
        npar = rng.choice([1, 2, 2, 3])
        cfg = dict(algo=algo, N=N, G=G, nobj=nobj, seed=seed,
                   family=rng.choice(["smooth", "coarse", "mixed"]),
                   bounds=[rng.choice([[-1, 2], [0, 3], [-2.5, 2.5], [0, 1]]) for _ in range(npar)],
                   precision=rng.choice([None, None, 0.5, 0.25]),
                   maximize=[k for k in range(nobj) if rng.random() < 0.25],
                   prob_cross=rng.choice([1.0, 0.9, 0.5, 0.3]), prob_mutation=rng.choice([0.2, 0.5, 1.0]),
                   fail_at=[], constraints=[], constraint_shape="list")
        # objective magnitudes: (offset, factor) per objective.  Large offsets with small factors make designs differ only far
        # behind the leading digits (near-ties for any rounding coarser than 7 decimals), tiny factors put the whole objective
        # near the 7th decimal (ties after the rounding of the unchanged code), "each" mixes the magnitudes between objectives
        SCALES = [(0.0, 1.0), (1e6, 1.0), (1e6, 1e3), (1e6, 1e-3), (-1e6, 1.0), (1e9, 1.0), (1e3, 1e-2), (0.0, 1e-6), (0.0, 1e-3),
                  (0.0, 1e6), (1e-6, 1e-6)]
        mode = rng.choice(["unit", "unit", "one", "one", "each"])
        if mode == "unit":
            cfg["scale"] = [(0.0, 1.0)] * nobj
        elif mode == "one":
            cfg["scale"] = [rng.choice(SCALES[1:])] * nobj
        else:
            cfg["scale"] = [rng.choice(SCALES) for _ in range(nobj)]
        if with_fail:
            total = N * (G + 1) * 2
            k = rng.choice([1, 2, 3, 5])
            fails = set()
            for _ in range(k):
                start = rng.randrange(0, total)
                run_len = rng.choice([1, 1, 2, 3, 4])
                fails.update(range(start, start + run_len))
            cfg["fail_at"] = cap_streaks(fails)
        return cfg

    def cap_streaks(fails):
        """never 5 consecutive call numbers (those could be 5 attempts of one design)"""
        out, streak = [], 0
        for c in sorted(fails):
            streak = streak + 1 if out and out[-1] == c - 1 else 1
            if streak <= 4:
                out.append(c)
            else:
                streak = 0
        return out

    def constrain(cfg, with_fail):
        """Red-team round 6 (LEAD_BRIEF rule 13): inequality constraints on a scripted problem, combined with the failure schedule.
        One or two constraints relative to the parameter boxes: coordinate bounds at 90 / 75 / 50 / 25 % of the box (thresholds
        that lie on the precision grids, so g(x) = 0 exactly, infeasible, occurs), a bound on the coordinate sum, inside / outside
        a ball; returned as a list, a tuple or a numpy array.  With failures: the random schedule of make_cfg, half of the time
        joined with a periodic one (every p-th objective call fails once), so that re-rolled designs occur in every batch."""
        b = cfg["bounds"]
        cons = []
        for _ in range(rng.choice([1, 1, 2])):
            kind = rng.choice(["upper", "upper", "lower", "sum", "ball", "outside"])
            if kind in ("upper", "lower"):
                j = rng.randrange(len(b))
                frac = rng.choice([0.9, 0.75, 0.5, 0.25]) if kind == "upper" else rng.choice([0.1, 0.25, 0.5])
                cons.append([kind, j, b[j][0] + frac * (b[j][1] - b[j][0])])
            elif kind == "sum":
                lo, hi = sum(x[0] for x in b), sum(x[1] for x in b)
                cons.append([kind, lo + rng.choice([0.85, 0.6, 0.4]) * (hi - lo)])
            else:
                r2 = sum(max(abs(x[0]), abs(x[1])) ** 2 for x in b)
                cons.append([kind, r2 * (rng.choice([0.7, 0.4, 0.2]) if kind == "ball" else rng.choice([0.02, 0.1, 0.3]))])
        cfg["constraints"] = cons
        cfg["constraint_shape"] = rng.choice(["list", "list", "tuple", "array"])
        if with_fail and rng.random() < 0.5:
            p = rng.choice([3, 4, 6, 7])
            total = cfg["N"] * (cfg["G"] + 1) * 2
            cfg["fail_at"] = cap_streaks(set(cfg["fail_at"]) | set(range(rng.randrange(p), total, p)))
        return cfg

    stats = {"runs": 0, "runaway_skipped": 0, "with_failures": 0, "failed_calls": 0, "successful_calls": 0,
             "duplicate_children_rejected": 0, "nsga_transitions": 0, "acceptance_steps": 0,
             "acceptance_branch": {"dominating": 0, "rejected": 0, "arbitrary": 0},
             "by_algo": {}, "merged_by_set": 0, "max_consecutive_failures": 0}
    cases, expected, meta = [], [], []

    def one_run(cfg):
        problem, rec, error = real_run(cfg)
        if error == "runaway":
            stats["runaway_skipped"] += 1
            return
        stats["runs"] += 1
        stats["by_algo"][cfg["algo"]] = stats["by_algo"].get(cfg["algo"], 0) + 1
        nf = sum(1 for c in problem.calls if not c[1])
        stats["failed_calls"] += nf
        stats["successful_calls"] += len(problem.calls) - nf
        stats["with_failures"] += 1 if nf else 0
        streak = 0
        for c in problem.calls:
            streak = 0 if c[1] else streak + 1
            stats["max_consecutive_failures"] = max(stats["max_consecutive_failures"], streak)
        for k, st in enumerate(rec.streams):
            produced = len(st)
            stats["duplicate_children_rejected"] += max(0, produced - cfg["N"])
        stats["nsga_transitions"] += len(rec.truncs)
        for pool, res, size in rec.truncs:
            stats["merged_by_set"] += len(pool) - len(set(pool))
        stats["acceptance_steps"] += len(rec.acc)
        for s in rec.acc:
            if s["choice"] is None:
                stats["acceptance_branch"]["rejected"] += 1
            elif any(dominates(list(s["x"].costs_signed), list(p.costs_signed)) for p in s["before"]):
                stats["acceptance_branch"]["dominating"] += 1
            else:
                stats["acceptance_branch"]["arbitrary"] += 1
        oracle_run(cfg, problem, rec, error)
        if error is not None:
            return
        case, exp, obs = build_case(cfg, problem, rec)
        cases.append(case)
        expected.append(exp)
        m = dict(cfg)
        m["observed_generations"] = [(t, len(v)) for t, v in obs[0]]
        m["successful_calls"], m["failed_calls"] = obs[2], obs[3]
        meta.append(m)
        ctx.count((cfg["algo"], cfg["N"], cfg["G"], cfg["nobj"], cfg["seed"], tuple(cfg["fail_at"]), cfg["family"],
                   tuple(cfg["scale"]), repr(cfg["constraints"])), nontrivial=True)
        if len(ctx.samples) < 3 and cfg["fail_at"] and cfg["G"] >= 2:
            ctx.sample(m)

    seeds = ctx.pick(2, 6)
    n_list = NS + ([10, 12] if ctx.thorough else [])
    g_list = GS + ([8] if ctx.thorough else [])
    for algo in ("NSGAII", "EpsMOEA", "OMOPSO", "SMPSO"):
        for N in n_list:
            for G in g_list:
                for nobj in (1, 2, 3):
                    for with_fail in (False, True):
                        for _ in range(seeds):
                            one_run(make_cfg(algo, N, G, nobj, with_fail, rng.randrange(1 << 30)))
    # constrained problems (red-team round 6): inequality constraints combined with transient failures (re-rolled designs),
    # all four algorithms for the bookkeeping, NSGA-II on every N / G >= 2 for the elitism clause with recomputed feasibility
    import time
    n_con, t_con = 0, time.perf_counter()
    for algo, ns, gs, objs in (("NSGAII", n_list, [g for g in g_list if g >= 2], (1, 2, 3)),
                               ("EpsMOEA", [2, 4], [1, 3], (2,)), ("OMOPSO", [2, 4], [1, 3], (2,)), ("SMPSO", [2, 4], [1, 3], (2,))):
        for N in ns:
            for G in gs:
                for nobj in objs:
                    for with_fail in ((True, True, False) if algo == "NSGAII" else (True,)):
                        for _ in range(max(1, seeds // 2)):
                            one_run(constrain(make_cfg(algo, N, G, nobj, with_fail, rng.randrange(1 << 30)), with_fail))
                            n_con += 1
    stats["constrained_runs"], stats["constrained_runs_seconds"] = n_con, round(time.perf_counter() - t_con, 2)
    # boundary: exactly four consecutive failures of one design (the fifth attempt succeeds)
    for algo in ("NSGAII", "EpsMOEA", "OMOPSO", "SMPSO"):
        cfg = make_cfg(algo, 3, 2, 2, False, 12345)
        cfg["fail_at"] = [1, 2, 3, 4, 7, 8, 9, 10]
        one_run(cfg)

    # ---------------- pop_acceptance on random populations ----------------
    from artap.individual import Individual
    sel = ops.TournamentSelector([{"name": "x", "bounds": [0, 1]}])
    CG = [0.0, 1.0, 2.0, 3.0, 1.5]
    VG = [0.0, 0.5, 1.0, 0.5 + 1e-12]
    n_acc = ctx.pick(600, 12000)
    acc_hist = {"dominating": 0, "rejected": 0, "arbitrary": 0, "removed_other_than_chosen": 0}
    for _ in range(n_acc):
        n = rng.choice([1, 2, 2, 3, 4, 5, 7])
        m = rng.choice([1, 2, 2, 3])
        template = rng.choice(["random", "front", "chain"])
        pop = []
        for i in range(n):
            ind = Individual([rng.choice(VG) for _ in range(rng.choice([1, 2]) if i == 0 else len(pop[0].vector))])
            if template == "front" and m >= 2:
                a = float(rng.randrange(0, 4))
                cs = [a, 3.0 - a] + [rng.choice(CG) for _ in range(m - 2)]
            elif template == "chain":
                cs = [float(i)] * m
            else:
                cs = [rng.choice(CG) for _ in range(m)]
            ind.costs_signed = cs + [rng.choice([True, True, True, False])]
            pop.append(ind)
        x = Individual([rng.choice(VG) for _ in range(len(pop[0].vector))])
        x.costs_signed = [rng.choice(CG + [-1.0, 4.0]) for _ in range(m)] + [rng.choice([True, True, True, False])]
        before = list(pop)
        rec = rec_box[0] = Rec()
        pyrandom.seed(rng.randrange(1 << 30))
        ops.random = shim
        ops.Selector.pop_acceptance = acc_wrapper
        try:
            sel.pop_acceptance(pop, x)
        finally:
            ops.random = pyrandom
            ops.Selector.pop_acceptance = orig_acc
            rec_box[0] = None
        step = rec.acc[0]
        ids = {id(o): i for i, o in enumerate(before)}
        ids[id(x)] = n
        res_ids = [ids[id(o)] for o in pop]
        oracle_acceptance(before, x, list(pop), step["choice"], None)
        doms = [i for i, p in enumerate(before) if dominates(list(x.costs_signed), list(p.costs_signed))]
        if step["choice"] is None:
            acc_hist["rejected"] += 1
        elif doms:
            acc_hist["dominating"] += 1
        else:
            acc_hist["arbitrary"] += 1
            if step["choice"] in res_ids:
                acc_hist["removed_other_than_chosen"] += 1
        cases.append("(CaseAcc %s %s %s)" % (ll([enc_ind(i, p.vector, p.costs_signed) for i, p in enumerate(before)]),
                                            enc_ind(n, x.vector, x.costs_signed), optl(step["choice"], nl)))
        expected.append(enc_obs(True, [], [], 0, 0, [len(pop)], res_ids))
        mm = dict(kind="pop_acceptance", population=[dict(vector=list(p.vector), costs=[float(c) for c in p.costs_signed]) for p in before],
                  offspring=dict(vector=list(x.vector), costs=[float(c) for c in x.costs_signed]), choice=step["choice"], result=res_ids)
        meta.append(mm)
        ctx.count(("acc", tuple(tuple(float(c) for c in p.costs_signed) for p in before), tuple(float(c) for c in x.costs_signed),
                   step["choice"], tuple(tuple(p.vector) for p in before)), nontrivial=n >= 2)
        if acc_hist["dominating"] == 1 and doms and len(ctx.samples) < 4:
            ctx.sample(mm)

    ctx.coq_compare("c09", HEADER, "c09_case", "c09_obs", "c09_run", "c09_obs_eqb", cases, expected, meta, shard=ctx.pick(60, 150))
    ctx.rule = ("one case = one real run of NSGAII / EpsMOEA / OMOPSO / SMPSO (N in %r, G in %r, 1..3 objectives, three objective "
                "families incl. a coarse one with many ties, objective magnitudes offset + factor * f per objective (offsets 0, 1e-6, "
                "1e3, +-1e6, 1e9, factors 1e-6 .. 1e6, equal or mixed between the objectives), grid-rounded or continuous initial vectors, minimise/maximise, with and "
                "without scripted TimeoutError/RuntimeError on chosen call numbers, runs of up to 4 consecutive failures; plus runs "
                "on problems with one or two inequality constraints (coordinate bounds, sum, inside / outside a ball; list / tuple / "
                "array) combined with random and periodic failure schedules, elitism there also with feasibility recomputed from "
                "the constraints on the recorded vectors) or one "
                "pop_acceptance step on a random population from small cost/vector grids; distinct = distinct "
                "(algorithm, N, G, objectives, seed, schedule) resp. (population, offspring, choice); acceptance steps on a "
                "1-member population count as trivial") % (n_list, g_list)
    stats["acceptance_standalone"] = acc_hist
    stats["nsga_generations_with_fewer_than_N_distinct_designs_in_the_merged_population"] = short["n"]
    ctx.extra.update(stats)


LEVEL_TEXT = ("Machine-checked Coq theorems over state-machine models of GeneticAlgorithm.generate, NSGAII.run, EpsMOEA.run with "
              "Selector.pop_acceptance, OMOPSO.run / SMPSO.run and Problem.populations(), for every N >= 2, G >= 1, every candidate "
              "stream, every objective tape with transient failures (fewer than 5 in a row per design) and every random.choice: "
              "generate returns exactly N pairwise different designs; NSGA-II records tags 1..G with N designs each, no repeated "
              "design inside a generation >= 2 and makes N*G successful objective calls; eps-MOEA / OMOPSO / SMPSO record tags 0..G "
              "with N each and N*(G+1) successful calls; no NSGA-II survivor is dominated by a dropped design of the previous "
              "generation and the single-objective best cost never gets worse; pop_acceptance keeps the list length and follows the "
              "three-way case statement. The models are tied to the code on every run by replaying real runs' tapes inside Coq and "
              "comparing populations, call log and counts bit for bit.")
LEVEL_NOTE = ("The sorter + truncation enters the NSGA-II theorems of Props/C09.v through named hypotheses (H_select_len, "
              "H_select_nodup, H_select_incl, H_select_elitist, H_front_rank); Proofs/RunsCompose.v proves them for the selector "
              "composed of the C02 model (Fnds.fnds) and the C03 model (Selection.truncate) and restates bookkeeping and elitism "
              "without them (remaining premises there: the coordinate order is a strict weak order (SWO ltb), == is reflexive "
              "(H_veq_refl), set() key equality is symmetric (H_same_sym) and implies == (H_same_veq), the set order is a "
              "permutation of the representatives (H_order), cost vectors have one length (okc_m), plus H_fresh and, for elitism, "
              "det_pool as in Props/C09.v). H_fresh (premise `Forall fresh_tr (s_trace st)`: replacement vectors after a failure do "
              "not repeat another offspring), H_same_veq (C20) and, for elitism of merged duplicates, H_same_cost (premise `det_pool`: "
              "deterministic objective) are explicit hypotheses, not monitored per run. Variation operators and the objective are tapes. "
              "In the correspondence the NSGA-II selector is a recorded table, not the composed model selector. Correspondence is "
              "sampled; the theorems are unbounded.")
