"""C19 - surrogate wrapper accounting: correspondence with Model/Surrogate.v and direct oracle.

Subjects (all through `problem.surrogate.evaluate`, part of the cases through `Job.evaluate`):
  eval      SurrogateModelEval (the default pass-through wrapper of every Problem)
  scikit    SurrogateModelScikit with a stub regressor: the real evaluate / evaluate_individual /
            train() code runs, only regressor.fit / score / predict are scripted and recorded
  scripted  a minimal SurrogateModelPredict subclass whose train() sets `trained` from a script
            (also to False), so that trained -> untrained transitions are exercised
The objective, the predict hook and the regressor are scripted by the harness and record the
wrapper's counters at the moment they are called.
"""
from harness.core import fl, zl, nl, bl, ll, pl, optl

PROP = "C19"
THEOREMS = {"Artap.Props.C19": [
    "C19_sequence_is_steps", "C19_passthrough_exact", "C19_prediction_only_if_trained_and_hook",
    "C19_true_eval_once_unchanged_counted_recorded", "C19_retrain_step", "C19_retrain_condition",
    "C19_retrain_schedule", "C19_never_retrained_for_minus_one", "C19_sequence_accounting",
    "C19_sequence_answers", "C19_counters_add_up", "C19_data_aligned"]}
AXIOMS_OK = []          # the theorems are closed under the global context
TRUSTED = [
    "Coq 8.16.1 kernel, vm_compute for model evaluation (no native_compute)",
    "hand-written model Model/Surrogate.v tied to surrogate.py / surrogate_scikit.py by this correspondence run",
    "vectors and objective values are opaque to the wrapper (abstract types V, C); in the driver they are float lists compared bit for bit "
    "(PrimFloat primitives appear only in the driver's equality test, not under the theorems)",
    "train() is an oracle: what `trained` is after the k-th call is observed on the implementation and given to the model as a tape; "
    "the theorems hold for every such oracle",
    "the objective, the predict hook and the regressor (fit/score/predict) are scripted by the harness",
]
ASSUMPTIONS = [
    "the objective and the predict hook do not raise and do not modify the surrogate (the hook of test_surrogate_function.py that "
    "rescales train_step is covered only in the sense that the per-request theorems hold from every state and for every train_step)",
    "problem.surrogate is the wrapper being called (the code increments problem.surrogate.predict_counter, not self.predict_counter)",
    "train_step is an integer; train_step = 0 makes `eval_counter % train_step` raise ZeroDivisionError after the evaluation has been "
    "counted and recorded (modelled as outcome Raised; the 'returned unchanged' clause is stated for train_step <> 0)",
    "regressor.fit/score do not raise (an exception inside train() propagates out of evaluate after counting and recording; not modelled)",
]

HEADER = ("From Artap Require Import Run.C19Run.\nFrom Coq Require Import List ZArith Floats.\nImport ListNotations.\n"
          "Open Scope float_scope.\n")

VGRID = [0.0, 1.0, 2.0, 3.0, 0.5, -1.0, 2.5, 1e-9, -0.0, 1e300, 0.1, 0.30000000000000004]
CGRID = [0.0, 1.0, 2.0, -3.0, 0.5, 7.25, 1e-300, -0.0, 0.1, 0.2, 0.30000000000000004, 123456.789]
TRAIN_STEPS = [-1, -1, 1, 1, 2, 2, 3, 3, 4, 5, 5, 7, 10, 10, 13, 25, 60, 100, 0, -2, -3, -5]
SCORES = [0.0, 0.3, 0.5, 0.9, 1.0, -1.0]


def is_fvec(v):
    return isinstance(v, (list, tuple)) and all(isinstance(x, (int, float)) and not isinstance(x, bool) for x in v)


def enc_vec(v):
    return ll(list(v), fl) if is_fvec(v) else "[nan; nan; nan; nan; nan; nan; nan]"     # malformed: cannot equal any model value


def enc_n3(t):
    return pl(nl(t[0]), nl(t[1]), nl(t[2]))


def enc_vnn(t):
    return pl(enc_vec(t[0]), nl(t[1]), nl(t[2]))


def gen_case(rng, forced=None):
    subject = rng.choice(["eval", "scikit", "scikit", "scikit", "scripted", "scripted"])
    ts = rng.choice(TRAIN_STEPS)
    n = rng.choice([1, 2, 3, 5, 8, 12, 20, 30, 45, 60]) if rng.random() < 0.5 else rng.randint(1, 60)
    has_hook = rng.random() < 0.8
    trained0 = rng.random() < 0.2
    p_accept = rng.choice([0.0, 0.3, 0.5, 0.8, 1.0])
    p_train_ok = rng.choice([1.0, 1.0, 0.7, 0.3])
    dim = rng.choice([1, 1, 2, 3])
    m = rng.choice([1, 1, 2])
    if forced:
        subject = forced.get("subject", subject)
        ts = forced.get("ts", ts)
        n = forced.get("n", n)
        has_hook = forced.get("has_hook", has_hook)
        trained0 = forced.get("trained0", trained0)
        p_accept = forced.get("p_accept", p_accept)
    pool = [[rng.choice(VGRID) for _ in range(dim)] for _ in range(max(2, n // 3))]
    reqs = []
    for _ in range(n):
        vec = list(rng.choice(pool)) if rng.random() < 0.4 else [rng.choice(VGRID) for _ in range(dim)]
        true = [rng.choice(CGRID) for _ in range(m)]
        hook = None
        if rng.random() < p_accept:
            r = rng.random()
            hook = [] if r < 0.05 else [0.0] * m if r < 0.12 else list(true) if r < 0.2 else [rng.choice(CGRID) + 1000.0 for _ in range(m)]
        reqs.append((vec, hook, true))
    return {"subject": subject, "train_step": ts, "has_hook": has_hook, "trained0": trained0,
            "train_script": [rng.random() < p_train_ok for _ in range(n + 1)],
            "scores": [rng.choice(SCORES) for _ in range(n + 1)],
            "via_job": ts != 0 and rng.random() < 0.4, "dim": dim, "m": m, "requests": reqs}


def run(ctx):
    from artap.problem import Problem
    from artap.individual import Individual
    from artap.job import Job
    from artap.surrogate import SurrogateModelEval, SurrogateModelPredict
    from artap.surrogate_scikit import SurrogateModelScikit

    class Rec:
        """What the scripted collaborators see, in call order."""
        def __init__(self):
            self.obj, self.hook, self.train, self.fit, self.score, self.tape = [], [], [], [], [], []
            self.current = None

    class BaseProblem(Problem):
        def set(self, **kwargs):
            self.name = "c19"
            self.parameters = [{'name': 'x%d' % i, 'initial_value': 0.0, 'bounds': [-10, 10]} for i in range(3)]
            self.costs = [{'name': 'F1'}, {'name': 'F2'}]
            self.rec = Rec()

        def evaluate(self, individual):
            s = self.surrogate
            self.rec.obj.append((list(individual.vector), len(s.x_data), s.eval_counter))
            return list(self.rec.current[2])

    class HookProblem(BaseProblem):
        def predict(self, individual):
            s = self.surrogate
            self.rec.hook.append((list(individual.vector), s.eval_counter, s.predict_counter))
            h = self.rec.current[1]
            return None if h is None else list(h)

    class StubRegressor:
        def __init__(self, sur, rec, scores):
            self.sur, self.rec, self.scores = sur, rec, list(scores)

        def fit(self, X, y):
            self.rec.fit.append((self.sur.eval_counter, [list(v) if is_fvec(v) else v for v in X], [list(v) if is_fvec(v) else v for v in y]))
            return self

        def score(self, X, y):
            self.rec.score.append(len(X))
            return self.scores.pop(0) if self.scores else 1.0

        def predict(self, X, return_std=False):
            raise AssertionError("the wrapper itself must not call regressor.predict")

    class ObsScikit(SurrogateModelScikit):
        def train(self):
            rec = self.problem.rec
            rec.train.append((self.eval_counter, len(self.x_data), len(self.y_data)))
            super().train()
            rec.tape.append(bool(self.trained))

    class Scripted(SurrogateModelPredict):
        train_step = 10
        script = ()

        def predict(self, x, *args):
            raise AssertionError("not used")

        def train(self):
            rec = self.problem.rec
            rec.train.append((self.eval_counter, len(self.x_data), len(self.y_data)))
            self.trained = self.script[len(rec.tape)] if len(rec.tape) < len(self.script) else True
            rec.tape.append(bool(self.trained))

    import logging
    problems = {True: HookProblem(), False: BaseProblem()}
    for p in problems.values():
        p.logger.setLevel(logging.CRITICAL)

    def fail(what, case, i, **kw):
        d = {"what": what, "input": {"subject": case["subject"], "train_step": case["train_step"], "has_hook": case["has_hook"],
                                     "trained0": case["trained0"], "via_job": case["via_job"], "request_index": i,
                                     "requests": case["requests"][:i + 1] if i is not None else case["requests"]},
             "match": {"kind": "surrogate_sequence", "subject": case["subject"], "train_step": case["train_step"], "clause": kw.get("clause", what)}}
        d["input"].update({k: v for k, v in kw.items() if k != "clause"})
        if len(ctx.oracle_failures) < 50:
            ctx.oracle_failures.append(d)

    def implementation(case):
        """Runs the case on artap; returns the observation and applies the direct oracle request by request."""
        problem = problems[case["has_hook"]]
        problem.rec = rec = Rec()
        subject, ts = case["subject"], case["train_step"]
        if subject == "eval":
            sur = SurrogateModelEval(problem)
        elif subject == "scikit":
            sur = ObsScikit(problem)
            sur.regressor = StubRegressor(sur, rec, case["scores"])
            sur.train_step = ts
        else:
            sur = Scripted(problem)
            sur.script = list(case["train_script"])
            sur.regressor = object()
            sur.train_step = ts
        if subject != "eval":
            sur.trained = case["trained0"]
        problem.surrogate = sur
        trained0 = bool(sur.trained)
        job = Job(problem)
        rets = []
        want_x, want_y = [], []
        for i, r in enumerate(case["requests"]):
            vec, hook, true = r
            rec.current = r
            before = (bool(sur.trained), sur.eval_counter, sur.predict_counter, list(sur.x_data), list(sur.y_data),
                      len(rec.obj), len(rec.hook), len(rec.train), len(rec.fit))
            ind = Individual(list(vec))
            exc = None
            try:
                if case["via_job"]:
                    job.evaluate(ind)
                    ret = ind.costs
                else:
                    ret = problem.surrogate.evaluate(ind)
            except ZeroDivisionError as e:
                ret, exc = None, e
            except Exception as e:          # anything else is not behaviour of the unchanged code
                ret, exc = None, e
                fail("request raised %r" % (e,), case, i, clause="unexpected exception")
            rets.append(None if exc is not None else ret)
            # ---- direct oracle: the clauses of the property on the implementation alone
            t_b, ec_b, pc_b, x_b, y_b, no_b, nh_b, nt_b, nf_b = before
            ec, pc = sur.eval_counter, sur.predict_counter
            n_obj = len(rec.obj) - no_b
            n_train = len(rec.train) - nt_b
            if (ec + pc) - (ec_b + pc_b) != 1:
                fail("counters do not add up: eval %d->%d, predict %d->%d for one request" % (ec_b, ec, pc_b, pc), case, i, clause="counters_add_up")
            if subject == "eval":
                if n_obj != 1 or rec.obj[-1][0] != vec:
                    fail("pass-through: objective called %d times for one request" % n_obj, case, i, clause="passthrough objective calls")
                if exc is None and ret != true:
                    fail("pass-through: returned %r, true objective value %r" % (ret, true), case, i, clause="passthrough value")
                if ec != ec_b + 1 or pc != pc_b:
                    fail("pass-through: eval_counter %d->%d predict_counter %d->%d" % (ec_b, ec, pc_b, pc), case, i, clause="passthrough counter")
                continue
            if n_obj == 0:
                # a prediction was used
                if not t_b:
                    fail("prediction used while the model is not trained (returned %r)" % (ret,), case, i, clause="prediction while untrained")
                elif not case["has_hook"] or hook is None:
                    fail("objective not evaluated although the hook gave no value (returned %r)" % (ret,), case, i, clause="no value and no evaluation")
                elif exc is None and ret != hook:
                    fail("prediction returned %r, hook answered %r" % (ret, hook), case, i, clause="prediction value")
                if pc != pc_b + 1 or ec != ec_b:
                    fail("prediction not counted as a prediction: eval %d->%d predict %d->%d" % (ec_b, ec, pc_b, pc), case, i, clause="prediction counter")
                if sur.x_data != x_b or sur.y_data != y_b:
                    fail("training data changed by a prediction", case, i, clause="prediction touches data")
                if n_train != 0:
                    fail("train() called by a predicted request", case, i, clause="train on prediction")
            else:
                want_x.append(vec)
                want_y.append(true)
                if n_obj != 1 or rec.obj[-1][0] != vec:
                    fail("true objective evaluated %d times for one request" % n_obj, case, i, clause="objective calls")
                if t_b and case["has_hook"] and hook is not None and ret != true:
                    pass    # evaluating although a prediction was available is not excluded by the statement
                if exc is None and ret != true:
                    fail("true evaluation returned %r, objective value %r" % (ret, true), case, i, clause="value changed")
                if ec != ec_b + 1 or pc != pc_b:
                    fail("true evaluation not counted exactly once: eval %d->%d predict %d->%d" % (ec_b, ec, pc_b, pc), case, i, clause="evaluation counter")
                if sur.x_data != x_b + [vec] or sur.y_data != y_b + [true]:
                    fail("(vector, value) not appended exactly once at the end: |x| %d->%d |y| %d->%d" % (len(x_b), len(sur.x_data), len(y_b), len(sur.y_data)),
                         case, i, clause="training data append")
                elif rec.obj[-1][1] != len(x_b):
                    fail("training data extended before the objective was called", case, i, clause="append before call")
                if ts == -1 or ts > 0:
                    due = ts != -1 and ec % ts == 0
                    if n_train != (1 if due else 0):
                        fail("train() called %d times at eval_counter %d with train_step %d (required %d)" % (n_train, ec, ts, 1 if due else 0),
                             case, i, clause="retrain schedule")
                    elif due and subject == "scikit":
                        nfit = len(rec.fit) - nf_b
                        if nfit != 1 or rec.fit[-1][1] != sur.x_data or rec.fit[-1][2] != sur.y_data:
                            fail("train() did not fit the regressor once on the current training set", case, i, clause="fit data")
        if subject != "eval" and (sur.x_data != want_x or sur.y_data != want_y):
            fail("training set is not the sequence of truly evaluated (vector, value) pairs", case, None, clause="training set order")
        if sur.eval_counter + sur.predict_counter != len(case["requests"]):
            fail("eval_counter %d + predict_counter %d != %d requests" % (sur.eval_counter, sur.predict_counter, len(case["requests"])),
                 case, None, clause="counters_add_up total")
        obs = {"returned": rets, "trained": bool(sur.trained), "eval_counter": sur.eval_counter, "predict_counter": sur.predict_counter,
               "x_data": list(sur.x_data), "y_data": list(sur.y_data), "train_log": list(rec.train), "obj_log": list(rec.obj),
               "hook_log": list(rec.hook), "tape": list(rec.tape), "trained0": trained0}
        return obs

    def encode(case, obs):
        c = "{| c9_pass := %s; c9_ts := %s; c9_hook := %s; c9_trained0 := %s; c9_tape := %s; c9_reqs := %s |}" % (
            bl(case["subject"] == "eval"), zl(case["train_step"]), bl(case["has_hook"]), bl(obs["trained0"]),
            ll(obs["tape"], bl),
            ll(case["requests"], lambda r: pl(enc_vec(r[0]), optl(r[1], enc_vec), enc_vec(r[2]))))
        e = pl(ll(obs["returned"], lambda v: optl(v, enc_vec)),
               pl(bl(obs["trained"]), nl(obs["eval_counter"]), nl(obs["predict_counter"])),
               ll(obs["x_data"], enc_vec), ll(obs["y_data"], enc_vec),
               ll(obs["train_log"], enc_n3), ll(obs["obj_log"], enc_vnn), ll(obs["hook_log"], enc_vnn))
        return c, e

    rng = ctx.rng
    n_cases = ctx.pick(700, 12000)
    cases, expected, meta = [], [], []
    hist = {"subject": {}, "train_step": {}, "length": {"1-5": 0, "6-20": 0, "21-40": 0, "41-60": 0},
            "requests": 0, "predicted": 0, "evaluated": 0, "hook_declined": 0, "train_calls": 0,
            "raised": 0, "via_job": 0, "untrained_after_train": 0, "no_hook_problem": 0}

    def add(case):
        obs = implementation(case)
        c, e = encode(case, obs)
        cases.append(c)
        expected.append(e)
        meta.append({k: case[k] for k in ("subject", "train_step", "has_hook", "trained0", "via_job", "requests")} |
                    {"train_tape": obs["tape"], "observed": {k: obs[k] for k in ("returned", "eval_counter", "predict_counter", "train_log")}})
        n = len(case["requests"])
        hist["subject"][case["subject"]] = hist["subject"].get(case["subject"], 0) + 1
        hist["train_step"][str(case["train_step"])] = hist["train_step"].get(str(case["train_step"]), 0) + 1
        hist["length"]["1-5" if n <= 5 else "6-20" if n <= 20 else "21-40" if n <= 40 else "41-60"] += 1
        hist["requests"] += n
        hist["predicted"] += obs["predict_counter"]
        hist["evaluated"] += obs["eval_counter"]
        hist["hook_declined"] += len(obs["hook_log"]) - obs["predict_counter"]
        hist["train_calls"] += len(obs["train_log"])
        hist["raised"] += sum(1 for r in obs["returned"] if r is None)
        hist["via_job"] += bool(case["via_job"])
        hist["untrained_after_train"] += sum(1 for t in obs["tape"] if not t)
        hist["no_hook_problem"] += not case["has_hook"]
        mixed = obs["predict_counter"] > 0 and obs["eval_counter"] > 0
        ctx.count((case["subject"], case["train_step"], case["has_hook"], n, obs["eval_counter"], obs["predict_counter"],
                   tuple(t[0] for t in obs["train_log"])), nontrivial=(n > 1))
        if mixed and n <= 8:
            ctx.sample(meta[-1])

    # corpus: boundary cases read off the code
    base = {"has_hook": True, "trained0": False, "train_script": [True] * 70, "scores": [0.3] * 70, "via_job": False, "dim": 1, "m": 1}
    R = lambda v, h, t: ([float(v)], None if h is None else [float(h)], [float(t)])
    corpus = [
        dict(base, subject="eval", train_step=1, requests=[R(1, 9, 10), R(1, 9, 10), R(2, None, 20)]),
        dict(base, subject="scikit", train_step=2, requests=[R(1, None, 10), R(2, 99, 20), R(3, 77, 30), R(4, None, 40), R(5, None, 50)]),
        dict(base, subject="scikit", train_step=1, requests=[R(1, 5, 10), R(2, 5, 20), R(3, None, 30), R(4, 5, 40)]),
        dict(base, subject="scikit", train_step=-1, requests=[R(i, 5, i * 10) for i in range(12)]),
        dict(base, subject="scikit", train_step=-1, trained0=True, requests=[R(i, 5 if i % 2 else None, i * 10) for i in range(12)]),
        dict(base, subject="scikit", train_step=0, requests=[R(1, 5, 10), R(2, 5, 20)]),
        dict(base, subject="scikit", train_step=-2, requests=[R(i, None, i) for i in range(6)]),
        dict(base, subject="scikit", train_step=3, has_hook=False, requests=[R(i, 5, i) for i in range(10)]),
        dict(base, subject="scikit", train_step=10, requests=[R(i, 7, i) for i in range(31)]),
        dict(base, subject="scikit", train_step=60, requests=[R(i, 7, i) for i in range(60)]),
        dict(base, subject="scripted", train_step=2, train_script=[True, False, True, False] * 20,
             requests=[R(i, 7 if i % 3 else None, i) for i in range(30)]),
        dict(base, subject="scripted", train_step=1, train_script=[False] * 70, requests=[R(i, 7, i) for i in range(8)]),
        dict(base, subject="scikit", train_step=2, via_job=True, requests=[R(1, None, 10), R(2, 99, 20), R(3, 77, 30), R(4, None, 40)]),
        dict(base, subject="eval", train_step=1, via_job=True, requests=[R(1, 9, 10), R(2, None, 20)]),
        dict(base, subject="scikit", train_step=1, requests=[([1.0], [], [10.0]), ([2.0], [], [20.0]), ([3.0], [0.0], [30.0])]),
    ]
    for case in corpus:
        add(case)
    for k in range(n_cases):
        add(gen_case(rng))

    ctx.coq_compare("c19", HEADER, "c19_case", "c19_obs", "c19_run", "c19_obs_eqb", cases, expected, meta, shard=ctx.pick(50, 200))
    ctx.rule = ("request sequences of length 1..60 over the three subjects, train_step from %r, hook present/absent, accept probability "
                "0/0.3/0.5/0.8/1, trained or untrained start, train() leaving trained True or False, ~40%% of the cases through Job.evaluate; "
                "a case is non-trivial when it has more than one request; distinct = distinct (subject, train_step, hook, length, "
                "eval_counter, predict_counter, train-call counters)") % (sorted(set(TRAIN_STEPS)),)
    ctx.extra.update({"distribution": hist})


LEVEL_TEXT = ("Machine-checked Coq theorems over a state-machine model of SurrogateModelEval.evaluate and SurrogateModelPredict.evaluate / "
              "evaluate_individual, for every request sequence, every accept/decline pattern of the predict hook, every integer train_step, "
              "every train() oracle and every starting state: pass-through exactness, prediction only (and exactly) when trained and the hook "
              "answers, true evaluation exactly once / returned unchanged / counted / recorded once in order, the retraining schedule "
              "(train() exactly when train_step is not -1 and divides the new evaluation counter; never for -1), counters adding up to the "
              "number of requests, and alignment of the training set. The model is tied to surrogate.py and surrogate_scikit.py on every run "
              "by evaluating it in Coq on generated request sequences (length 1..60) and comparing returned values, counters, training data, "
              "train/objective/hook call logs exactly.")
LEVEL_NOTE = ("Trusted: Coq kernel + vm_compute; the hand-written model and the Python harness; train()'s effect on `trained`, the objective, "
              "the hook and the regressor are oracles. train_step = 0 raises in the code (modelled; 'returned unchanged' is stated for "
              "train_step <> 0). SurrogateModelSMT shares the modelled base-class code but its own train() is not run. "
              "Correspondence is sampled, the theorems are unbounded.")
