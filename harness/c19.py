"""C19 - surrogate wrapper accounting: correspondence with Model/Surrogate.v and direct oracle.

A case is a SESSION on one problem: one to three wrapper objects (subjects below), one of which is
`problem.surrogate`, and a list of events
  req          problem.surrogate.evaluate(individual)          (part of the cases through Job.evaluate)
  seed         problem.individuals = [...]; problem.surrogate.read_from_data_store()
               (individuals in every state: EVALUATED with costs, EMPTY / IN_PROGRESS / FAILED with costs [])
  train        the user calls problem.surrogate.train()
  set_step     problem.surrogate.train_step = k
  set_trained  problem.surrogate.trained = b
  use          problem.surrogate = wrappers[k]                  (the other wrapper objects keep their state)
  set_stats    problem.surrogate.eval_stats = b                 (red team round 5: the switch that lets train() skip the score
               statistics; every wrapper also STARTS with eval_stats True or False, assigned after construction.  The model has
               no such field: the event is not handed to the model, counters / schedule / answers must not depend on it)
  group        (red team round 6) 2..8 requests that OVERLAP in time: each in its own thread (plain threads calling
               problem.surrogate.evaluate / Job.evaluate, or the joblib workers of Algorithm.evaluate with max_processes = k), the
               objective is a gate: all of them are inside the objective at the same time and are let out ONE AT A TIME, each request
               returning completely before the next one is released.  The model sees the group as the sequential history it is
               (answered requests in order of entry, then the evaluated ones in order of release; pass-through: order of entry)
optionally preceded by a warm-up segment of the same kind that is run on the real objects only; the
model run then STARTS FROM THE SNAPSHOT of the real wrappers (counters advanced, training set seeded:
len(x_data) != eval_counter), not from a fresh wrapper.

Subjects:
  eval      SurrogateModelEval (the default pass-through wrapper of every Problem)
  scikit    SurrogateModelScikit with a stub regressor: the real evaluate / evaluate_individual /
            train() code runs, only regressor.fit / score / predict are scripted and recorded
  scripted  a minimal SurrogateModelPredict subclass whose train() sets `trained` from a script
            (also to False), so that trained -> untrained transitions are exercised
The objective, the predict hook and the regressor are scripted by the harness and record the
wrapper's counters at the moment they are called (per wrapper object).
"""
from harness.core import fl, zl, nl, bl, ll, pl, optl

PROP = "C19"
THEOREMS = {"Artap.Props.C19": [
    "C19_sequence_is_steps", "C19_passthrough_exact", "C19_prediction_only_if_trained_and_hook",
    "C19_true_eval_once_unchanged_counted_recorded", "C19_retrain_step", "C19_retrain_condition",
    "C19_retrain_schedule", "C19_never_retrained_for_minus_one", "C19_sequence_accounting",
    "C19_sequence_answers", "C19_counters_add_up", "C19_data_aligned",
    "C19_read_from_data_store", "C19_user_train", "C19_decisions_independent_of_training_set",
    "C19_seeding_changes_only_training_set", "C19_session_event_current", "C19_session_use",
    "C19_session_request", "C19_session_other_events"]}
AXIOMS_OK = []          # the theorems are closed under the global context
# second tie to the code (tools/py2coq.py + coq/theories/GenProofs), two specs translated on every run and proved equal to the model:
# SurrogateGuardGen (guard mode): the tests that enclose `self.train()` in SurrogateModelPredict.evaluate_individual = the model's
# retrain condition; SurrogateEvalGen: the whole of SurrogateModelPredict.evaluate (prediction counter, order of the hook /
# evaluate_individual calls, the answer) = Model/Surrogate.v predict_evaluate
from harness.core import translated_specs
TRANSLATED = translated_specs("SurrogateGuardGen", "SurrogateEvalGen")
TRUSTED = [
    "Coq 8.16.1 kernel, vm_compute for model evaluation (no native_compute)",
    "hand-written model Model/Surrogate.v tied to surrogate.py / surrogate_scikit.py by this correspondence run",
    "vectors and objective values are opaque to the wrapper (abstract types V, C); in the driver they are float lists compared bit for bit "
    "(PrimFloat primitives appear only in the driver's equality test, not under the theorems)",
    "train() is an oracle: what `trained` is after the k-th call is observed on the implementation and given to the model as a tape; "
    "the theorems hold for every such oracle",
    "the objective, the predict hook and the regressor (fit/score/predict) are scripted by the harness",
    "the starting state of a model run is the state observed on the real wrapper objects (fresh, or a snapshot after a warm-up segment)",
]
ASSUMPTIONS = [
    "the objective and the predict hook do not raise and do not modify the surrogate (the hook of test_surrogate_function.py that "
    "rescales train_step is covered only in the sense that the per-request theorems hold from every state and for every train_step)",
    "problem.surrogate is the wrapper being called (the code increments problem.surrogate.predict_counter, not self.predict_counter); "
    "Job.evaluate always goes through problem.surrogate, and so do the sessions (also after problem.surrogate was reassigned)",
    "train_step is an integer; train_step = 0 makes `eval_counter % train_step` raise ZeroDivisionError after the evaluation has been "
    "counted and recorded (modelled as outcome Raised; the 'returned unchanged' clause is stated for train_step <> 0)",
    "regressor.fit/score do not raise (an exception inside train() propagates out of evaluate after counting and recording; not modelled)",
    "between requests the user only calls read_from_data_store() / train() or assigns train_step / trained / problem.surrogate; "
    "x_data / y_data / the counters are not edited by hand (the per-request theorems hold from every state nevertheless)",
    "requests that overlap in time (threads sharing problem.surrogate) overlap inside the objective call only: the wrapper's own statements "
    "before and after it are executed by one thread at a time (the gated groups of the overlap stream, read as the sequential history in "
    "release order); races between those statements under free-running threads are not modelled",
]

HEADER = ("From Artap Require Import Run.C19Run.\nFrom Coq Require Import List ZArith Floats.\nImport ListNotations.\n"
          "Open Scope float_scope.\n")

VGRID = [0.0, 1.0, 2.0, 3.0, 0.5, -1.0, 2.5, 1e-9, -0.0, 1e300, 0.1, 0.30000000000000004]
CGRID = [0.0, 1.0, 2.0, -3.0, 0.5, 7.25, 1e-300, -0.0, 0.1, 0.2, 0.30000000000000004, 123456.789]
TRAIN_STEPS = [-1, -1, 1, 1, 2, 2, 3, 3, 4, 5, 5, 7, 10, 10, 13, 25, 60, 100, 0, -2, -3, -5]
SCORES = [0.0, 0.3, 0.5, 0.9, 1.0, -1.0]


def is_fvec(v):
    return type(v) in (list, tuple) and all(type(x) in (int, float) for x in v)


# ---- hook answers of every shape the code accepts ------------------------------------------------------------------
# In a case (JSON) a hook answer is None (the hook declines), a list of numbers (a Python list of floats, non-finite
# entries written "nan" / "inf" / "-inf"), or a descriptor {"t": kind, "v": [numbers]}:
#   scalar  a Python float            npscalar  numpy.float64          tuple   a Python tuple of floats
#   np0     0-d numpy array           np1       1-d numpy array        np2     numpy array of shape (1, len(v))
#   npcol   numpy array of shape (len(v), 1)                           listnp  a list of numpy.float64
#   intlist a list of Python ints
# For the model the answer is an opaque value that is returned unchanged: every object is described by a list of floats
# (enc_obj: plain lists of floats as they are, everything else as [MAGIC, kind code, shape..., values...]) and the object
# the implementation returns is described the same way, so a change of type, shape or of a single bit (NaN = NaN) shows.
MAGIC = 9.87654321e+200
KIND_CODE = {"scalar": 1.0, "npscalar": 2.0, "np0": 3.0, "np1": 3.0, "np2": 3.0, "npcol": 3.0, "tuple": 5.0, "listnp": 6.0, "intlist": 7.0}
NONFINITE = {"nan": float("nan"), "inf": float("inf"), "-inf": float("-inf")}


def jv(x):
    """a float as it is written in a case: non-finite values as strings (the cases are stored as strict JSON)"""
    x = float(x)
    return x if x == x and abs(x) != float("inf") else ("nan" if x != x else "inf" if x > 0 else "-inf")


def unjv(x):
    return NONFINITE[x] if isinstance(x, str) else x


def build_answer(h):
    """the Python object the hook returns for the description h"""
    import numpy as np
    if h is None:
        return None
    if isinstance(h, list):
        return [unjv(x) for x in h]
    v = [unjv(x) for x in h["v"]]
    t = h["t"]
    if t == "scalar":
        return float(v[0])
    if t == "npscalar":
        return np.float64(v[0])
    if t == "tuple":
        return tuple(v)
    if t == "np0":
        return np.array(v[0])
    if t == "np1":
        return np.array(v, dtype=float)
    if t == "np2":
        return np.array([v], dtype=float)
    if t == "npcol":
        return np.array([[x] for x in v], dtype=float)
    if t == "listnp":
        return [np.float64(x) for x in v]
    if t == "intlist":
        return [int(x) for x in v]
    raise ValueError(t)


def answer_iterable(h):
    """can Individual.calc_signed_costs (map over the costs) digest the answer? (requests through Job.evaluate)"""
    return h is None or isinstance(h, list) or h["t"] in ("tuple", "np1", "np2", "npcol", "listnp", "intlist")


def describe(o):
    """type- and bit-exact description of an object as a list of floats, or None when it is none of the known kinds"""
    import numpy as np
    t = type(o)
    if t is list and all(type(x) is float for x in o):
        return [float(x) for x in o]
    if t is float:
        return [MAGIC, 1.0, o]
    if t is np.float64:
        return [MAGIC, 2.0, float(o)]
    if t is np.ndarray and o.dtype == np.float64 and o.ndim <= 2:
        return [MAGIC, 3.0, float(o.ndim)] + [float(d) for d in o.shape] + [float(x) for x in o.ravel()]
    if t is tuple and all(type(x) is float for x in o):
        return [MAGIC, 5.0] + [float(x) for x in o]
    if t is list and o and all(type(x) is np.float64 for x in o):
        return [MAGIC, 6.0] + [float(x) for x in o]
    if t is list and o and all(type(x) is int for x in o):
        return [MAGIC, 7.0] + [float(x) for x in o]
    if t in (list, tuple) and all(type(x) in (int, float) for x in o):      # mixed ints and floats (vectors of the corpus)
        return [float(x) for x in o]
    return None


def enc_vec(v):
    d = describe(v)
    return ll(d, fl) if d is not None else "[nan; nan; nan; nan; nan; nan; nan]"     # unknown kind: cannot equal any model value


def ykeys(l):
    return [vkey(y) for y in l]


def jdesc(o):
    """JSON-able description of a returned object for the evidence"""
    if o is None:
        return None
    if type(o) is list and all(type(x) is float for x in o):
        return [jv(x) for x in o]
    return {"type": "%s.%s" % (type(o).__module__, type(o).__name__), "repr": repr(o)}


def vkey(o):
    """the VALUE of an answer, whatever container it comes in: the bit patterns of its numbers in order (NaN = NaN)"""
    import numpy as np
    if o is None:
        return ("none",)
    try:
        return tuple("nan" if x != x else float(x).hex() for x in np.ravel(np.asarray(o, dtype=float)))
    except Exception:
        return ("unreadable", repr(o))


def dkey(o):
    """an object "unchanged": type, shape and bit patterns (describe), NaN = NaN; unknown kinds by their repr"""
    d = describe(o)
    if d is None:
        return ("unknown kind", "%s.%s" % (type(o).__module__, type(o).__name__), repr(o))
    return tuple("nan" if x != x else float(x).hex() for x in d)


def enc_n3(t):
    return pl(nl(t[0]), nl(t[1]), nl(t[2]))


def enc_vnn(t):
    return pl(enc_vec(t[0]), nl(t[1]), nl(t[2]))


SEED_STATES = ["EVALUATED", "EVALUATED", "EVALUATED", "EVALUATED", "EMPTY", "IN_PROGRESS", "FAILED"]
SESSION_STEPS = [-1, 1, 2, 2, 3, 3, 4, 5, 5, 7, 10, 0, -2, -3]


IND_STATES = ["EMPTY", "IN_PROGRESS", "EVALUATED", "EVALUATED", "FAILED"]
STALE = [[-555.5], [-555.5, 444.25], [], [0.0], ["nan"]]


def gen_presentation(rng, via_ok):
    """How the Individual object of a request looks when it is handed to the wrapper (red team round 3): the model's request is
    (vector, hook answer, objective value) and NOTHING else, so state, old costs, the identity of the object and the path it took
    before must not matter.  {"ind": fresh | reuse (the object of the previous request of the case, `vector` assigned anew),
    "state": forced state, "stale": costs left on the object, "via": job | direct (overrides the case's default)}"""
    o = {"ind": rng.choice(["fresh", "reuse", "reuse"])}
    if rng.random() < 0.75:
        o["state"] = rng.choice(IND_STATES)
        if o["state"] == "EVALUATED" or rng.random() < 0.3:
            o["stale"] = rng.choice(STALE)
    if via_ok and rng.random() < 0.4:
        o["via"] = rng.choice(["job", "direct"])
    return o


def gen_true(rng, m):
    """an objective VALUE of one of the shapes the unchanged code hands through (it never looks at it): see gen_answer"""
    h = gen_answer(rng, m, p_special=0.25, p_falsy=0.1, p_nan=0.1)
    return h


def gen_requests(rng, n, dim, m, p_accept, p_exotic=0.0, p_pres=0.0, p_tshape=0.0, via_ok=False):
    pool = [[rng.choice(VGRID) for _ in range(dim)] for _ in range(max(2, n // 3))]
    reqs = []
    for _ in range(n):
        vec = list(rng.choice(pool)) if rng.random() < 0.4 else [rng.choice(VGRID) for _ in range(dim)]
        true = [rng.choice(CGRID) for _ in range(m)]
        hook = None
        if rng.random() < p_accept:
            r = rng.random()
            hook = [] if r < 0.05 else [0.0] * m if r < 0.12 else list(true) if r < 0.2 else [rng.choice(CGRID) + 1000.0 for _ in range(m)]
            if rng.random() < p_exotic:
                hook = gen_answer(rng, m)
        if p_tshape and rng.random() < p_tshape:
            true = gen_true(rng, m)
        ev = ["req", vec, hook, true]
        if p_pres and rng.random() < p_pres:
            ev.append(gen_presentation(rng, via_ok and answer_iterable(hook) and answer_iterable(true)))
        reqs.append(ev)
    return reqs


SPECIAL = [float("nan"), float("inf"), float("-inf"), 0.0, -0.0, 1e308, -1.7976931348623157e308, 5e-324, 1e-300, 2.0 ** 53, 1000.5]


def gen_answer(rng, m, p_special=0.6, p_falsy=0.25, p_nan=0.3):
    """a hook answer of one of the shapes the wrapper accepts (it only tests `is not None`): containers of every kind, falsy values,
    NaN / infinities / huge values inside them"""
    def val():
        return rng.choice(SPECIAL) if rng.random() < p_special else rng.choice(CGRID) + 1000.0
    t = rng.choice(["list", "list", "list", "scalar", "npscalar", "np0", "np1", "np1", "np2", "npcol", "tuple", "listnp", "intlist"])
    k = rng.choice([m, m, m, 1, 2, 3, 0]) if t in ("list", "np1", "np2", "npcol", "tuple") else (1 if t in ("scalar", "npscalar", "np0") else rng.choice([1, m, 2]))
    r = rng.random()
    if r < p_falsy:
        v = [0.0] * k                                               # falsy: 0.0, [], array([0.]), [0], (0.0,) ...
    elif r < p_falsy + p_nan:
        v = [val() for _ in range(k)]
        if k:
            v[rng.randrange(k)] = float("nan")                      # a NaN somewhere
    else:
        v = [val() for _ in range(k)]
    if t == "intlist":
        v = [float(rng.choice([0, 0, 1, -3, 10 ** 6])) for _ in range(k)]
    if t == "list":
        return [jv(x) for x in v]
    return {"t": t, "v": [jv(x) for x in v]}


def gen_slot(rng, subject, ts, trained0, n, p_train_ok):
    return {"subject": subject, "train_step": ts, "trained0": trained0, "eval_stats0": rng.choice([True, False, False]),
            "train_script": [rng.random() < p_train_ok for _ in range(n + 1)],
            "scores": [rng.choice(SCORES) for _ in range(n + 1)]}


def gen_plain(rng):
    """One wrapper, fresh state, requests only (the stream of the first version of this check)."""
    subject = rng.choice(["eval", "scikit", "scikit", "scikit", "scripted", "scripted"])
    ts = rng.choice(TRAIN_STEPS)
    n = rng.choice([1, 2, 3, 5, 8, 12, 20, 30, 45, 60]) if rng.random() < 0.5 else rng.randint(1, 60)
    p_accept = rng.choice([0.0, 0.3, 0.5, 0.8, 1.0])
    p_train_ok = rng.choice([1.0, 1.0, 0.7, 0.3])
    dim = rng.choice([1, 1, 2, 3])
    m = rng.choice([1, 1, 2])
    p_exotic = rng.choice([0.0, 0.0, 0.3, 0.7])
    p_pres = rng.choice([0.0, 0.3, 0.7, 1.0])
    p_tshape = rng.choice([0.0, 0.0, 0.3, 0.7])
    events = gen_requests(rng, n, dim, m, p_accept, p_exotic, p_pres, p_tshape, via_ok=ts != 0)
    if rng.random() < 0.5:                           # eval_stats switched in the middle of the stream
        for _ in range(rng.choice([1, 1, 2, 3, 5])):
            events.insert(rng.randint(0, len(events)), ["set_stats", rng.random() < 0.4])
    return {"stream": "plain", "has_hook": rng.random() < 0.8,
            "via_job": ts != 0 and rng.random() < 0.4 and all(answer_iterable(e[2]) and answer_iterable(e[3]) for e in events if e[0] == "req"),
            "cur": 0, "slots": [gen_slot(rng, subject, ts, rng.random() < (0.2 if p_exotic == 0.0 else 0.6), n, p_train_ok)],
            "warmup": [], "events": events}


def gen_seed(rng, dim, m, previous):
    """problem.individuals at the moment of a read_from_data_store() call: sometimes the list of the
    previous call again (plus new ones): the code then copies the same individuals a second time."""
    inds = [list(i) for i in previous] if previous and rng.random() < 0.3 else []
    for _ in range(rng.choice([0, 1, 1, 2, 3, 3, 4, 5, 7, 9])):
        st = rng.choice(SEED_STATES)
        vec = [rng.choice(VGRID) for _ in range(dim)]
        costs = [rng.choice(CGRID) for _ in range(m)] if st == "EVALUATED" else []
        inds.append([vec, costs, st])
    return inds


def gen_session(rng):
    """Requests interleaved with seeding, user train() calls, assignments of train_step / trained /
    problem.surrogate, over 1..3 wrapper objects; optionally split into warm-up + observed part."""
    n_slots = rng.choice([1, 1, 2, 2, 3])
    n = rng.choice([4, 6, 8, 12, 16, 24, 32, 40])
    dim = rng.choice([1, 1, 2])
    m = rng.choice([1, 1, 2])
    p_accept = rng.choice([0.0, 0.0, 0.3, 0.5, 0.8])
    p_train_ok = rng.choice([1.0, 1.0, 0.7, 0.3])
    p_exotic = rng.choice([0.0, 0.0, 0.3, 0.7])
    p_pres = rng.choice([0.0, 0.3, 0.7, 1.0])
    p_tshape = rng.choice([0.0, 0.0, 0.3, 0.7])
    subjects = [rng.choice(["scikit", "scikit", "scripted", "scripted", "eval"]) for _ in range(n_slots)]
    if all(x == "eval" for x in subjects):
        subjects[-1] = "scikit"
    slots = [gen_slot(rng, sub, rng.choice(SESSION_STEPS), rng.random() < 0.3, n, p_train_ok) for sub in subjects]
    cur = rng.randrange(n_slots)
    events, last_seed, c = [], [], cur
    if rng.random() < 0.5:                           # the workflow of the docs: DoE first, then a seeded predicting wrapper
        pred = [k for k, x in enumerate(subjects) if x != "eval"]
        if subjects[c] == "eval":
            c = rng.choice(pred)
            if c != cur and rng.random() < 0.7:
                events += gen_requests(rng, rng.randint(0, 4), dim, m, p_accept, p_exotic, p_pres, p_tshape, via_ok=True)
            events.append(["use", c])
        last_seed = gen_seed(rng, dim, m, [])
        events.append(["seed", last_seed])
    reqs = gen_requests(rng, n, dim, m, p_accept, p_exotic, p_pres, p_tshape, via_ok=True)
    for r in reqs:
        while rng.random() < 0.22:
            u = rng.random()
            if u < 0.22:
                last_seed = gen_seed(rng, dim, m, last_seed)
                events.append(["seed", last_seed])
            elif u < 0.42:
                events.append(["train"])
            elif u < 0.62 and subjects[c] != "eval":
                events.append(["set_step", rng.choice(SESSION_STEPS)])
            elif u < 0.74:
                events.append(["set_trained", rng.random() < 0.6])
            elif u < 0.86:
                events.append(["set_stats", rng.random() < 0.4])
            elif n_slots > 1:
                c = rng.choice([k for k in range(n_slots) if k != c])
                events.append(["use", c])
        events.append(r)
    cut = rng.randint(1, max(1, len(events) // 2)) if rng.random() < 0.4 else 0
    has_zero = any(sl["train_step"] == 0 for sl in slots) or any(e[0] == "set_step" and e[1] == 0 for e in events)
    if has_zero:                                     # train_step 0 raises after counting: only direct requests then
        for e in events:
            if e[0] == "req" and len(e) > 4:
                e[4].pop("via", None)
    return {"stream": "session", "has_hook": rng.random() < 0.85,
            "via_job": (not has_zero) and rng.random() < 0.3 and all(answer_iterable(e[2]) and answer_iterable(e[3]) for e in events if e[0] == "req"), "cur": cur,
            "slots": slots, "warmup": events[:cut], "events": events[cut:]}


OVERLAP_STEPS = [-1, -1, 1, 2, 2, 3, 3, 5, 5, 4, 7]
OVERLAP_MODES = ["threads", "threads", "threads", "threads", "job_threads", "job_threads", "joblib", "joblib", "joblib"]


def overlap_consistent(case):
    """Generator aid for the overlap stream (not an oracle).  A gated group is read as a sequential history: the requests that were
    answered by a prediction when they entered, then the evaluated ones in the order of their release.  The two coincide when the
    decision taken at entry (hook consulted or not) is the one the sequential history takes, i.e. when `trained` is the same at every
    release as it was when the group entered, or the problem has no hook.  This walks through the case with the bookkeeping of the
    property text and says whether that is so; in a joblib group (free-running workers before the gate) no request may be answered
    by a prediction: the hook answers of such a group are turned into declines where they would be used."""
    slots = [{"subject": sl["subject"], "trained": True if sl["subject"] == "eval" else sl["trained0"], "ec": 0, "ts": sl["train_step"],
              "script": sl["train_script"], "n": 0} for sl in case["slots"]]
    cur = case["cur"]
    hook = case["has_hook"]

    def train(w):
        if w["subject"] == "scikit":
            w["trained"] = True
        elif w["subject"] == "scripted":
            w["trained"] = w["script"][w["n"]] if w["n"] < len(w["script"]) else True
            w["n"] += 1

    def evaluated(w):
        w["ec"] += 1
        if w["subject"] != "eval" and w["ts"] != -1 and w["ec"] % w["ts"] == 0:
            train(w)

    def request(w, r):
        if w["subject"] == "eval" or not (w["trained"] and hook and r[2] is not None):
            evaluated(w)

    ok = True
    for pos, ev in enumerate(case["warmup"] + case["events"]):
        if pos == len(case["warmup"]):
            for w in slots:
                w["n"] = 0                       # the recorders (and with them the position in the train() script) start anew
        w = slots[cur]
        k = ev[0]
        if k == "req":
            request(w, ev)
        elif k == "train":
            train(w)
        elif k == "set_step":
            if w["subject"] != "eval":
                w["ts"] = ev[1]
        elif k == "set_trained":
            w["trained"] = ev[1]
        elif k == "use":
            cur = ev[1]
        elif k == "group":
            if w["subject"] == "eval":
                w["ec"] += len(ev[1]["reqs"])
                continue
            t0 = w["trained"]
            if ev[1]["mode"] == "joblib" and t0 and hook:
                for r in ev[1]["reqs"]:
                    r[2] = None
            for j in ev[1]["release"]:
                r = ev[1]["reqs"][j]
                if t0 and hook and r[2] is not None:
                    continue                     # answered at entry
                if hook and w["trained"] != t0:
                    ok = False
                evaluated(w)
    return ok


def gen_overlap(rng):
    """Requests that overlap in time (red team round 6): sequential history, a group of 2..8 requests that are inside the objective at
    the same time and are let out one by one, more sequential history, up to three groups; see Group in run()."""
    case = None
    for _ in range(40):
        case = gen_overlap_once(rng)
        if overlap_consistent(case):
            return case
    case["has_hook"] = False
    overlap_consistent(case)
    return case


def gen_overlap_once(rng):
    n_slots = rng.choice([1, 1, 1, 2])
    subjects = [rng.choice(["scikit", "scikit", "scripted", "scripted", "scripted", "eval"]) for _ in range(n_slots)]
    dim = rng.choice([1, 1, 2])
    m = rng.choice([1, 1, 2])
    p_accept = rng.choice([0.0, 0.0, 0.3, 0.6, 1.0])
    kind = rng.choice(["true", "true", "false", "blocks"])
    slots = []
    for sub in subjects:
        sl = gen_slot(rng, sub, rng.choice(OVERLAP_STEPS), rng.random() < 0.5, 10, 1.0)
        sl["train_script"] = [True] * 150 if kind == "true" else [False] * 150 if kind == "false" else [(j // 4) % 2 == 0 for j in range(150)]
        sl["scores"] = [rng.choice(SCORES) for _ in range(150)]
        slots.append(sl)
    cur = rng.randrange(n_slots)
    c = cur
    events, last_seed = [], []

    def filler(n):
        nonlocal c, last_seed
        for r in gen_requests(rng, n, dim, m, p_accept, p_pres=rng.choice([0.0, 0.0, 0.5]), via_ok=True):
            if rng.random() < 0.15:
                u = rng.random()
                if u < 0.2:
                    last_seed = gen_seed(rng, dim, m, last_seed)
                    events.append(["seed", last_seed])
                elif u < 0.4:
                    events.append(["train"])
                elif u < 0.6 and subjects[c] != "eval":
                    events.append(["set_step", rng.choice(OVERLAP_STEPS)])
                elif u < 0.7:
                    events.append(["set_trained", rng.random() < 0.6])
                elif u < 0.8:
                    events.append(["set_stats", rng.random() < 0.4])
                elif n_slots > 1:
                    c = 1 - c
                    events.append(["use", c])
            events.append(r)

    filler(rng.choice([0, 0, 1, 2, 3, 5, 8, 13]))
    for gi in range(rng.choice([1, 1, 1, 2, 2, 3])):
        k = rng.randint(2, 8)
        mode = rng.choice(OVERLAP_MODES)
        if subjects[c] == "eval" and mode == "joblib":
            mode = "threads"                     # the pass-through wrapper counts BEFORE the gate: only with an ordered entry
        reqs = gen_requests(rng, k, dim, m, p_accept)
        for i, r in enumerate(reqs):
            r[3] = [100.0 * (gi + 1) + i] + [rng.choice(CGRID) for _ in range(m - 1)]
        release = list(range(k))
        u = rng.random()
        if u < 0.5:
            rng.shuffle(release)
        elif u < 0.7:
            release.reverse()
        events.append(["group", {"mode": mode, "reqs": reqs, "release": release}])
        filler(rng.choice([0, 1, 2, 3, 5, 8]))
    cut = rng.randint(1, len(events) - 1) if len(events) > 1 and rng.random() < 0.3 else 0
    return {"stream": "overlap", "has_hook": rng.random() < 0.8, "via_job": False, "cur": cur, "slots": slots,
            "warmup": events[:cut], "events": events[cut:]}


def run(ctx):
    from artap.problem import Problem
    from artap.individual import Individual
    from artap.job import Job
    from artap.surrogate import SurrogateModelEval, SurrogateModelPredict
    from artap.surrogate_scikit import SurrogateModelScikit

    class Rec:
        """What the scripted collaborators see when called through one wrapper object, in call order."""
        def __init__(self):
            self.obj, self.hook, self.train, self.fit, self.score, self.tape, self.answers = [], [], [], [], [], [], []

    class BaseProblem(Problem):
        def set(self, **kwargs):
            self.name = "c19"
            self.parameters = [{'name': 'x%d' % i, 'initial_value': 0.0, 'bounds': [-10, 10]} for i in range(3)]
            self.costs = [{'name': 'F1'}, {'name': 'F2'}]
            self.current = None
            self.group = None
            self.n_obj = 0

        def evaluate(self, individual):
            if self.group is not None:
                return self.group.objective(individual)
            s = self.surrogate
            self.n_obj += 1
            s.rec.obj.append((list(individual.vector), len(s.x_data), s.eval_counter))
            return build_answer(self.current[3])            # a new object per call, of the scripted type and shape

    class HookProblem(BaseProblem):
        def predict(self, individual):
            if self.group is not None:
                return self.group.hook(individual)
            s = self.surrogate
            s.rec.hook.append((list(individual.vector), s.eval_counter, s.predict_counter))
            h = build_answer(self.current[2])
            s.rec.answers.append(h)
            return h

    class StubRegressor:
        def __init__(self, sur, scores):
            self.sur, self.scores = sur, list(scores)

        def fit(self, X, y):
            self.sur.rec.fit.append((self.sur.eval_counter, [list(v) if is_fvec(v) else v for v in X], [list(v) if is_fvec(v) else v for v in y]))
            return self

        def score(self, X, y):
            self.sur.rec.score.append(len(X))
            return self.scores.pop(0) if self.scores else 1.0

        def predict(self, X, return_std=False):
            raise AssertionError("the wrapper itself must not call regressor.predict")

    class ObsScikit(SurrogateModelScikit):
        def train(self):
            rec = self.rec
            rec.train.append((self.eval_counter, len(self.x_data), len(self.y_data)))
            super().train()
            rec.tape.append(bool(self.trained))

    class Scripted(SurrogateModelPredict):
        train_step = 10
        script = ()

        def predict(self, x, *args):
            raise AssertionError("not used")

        def train(self):
            rec = self.rec
            rec.train.append((self.eval_counter, len(self.x_data), len(self.y_data)))
            self.trained = self.script[len(rec.tape)] if len(rec.tape) < len(self.script) else True
            rec.tape.append(bool(self.trained))

    class Group:
        """Requests that OVERLAP in time (red team round 6): every request of the group runs in its own thread (plain threads or the
        worker threads of artap's own Evaluator.evaluate_parallel), the objective is a gate: a request that reaches the objective
        blocks there until the scheduler (the harness thread) releases it, and the scheduler releases ONE request at a time and waits
        until it has returned completely.  Nothing is left to thread timing: before the gate the requests enter one after the other
        (plain threads) or only read (joblib workers: groups without predictions), after the gate one request runs alone."""
        def __init__(self, problem, reqs, inds):
            self.problem, self.reqs, self.inds = problem, reqs, inds
            self.cv = threading.Condition()
            self.index = {id(ind): i for i, ind in enumerate(inds)}
            k = len(reqs)
            self.phase = ["new"] * k                  # new -> blocked -> running -> done   /   new -> done (no objective call)
            self.released = [False] * k
            self.obj_calls, self.hook_calls = [0] * k, [0] * k
            self.pending_hook = [False] * k
            self.hook_answer, self.true_obj = [None] * k, [None] * k
            self.timed_out = False

        def wait_for(self, pred):
            with self.cv:
                if not self.cv.wait_for(pred, GATE_TIMEOUT):
                    self.timed_out = True
                    return False
            return True

        def open_all(self):
            with self.cv:
                self.released = [True] * len(self.released)
                self.cv.notify_all()

        def done(self, i):
            with self.cv:
                self.phase[i] = "done"
                self.cv.notify_all()

        def hook(self, individual):
            i = self.index[id(individual)]
            s = self.problem.surrogate
            self.hook_calls[i] += 1
            h = build_answer(self.reqs[i][2])
            if h is None:
                self.pending_hook[i] = True          # logged when the request is released: the history is read in release order
            else:
                s.rec.hook.append((list(individual.vector), s.eval_counter, s.predict_counter))
                s.rec.answers.append(h)
                self.hook_answer[i] = h
            return h

        def objective(self, individual):
            i = self.index[id(individual)]
            p = self.problem
            s = p.surrogate
            vec = list(individual.vector)
            with self.cv:
                self.obj_calls[i] += 1
                p.n_obj += 1
                if s.c19_subject == "eval":          # the pass-through wrapper counts before the call: history in order of entry
                    s.rec.obj.append((vec, len(s.x_data), s.eval_counter))
                self.phase[i] = "blocked"
                self.cv.notify_all()
                if not self.cv.wait_for(lambda: self.released[i], GATE_TIMEOUT):
                    self.timed_out = True
                # from here to the end of the request this thread is the only one that runs
                if self.pending_hook[i]:
                    self.pending_hook[i] = False
                    s.rec.hook.append((vec, s.eval_counter, s.predict_counter))
                    s.rec.answers.append(None)
                if s.c19_subject != "eval":
                    s.rec.obj.append((vec, len(s.x_data), s.eval_counter))
                self.phase[i] = "running"
            v = build_answer(self.reqs[i][3])
            self.true_obj[i] = v
            return v

    import logging
    import threading
    import contextlib
    import io
    from artap.algorithm import DummyAlgorithm
    GATE_TIMEOUT = 1800.0                            # the machine may be heavily loaded; nothing here depends on how long a step takes
    problems = {True: HookProblem(), False: BaseProblem()}
    for p in problems.values():
        p.logger.setLevel(logging.CRITICAL)

    # how often a quantity that coincides with eval_counter on a fresh wrapper would have led to a
    # different retrain decision (`q % train_step == 0`) than eval_counter did
    SEP = ["len_x_data", "requests_to_wrapper", "predict_counter", "counter_before_increment",
           "objective_calls_on_problem", "evaluations_since_last_train_call", "evaluations_since_start_of_case"]
    pres = {k: 0 for k in ("fresh", "reuse", "state EMPTY", "state IN_PROGRESS", "state EVALUATED", "state FAILED", "via job", "direct",
                           "direct, EVALUATED, costs differ from the true value")}
    truekinds = {}
    stats = {k: 0 for k in ("set_stats events", "requests with eval_stats on", "requests with eval_stats off", "true evaluations with eval_stats off",
                            "train() calls with eval_stats off", "wrappers starting with eval_stats off")}
    ov = {"groups": 0, "requests_in_groups": 0, "predicted_in_groups": 0, "by_mode": {}, "by_size": {}, "by_subject": {}, "by_train_step": {},
          "requests_inside_the_objective_at_once": {}, "groups_after_n_earlier_requests": {"0": 0, "1-5": 0, "6+": 0},
          "retrain_decisions_in_groups": 0, "trainings_in_groups": 0}
    sep = {"retrain_decisions": 0, "len_x_data_differs_from_eval_counter": 0, "cases_with_such_a_decision": 0,
           "trains_with_len_x_data_differing": 0,
           "quantity_differs": {k: 0 for k in SEP}, "decision_would_differ": {k: 0 for k in SEP}}

    def fail(what, case, pos, **kw):
        seg, i = pos
        evs = case["warmup"] + case["events"]
        upto = (i if seg == "warmup" else len(case["warmup"]) + i) + 1 if i is not None else len(evs)
        d = {"what": what, "input": {"has_hook": case["has_hook"], "via_job": case["via_job"], "cur": case["cur"],
                                     "wrappers": [{k: sl.get(k, True) for k in ("subject", "train_step", "trained0", "eval_stats0")} for sl in case["slots"]],
                                     "event_index": upto - 1, "events": evs[:upto]},
             "match": {"kind": "surrogate_sequence", "subject": kw.get("subject"), "train_step": kw.get("train_step"), "clause": kw.get("clause", what)}}
        d["input"].update({k: v for k, v in kw.items() if k not in ("clause", "subject", "train_step")})
        if len(ctx.oracle_failures) < 50:
            ctx.oracle_failures.append(d)

    def implementation(case):
        """Runs the case on artap; returns the observation and applies the direct oracle event by event."""
        problem = problems[case["has_hook"]]
        problem.individuals = []
        problem.n_obj = 0
        wrappers, acct = [], []
        stats_off = any(not sl.get("eval_stats0", True) for sl in case["slots"]) or any(e[0] == "set_stats" for e in case["warmup"] + case["events"])
        for sl in case["slots"]:
            subject, ts = sl["subject"], sl["train_step"]
            if subject == "eval":
                sur = SurrogateModelEval(problem)
            elif subject == "scikit":
                sur = ObsScikit(problem)
                sur.regressor = StubRegressor(sur, sl["scores"])
                sur.train_step = ts
            else:
                sur = Scripted(problem)
                sur.script = list(sl["train_script"])
                sur.regressor = object()
                sur.train_step = ts
            if subject != "eval":
                sur.trained = sl["trained0"]
            # red team round 5: the switch is assigned after construction (there is no constructor argument) and again by set_stats
            # events.  Unchanged code: only SurrogateModelScikit.train / SurrogateModelSMT.train read it (score statistics skipped).
            sur.eval_stats = sl.get("eval_stats0", True)
            if subject == "scikit" and stats_off:
                sur.score = 0.75        # a score left by an earlier training: with score None, train() of the unchanged code raises
                                        # TypeError (`None >= score_threshold`) when the statistics are off - outside the property
            sur.rec = Rec()
            sur.c19_subject = subject
            wrappers.append(sur)
            acct.append({"requests": 0, "want_x": [], "want_y": [], "ec_last_train": 0, "ec_case_start": 0})
        problem.surrogate = wrappers[case["cur"]]
        job = Job(problem)
        rets = []
        case_flag = {"hit": False}
        last = {"ind": None}

        def state_of(w):
            return (bool(w.trained), w.eval_counter, w.predict_counter, list(w.x_data), [vkey(y) for y in w.y_data],
                    len(w.rec.obj), len(w.rec.hook), len(w.rec.train), len(w.rec.fit))

        flat = []          # the observed part as the model sees it: a group stands as its requests in the order of the sequential history

        def run_group(seg, pos, ev, sur, a, kw, before):
            """an overlapping group; direct oracle step by step: after the requests have entered, and after every single release"""
            spec = ev[1]
            mode, reqs = spec["mode"], spec["reqs"]
            k = len(reqs)
            subject, ts, rec = sur.c19_subject, getattr(sur, "train_step", None), sur.rec
            inds = [Individual(list(r[1])) for r in reqs]
            g = Group(problem, reqs, inds)
            results, excs = [None] * k, [None] * k
            a["requests"] += k
            ov["groups"] += 1
            ov["by_mode"][mode] = ov["by_mode"].get(mode, 0) + 1
            ov["by_size"][str(k)] = ov["by_size"].get(str(k), 0) + 1
            ov["requests_in_groups"] += k
            ov["by_subject"][subject] = ov["by_subject"].get(subject, 0) + 1
            ov["by_train_step"][str(ts)] = ov["by_train_step"].get(str(ts), 0) + 1
            ov["groups_after_n_earlier_requests"]["0" if a["requests"] == k else "1-5" if a["requests"] - k <= 5 else "6+"] += 1
            t_b, ec_b, pc_b, x_b, y_b, no_b, nh_b, nt_b, nf_b = before

            def gfail(what, clause, **more):
                fail("overlapping requests (%s, %d at once): %s" % (mode, k, what), case, pos, clause=clause, **dict(kw, **more))

            def worker(i):
                try:
                    if mode == "job_threads":
                        job.evaluate(inds[i])
                        results[i] = inds[i].costs
                    else:
                        results[i] = problem.surrogate.evaluate(inds[i])
                except BaseException as e:
                    excs[i] = e
                finally:
                    g.done(i)

            problem.group = g
            threads, driver, restore, crashed = [], None, None, []
            entered = True
            try:
                if mode == "joblib":
                    # artap's own parallel evaluation: Algorithm.evaluate with max_processes = k (joblib threads sharing problem.surrogate)
                    algo = DummyAlgorithm(problem)
                    algo.options['max_processes'] = k
                    algo.options['verbose_level'] = 0
                    store = problem.data_store
                    orig_sync = store.sync_individual

                    def sync(individual, *args, **kwargs):       # the last statement of Job.evaluate: the request has returned
                        try:
                            return orig_sync(individual, *args, **kwargs)
                        finally:
                            if id(individual) in g.index:
                                g.done(g.index[id(individual)])
                    restore = (store, "sync_individual" in vars(store))
                    store.sync_individual = sync

                    def drive():
                        try:
                            with contextlib.redirect_stderr(io.StringIO()):
                                algo.evaluate(inds)
                        except BaseException as e:
                            crashed.append(e)
                        finally:
                            with g.cv:
                                g.cv.notify_all()
                    driver = threading.Thread(target=drive, daemon=True)
                    driver.start()
                    entered = g.wait_for(lambda: crashed or all(ph in ("blocked", "done") for ph in g.phase))
                    if crashed:
                        entered = False
                else:
                    for i in range(k):
                        t = threading.Thread(target=worker, args=(i,), daemon=True)
                        threads.append(t)
                        t.start()
                        if not g.wait_for(lambda: g.phase[i] in ("blocked", "done")):
                            entered = False
                            break
                blocked = [i for i in range(k) if g.phase[i] == "blocked"]
                early = [i for i in range(k) if g.phase[i] == "done"]
                ov["requests_inside_the_objective_at_once"][str(len(blocked))] = ov["requests_inside_the_objective_at_once"].get(str(len(blocked)), 0) + 1
                ov["predicted_in_groups"] += len(early) if subject != "eval" else 0
                if not entered:
                    gfail("the requests did not all reach the objective or return (%r)" % (g.phase,), "request did not return")
                order = []
                if entered:
                    # ---- all requests are inside the objective or have returned: what has happened so far
                    ec, pc = sur.eval_counter, sur.predict_counter
                    if subject == "eval":
                        if ec != ec_b + k or pc != pc_b:
                            gfail("pass-through: %d requests have entered the objective, eval_counter %d->%d predict_counter %d->%d" % (k, ec_b, ec, pc_b, pc),
                                  "passthrough counter")
                        if early:
                            gfail("pass-through: %d requests returned without calling the objective" % len(early), "passthrough objective calls")
                    else:
                        for i in early:
                            h = reqs[i][2]
                            if g.obj_calls[i]:
                                continue
                            if not t_b:
                                gfail("prediction used while the model is not trained (returned %r)" % (results[i],), "prediction while untrained")
                            elif not case["has_hook"] or h is None:
                                gfail("objective not evaluated although the hook gave no value (returned %r)" % (results[i],), "no value and no evaluation")
                            elif excs[i] is None and vkey(results[i]) != vkey(g.hook_answer[i]):
                                gfail("prediction returned %r, hook answered %r" % (results[i], g.hook_answer[i]), "prediction value")
                        if ec != ec_b or pc != pc_b + len(early):
                            gfail("%d requests answered by a prediction, %d waiting inside the objective: eval %d->%d predict %d->%d"
                                  % (len(early), len(blocked), ec_b, ec, pc_b, pc), "prediction counter")
                        if sur.x_data != x_b or ykeys(sur.y_data) != y_b:
                            gfail("training data changed before any objective call has returned", "prediction touches data")
                        if len(rec.train) != nt_b:
                            gfail("train() called before any objective call has returned", "train on prediction")
                    # ---- release one request at a time, each returns completely before the next one is released
                    n_eval = 0
                    for i in [j for j in spec["release"] if j in blocked] + [j for j in blocked if j not in spec["release"]]:
                        ec0, pc0, nt0, nf0 = sur.eval_counter, sur.predict_counter, len(rec.train), len(rec.fit)
                        x0, y0 = list(sur.x_data), ykeys(sur.y_data)
                        with g.cv:
                            g.released[i] = True
                            g.cv.notify_all()
                        if not g.wait_for(lambda: g.phase[i] == "done" or crashed) or g.phase[i] != "done":
                            gfail("released request %d did not return" % i, "request did not return")
                            break
                        order.append(i)
                        n_eval += 1
                        vec, true_obj = reqs[i][1], g.true_obj[i]
                        res = inds[i].costs if mode == "joblib" else results[i]
                        ec, pc = sur.eval_counter, sur.predict_counter
                        if subject == "eval":
                            if (ec, pc) != (ec0, pc0) or sur.x_data != x0 or ykeys(sur.y_data) != y0:
                                gfail("pass-through: a returning request changed counters or data: eval %d->%d" % (ec0, ec), "passthrough counter")
                            if excs[i] is None and dkey(res) != dkey(true_obj):
                                gfail("pass-through: returned %r, true objective value %r" % (res, true_obj), "passthrough value")
                            continue
                        if excs[i] is None and dkey(res) != dkey(true_obj):
                            gfail("true evaluation returned %r, objective value %r" % (res, true_obj), "value changed")
                        if ec != ec0 + 1 or pc != pc0:
                            gfail("true evaluation number %d of the wrapper (the %d. of %d requests that were inside the objective at the same time, the only one "
                                  "running now) not counted exactly once: eval %d->%d predict %d->%d" % (ec_b + n_eval, n_eval, len(blocked), ec0, ec, pc0, pc),
                                  "evaluation counter", counters_before_group={"eval": ec_b, "predict": pc_b})
                        if sur.x_data != x0 + [vec] or ykeys(sur.y_data) != y0 + [vkey(true_obj)]:
                            gfail("(vector, value) not appended exactly once at the end: |x| %d->%d |y| %d->%d" % (len(x0), len(sur.x_data), len(y0), len(sur.y_data)),
                                  "training data append")
                        elif dkey(sur.y_data[-1]) != dkey(true_obj):
                            gfail("the value appended to the training set is %r, the objective value is %r" % (sur.y_data[-1], true_obj), "training value changed")
                        if ts == -1 or (type(ts) is int and ts > 0):
                            number = ec_b + n_eval                     # true evaluations of this wrapper so far (eval_counter was exact before the group)
                            due = ts != -1 and number % ts == 0
                            n_train = len(rec.train) - nt0
                            ov["retrain_decisions_in_groups"] += ts != -1
                            ov["trainings_in_groups"] += n_train
                            if n_train != (1 if due else 0):
                                gfail("train() called %d times at true evaluation number %d (eval_counter %d, training set size %d) with train_step %d (required %d)"
                                      % (n_train, number, ec, len(sur.x_data), ts, 1 if due else 0), "retrain schedule")
                            elif due and subject == "scikit":
                                if len(rec.fit) - nf0 != 1 or rec.fit[-1][1] != sur.x_data or ykeys(rec.fit[-1][2]) != ykeys(sur.y_data):
                                    gfail("train() did not fit the regressor once on the current training set", "fit data")
                            if n_train:
                                a["ec_last_train"] = ec
                        a["want_x"].append(vec)
                        a["want_y"].append(vkey(true_obj))
            finally:
                g.open_all()
                for t in threads:
                    t.join(GATE_TIMEOUT)
                if driver is not None:
                    driver.join(GATE_TIMEOUT)
                if restore is not None:
                    if restore[1]:
                        restore[0].sync_individual = orig_sync
                    else:
                        del restore[0].sync_individual
                problem.group = None
            if g.timed_out:
                gfail("a gate timed out", "request did not return")
            ec, pc = sur.eval_counter, sur.predict_counter
            for i in range(k):
                if g.obj_calls[i] > 1 or (subject == "eval" and g.obj_calls[i] != 1):
                    gfail("objective called %d times for request %d" % (g.obj_calls[i], i), "objective calls")
                if excs[i] is not None:
                    gfail("request %d raised %r" % (i, excs[i]), "unexpected exception")
            if crashed:
                gfail("Algorithm.evaluate raised %r" % (crashed[0],), "unexpected exception")
            if (ec + pc) - (ec_b + pc_b) != k:
                gfail("counters do not add up: eval %d->%d, predict %d->%d for %d requests" % (ec_b, ec, pc_b, pc, k), "counters_add_up")
            if subject != "eval" and ec - ec_b != len(order):
                gfail("%d true evaluations (each request released only after the one before had returned), eval_counter %d->%d, training set %d->%d pairs"
                      % (len(order), ec_b, ec, len(x_b), len(sur.x_data)), "evaluation counter")
            # the sequential history this gated history is: pass-through in order of entry; predicting: the answered requests, then the
            # evaluated ones in the order of their release
            seq = list(range(k)) if subject == "eval" else [i for i in early if i not in order] + order
            seq += [i for i in range(k) if i not in seq]
            if seg == "main":
                for i in seq:
                    flat.append(reqs[i])
                    rets.append(None if excs[i] is not None else (inds[i].costs if mode == "joblib" else results[i]))

        def run_events(seg, events):
            for i, ev in enumerate(events):
                pos = (seg, i)
                sur = problem.surrogate
                k = next(j for j, w in enumerate(wrappers) if w is sur)
                a = acct[k]
                subject = sur.c19_subject
                ts = getattr(sur, "train_step", None)
                kw = {"subject": subject, "train_step": ts}
                rec = sur.rec
                before = state_of(sur)
                others = [(j, state_of(w)) for j, w in enumerate(wrappers) if w is not sur]
                kind = ev[0]
                ret = exc = None
                if kind == "group":
                    run_group(seg, pos, ev, sur, a, kw, before)
                    for j, st in others:
                        if state_of(wrappers[j]) != st:
                            fail("event %r changed wrapper %d, which is not problem.surrogate" % (kind, j), case, pos, clause="other wrapper touched", **kw)
                    continue
                if seg == "main":
                    flat.append(ev)
                if kind == "req":
                    vec, hook, true = ev[1:4]
                    opts = ev[4] if len(ev) > 4 else {}
                    true_obj = build_answer(true)
                    problem.current = ev
                    a["requests"] += 1
                    # the Individual object as the caller presents it: the model's request is (vector, hook answer, true value) only
                    if opts.get("ind") == "reuse" and last["ind"] is not None:
                        ind = last["ind"]
                        ind.vector = list(vec)             # moved to a new point, everything else as the earlier request left it
                    else:
                        ind = Individual(list(vec))
                    if "state" in opts:
                        ind.state = Individual.State[opts["state"]]
                    if "stale" in opts:
                        ind.costs = [unjv(x) for x in opts["stale"]]
                    via = opts.get("via", "job" if case["via_job"] else "direct") == "job"
                    if via and ind.state == Individual.State.EVALUATED:
                        ind.state = Individual.State.EMPTY          # Job.evaluate skips EVALUATED individuals: that is no request
                    last["ind"] = ind
                    pres["reuse" if opts.get("ind") == "reuse" else "fresh"] += 1
                    pres["state " + ind.state.name] += 1
                    pres["via job" if via else "direct"] += 1
                    pres["direct, EVALUATED, costs differ from the true value"] += (not via) and ind.state == Individual.State.EVALUATED and dkey(ind.costs) != dkey(true_obj)
                    tk = "list" if isinstance(true, list) else true["t"]
                    truekinds[tk] = truekinds.get(tk, 0) + 1
                    try:
                        if via:
                            job.evaluate(ind)
                            ret = ind.costs
                        else:
                            ret = problem.surrogate.evaluate(ind)
                    except ZeroDivisionError as e:
                        ret, exc = None, e
                    except Exception as e:          # anything else is not behaviour of the unchanged code
                        ret, exc = None, e
                        fail("request raised %r" % (e,), case, pos, clause="unexpected exception", **kw)
                    if seg == "main":
                        rets.append(None if exc is not None else ret)
                elif kind == "seed":
                    inds = []
                    for vec, costs, st in ev[1]:
                        ind = Individual(list(vec))
                        ind.costs = list(costs)
                        ind.state = Individual.State[st]
                        inds.append(ind)
                    problem.individuals = inds
                    sur.read_from_data_store()
                elif kind == "train":
                    sur.train()
                elif kind == "set_step":
                    sur.train_step = ev[1]
                elif kind == "set_trained":
                    sur.trained = ev[1]
                elif kind == "use":
                    problem.surrogate = wrappers[ev[1]]
                elif kind == "set_stats":
                    sur.eval_stats = ev[1]
                    stats["set_stats events"] += 1
                if kind == "req":
                    stats["requests with eval_stats " + ("on" if sur.eval_stats else "off")] += 1
                    stats["true evaluations with eval_stats off"] += (not sur.eval_stats) and len(rec.obj) > before[5]
                    stats["train() calls with eval_stats off"] += (not sur.eval_stats) and len(rec.train) - before[7]
                # ---- direct oracle: the clauses of the property on the implementation alone
                for j, st in others:
                    if state_of(wrappers[j]) != st:
                        fail("event %r changed wrapper %d, which is not problem.surrogate" % (kind, j), case, pos, clause="other wrapper touched", **kw)
                t_b, ec_b, pc_b, x_b, y_b, no_b, nh_b, nt_b, nf_b = before
                ec, pc = sur.eval_counter, sur.predict_counter
                n_obj = len(rec.obj) - no_b
                n_train = len(rec.train) - nt_b
                if kind != "req":
                    # nothing but a request is an evaluation or a prediction; only train() trains
                    if (ec, pc) != (ec_b, pc_b):
                        fail("%s changed the counters: eval %d->%d predict %d->%d (they must add up to the number of requests)"
                             % (kind, ec_b, ec, pc_b, pc), case, pos, clause="counters_add_up non-request", **kw)
                    if n_obj != 0 or len(rec.hook) != nh_b:
                        fail("%s called the objective / the hook" % kind, case, pos, clause="objective call without request", **kw)
                    if subject != "eval" and n_train != (1 if kind == "train" else 0):
                        fail("%s called train() %d times" % (kind, n_train), case, pos, clause="retrain schedule non-request", **kw)
                    if kind == "seed":
                        if sur.x_data[:len(x_b)] != x_b or ykeys(sur.y_data[:len(y_b)]) != y_b or len(sur.x_data) != len(sur.y_data):
                            fail("read_from_data_store() disturbed the existing training pairs", case, pos, clause="training data order", **kw)
                        a["want_x"] += sur.x_data[len(x_b):]        # what is seeded is judged by the correspondence, not here
                        a["want_y"] += ykeys(sur.y_data[len(y_b):])
                    elif sur.x_data != x_b or ykeys(sur.y_data) != y_b:
                        fail("%s changed the training set" % kind, case, pos, clause="training data non-request", **kw)
                    if kind == "train" and subject != "eval":
                        a["ec_last_train"] = ec
                    continue
                if (ec + pc) - (ec_b + pc_b) != 1:
                    fail("counters do not add up: eval %d->%d, predict %d->%d for one request" % (ec_b, ec, pc_b, pc), case, pos, clause="counters_add_up", **kw)
                if subject == "eval":
                    if n_obj != 1 or rec.obj[-1][0] != vec:
                        fail("pass-through: objective called %d times for one request" % n_obj, case, pos, clause="passthrough objective calls", **kw)
                    if exc is None and dkey(ret) != dkey(true_obj):
                        fail("pass-through: returned %r, true objective value %r" % (ret, true_obj), case, pos, clause="passthrough value", **kw)
                    if ec != ec_b + 1 or pc != pc_b:
                        fail("pass-through: eval_counter %d->%d predict_counter %d->%d" % (ec_b, ec, pc_b, pc), case, pos, clause="passthrough counter", **kw)
                    if sur.x_data != x_b or ykeys(sur.y_data) != y_b:
                        fail("pass-through: training set changed", case, pos, clause="passthrough data", **kw)
                    continue
                if n_obj == 0:
                    # a prediction was used
                    if not t_b:
                        fail("prediction used while the model is not trained (returned %r)" % (ret,), case, pos, clause="prediction while untrained", **kw)
                    elif not case["has_hook"] or hook is None:
                        fail("objective not evaluated although the hook gave no value (returned %r)" % (ret,), case, pos, clause="no value and no evaluation", **kw)
                    elif exc is None and (len(rec.answers) != len(rec.hook) or not rec.answers or vkey(ret) != vkey(rec.answers[-1])):
                        fail("prediction returned %r, hook answered %r" % (ret, rec.answers[-1] if rec.answers else None), case, pos,
                             clause="prediction value", **kw)
                    if pc != pc_b + 1 or ec != ec_b:
                        fail("prediction not counted as a prediction: eval %d->%d predict %d->%d" % (ec_b, ec, pc_b, pc), case, pos, clause="prediction counter", **kw)
                    if sur.x_data != x_b or ykeys(sur.y_data) != y_b:
                        fail("training data changed by a prediction", case, pos, clause="prediction touches data", **kw)
                    if n_train != 0:
                        fail("train() called by a predicted request", case, pos, clause="train on prediction", **kw)
                else:
                    a["want_x"].append(vec)
                    a["want_y"].append(vkey(true_obj))
                    if n_obj != 1 or rec.obj[-1][0] != vec:
                        fail("true objective evaluated %d times for one request" % n_obj, case, pos, clause="objective calls", **kw)
                    if exc is None and dkey(ret) != dkey(true_obj):             # "returned unchanged": type, shape and bits
                        fail("true evaluation returned %r, objective value %r" % (ret, true_obj), case, pos, clause="value changed", **kw)
                    if ec != ec_b + 1 or pc != pc_b:
                        fail("true evaluation not counted exactly once: eval %d->%d predict %d->%d" % (ec_b, ec, pc_b, pc), case, pos, clause="evaluation counter", **kw)
                    if sur.x_data != x_b + [vec] or ykeys(sur.y_data) != y_b + [vkey(true_obj)]:
                        fail("(vector, value) not appended exactly once at the end: |x| %d->%d |y| %d->%d" % (len(x_b), len(sur.x_data), len(y_b), len(sur.y_data)),
                             case, pos, clause="training data append", **kw)
                    elif dkey(sur.y_data[-1]) != dkey(true_obj):
                        fail("the value appended to the training set is %r, the objective value is %r" % (sur.y_data[-1], true_obj),
                             case, pos, clause="training value changed", **kw)
                    elif rec.obj[-1][1] != len(x_b):
                        fail("training data extended before the objective was called", case, pos, clause="append before call", **kw)
                    if ts == -1 or ts > 0:
                        # "retrained exactly at every train_step-th TRUE EVALUATION": the count of true evaluations of
                        # this wrapper is eval_counter (checked above to move by one per true evaluation, and by nothing else)
                        due = ts != -1 and ec % ts == 0
                        if n_train != (1 if due else 0):
                            fail("train() called %d times at true evaluation number %d (training set size %d) with train_step %d (required %d)"
                                 % (n_train, ec, len(sur.x_data), ts, 1 if due else 0), case, pos, clause="retrain schedule", **kw)
                        elif due and subject == "scikit":
                            nfit = len(rec.fit) - nf_b
                            if nfit != 1 or rec.fit[-1][1] != sur.x_data or ykeys(rec.fit[-1][2]) != ykeys(sur.y_data):
                                fail("train() did not fit the regressor once on the current training set", case, pos, clause="fit data", **kw)
                    if ts not in (-1, 0):
                        # statistics: would a look-alike quantity have decided differently?
                        sep["retrain_decisions"] += 1
                        if len(sur.x_data) != ec:
                            sep["len_x_data_differs_from_eval_counter"] += 1
                            sep["trains_with_len_x_data_differing"] += n_train
                            if not case_flag["hit"]:
                                case_flag["hit"] = True
                                sep["cases_with_such_a_decision"] += 1
                        alt = {"len_x_data": len(sur.x_data), "requests_to_wrapper": a["requests"], "predict_counter": pc,
                               "counter_before_increment": ec - 1, "objective_calls_on_problem": problem.n_obj,
                               "evaluations_since_last_train_call": ec - a["ec_last_train"],
                               "evaluations_since_start_of_case": ec - a["ec_case_start"]}
                        for name, q in alt.items():
                            sep["quantity_differs"][name] += q != ec
                            sep["decision_would_differ"][name] += (q % ts == 0) != (ec % ts == 0)
                    if n_train:
                        a["ec_last_train"] = ec

        run_events("warmup", case["warmup"])
        # snapshot: the model starts here
        snap = []
        for w, a in zip(wrappers, acct):
            snap.append({"trained": bool(w.trained), "eval_counter": w.eval_counter, "predict_counter": w.predict_counter,
                         "x_data": list(w.x_data), "y_data": list(w.y_data), "train_step": getattr(w, "train_step", -1)})
            w.rec = Rec()
            a["ec_case_start"] = w.eval_counter
        cur0 = next(j for j, w in enumerate(wrappers) if w is problem.surrogate)
        run_events("main", case["events"])
        for j, (w, a) in enumerate(zip(wrappers, acct)):
            kw = {"subject": w.c19_subject, "train_step": getattr(w, "train_step", None)}
            if w.x_data != a["want_x"] or ykeys(w.y_data) != a["want_y"]:
                fail("training set of wrapper %d is not the sequence of seeded and truly evaluated (vector, value) pairs" % j, case, ("main", None),
                     clause="training set order", **kw)
            if w.eval_counter + w.predict_counter != a["requests"]:
                fail("wrapper %d: eval_counter %d + predict_counter %d != %d requests" % (j, w.eval_counter, w.predict_counter, a["requests"]),
                     case, ("main", None), clause="counters_add_up total", **kw)
        final = [{"trained": bool(w.trained), "eval_counter": w.eval_counter, "predict_counter": w.predict_counter,
                  "train_step": getattr(w, "train_step", -1), "x_data": list(w.x_data), "y_data": list(w.y_data),
                  "train_log": list(w.rec.train), "obj_log": list(w.rec.obj), "hook_log": list(w.rec.hook), "tape": list(w.rec.tape)}
                 for w in wrappers]
        return {"returned": rets, "flat": flat, "cur0": cur0, "cur": next(j for j, w in enumerate(wrappers) if w is problem.surrogate),
                "snapshot": snap, "final": final}

    def enc_event(ev):
        k = ev[0]
        if k == "req":
            return "ereq %s" % pl(enc_vec(ev[1]), optl(ev[2], lambda h: enc_vec(build_answer(h))), enc_vec(build_answer(ev[3])))
        if k == "seed":
            return "ESeed %s" % ll(ev[1], lambda i: pl(enc_vec(i[0]), enc_vec(i[1])))
        if k == "train":
            return "ETrain"
        if k == "set_step":
            return "ESetStep %s" % zl(ev[1])
        if k == "set_trained":
            return "ESetTrained %s" % bl(ev[1])
        return "EUse %s" % nl(ev[1])

    def encode(case, obs):
        slots = ["{| sl_pass := %s; sl_ts := %s; sl_trained := %s; sl_ec := %s; sl_pc := %s; sl_x := %s; sl_y := %s; sl_tape := %s |}" % (
            bl(sl["subject"] == "eval"), zl(sn["train_step"]), bl(sn["trained"]), nl(sn["eval_counter"]), nl(sn["predict_counter"]),
            ll(sn["x_data"], enc_vec), ll(sn["y_data"], enc_vec), ll(fin["tape"], bl))
            for sl, sn, fin in zip(case["slots"], obs["snapshot"], obs["final"])]
        c = "{| c9_hook := %s; c9_cur := %s; c9_slots := [%s]; c9_events := %s |}" % (
            bl(case["has_hook"]), nl(obs["cur0"]), "; ".join(slots), ll([e for e in obs["flat"] if e[0] != "set_stats"], enc_event))
        e = pl(ll(obs["returned"], lambda v: optl(v, enc_vec)), nl(obs["cur"]),
               ll(obs["final"], lambda f: pl(pl(bl(f["trained"]), nl(f["eval_counter"]), nl(f["predict_counter"])), zl(f["train_step"]),
                                             ll(f["x_data"], enc_vec), ll(f["y_data"], enc_vec),
                                             ll(f["train_log"], enc_n3), ll(f["obj_log"], enc_vnn), ll(f["hook_log"], enc_vnn))))
        return c, e

    rng = ctx.rng
    n_plain = ctx.pick(330, 6000)
    n_session = ctx.pick(330, 6000)
    cases, expected, meta = [], [], []
    hist = {"stream": {}, "subject": {}, "train_step": {}, "length": {"1-5": 0, "6-20": 0, "21-40": 0, "41-60": 0, "61+": 0},
            "wrappers_per_case": {}, "events": {}, "requests": 0, "predicted": 0, "evaluated": 0, "hook_declined": 0, "train_calls": 0,
            "raised": 0, "via_job": 0, "untrained_after_train": 0, "no_hook_problem": 0,
            "cases_with_warmup": 0, "model_starts_with_len_x_data_ne_eval_counter": 0, "model_starts_with_advanced_counters": 0,
            "model_starts_trained": 0, "seeded_individuals": {"EVALUATED": 0, "EMPTY": 0, "IN_PROGRESS": 0, "FAILED": 0},
            "seed_calls_repeating_individuals": 0, "hook_answers": {},
            "hook_answers_with": {"nan": 0, "infinity": 0, "all zero or empty (falsy)": 0, "|value| >= 1e300": 0}}

    def add(case):
        obs = implementation(case)
        c, e = encode(case, obs)
        cases.append(c)
        expected.append(e)
        fin = obs["final"]
        meta.append({k: case[k] for k in ("stream", "has_hook", "via_job", "cur", "warmup", "events")} |
                    {"wrappers": [{k: sl.get(k, True) for k in ("subject", "train_step", "trained0", "eval_stats0")} for sl in case["slots"]],
                     "model_start": [{k: sn[k] for k in ("trained", "eval_counter", "predict_counter", "train_step")} | {"len_x_data": len(sn["x_data"])}
                                     for sn in obs["snapshot"]],
                     "observed": {"returned": [jdesc(r) for r in obs["returned"]], "wrappers": [{k: f[k] for k in ("eval_counter", "predict_counter", "train_log", "tape")} for f in fin]}})
        n = len(case["events"])
        stats["wrappers starting with eval_stats off"] += sum(not sl.get("eval_stats0", True) for sl in case["slots"])
        hist["stream"][case["stream"]] = hist["stream"].get(case["stream"], 0) + 1
        hist["wrappers_per_case"][str(len(fin))] = hist["wrappers_per_case"].get(str(len(fin)), 0) + 1
        for sl in case["slots"]:
            hist["subject"][sl["subject"]] = hist["subject"].get(sl["subject"], 0) + 1
            hist["train_step"][str(sl["train_step"])] = hist["train_step"].get(str(sl["train_step"]), 0) + 1
        prev = None
        for ev in case["warmup"] + case["events"]:
            hist["events"][ev[0]] = hist["events"].get(ev[0], 0) + 1
            if ev[0] == "seed":
                for i in ev[1]:
                    hist["seeded_individuals"][i[2]] += 1
                hist["seed_calls_repeating_individuals"] += bool(prev) and ev[1][:len(prev)] == prev
                prev = ev[1]
        hist["length"]["1-5" if n <= 5 else "6-20" if n <= 20 else "21-40" if n <= 40 else "41-60" if n <= 60 else "61+"] += 1
        for ev in case["warmup"] + case["events"]:
            if ev[0] == "req" and ev[2] is not None:
                h = ev[2]
                kind = "list" if isinstance(h, list) else h["t"]
                vals = h if isinstance(h, list) else h["v"]
                hist["hook_answers"][kind] = hist["hook_answers"].get(kind, 0) + 1
                hist["hook_answers_with"]["nan"] += "nan" in vals
                hist["hook_answers_with"]["infinity"] += "inf" in vals or "-inf" in vals
                hist["hook_answers_with"]["all zero or empty (falsy)"] += all(x == 0 for x in vals)
                hist["hook_answers_with"]["|value| >= 1e300"] += any(not isinstance(x, str) and abs(x) >= 1e300 for x in vals)
        hist["requests"] += len(obs["returned"])
        hist["predicted"] += sum(f["predict_counter"] - sn["predict_counter"] for f, sn in zip(fin, obs["snapshot"]))
        hist["evaluated"] += sum(f["eval_counter"] - sn["eval_counter"] for f, sn in zip(fin, obs["snapshot"]))
        hist["hook_declined"] += sum(len(f["hook_log"]) for f in fin) - sum(f["predict_counter"] - sn["predict_counter"] for f, sn in zip(fin, obs["snapshot"]))
        hist["train_calls"] += sum(len(f["train_log"]) for f in fin)
        hist["raised"] += sum(1 for r in obs["returned"] if r is None)
        hist["via_job"] += bool(case["via_job"])
        hist["untrained_after_train"] += sum(1 for f in fin for t in f["tape"] if not t)
        hist["no_hook_problem"] += not case["has_hook"]
        hist["cases_with_warmup"] += bool(case["warmup"])
        hist["model_starts_with_len_x_data_ne_eval_counter"] += any(len(sn["x_data"]) != sn["eval_counter"] for sn in obs["snapshot"])
        hist["model_starts_with_advanced_counters"] += any(sn["eval_counter"] + sn["predict_counter"] > 0 for sn in obs["snapshot"])
        hist["model_starts_trained"] += any(sn["trained"] and sl["subject"] != "eval" for sn, sl in zip(obs["snapshot"], case["slots"]))
        ctx.count((case["stream"], case["has_hook"], n, obs["cur0"], obs["cur"],
                   tuple((sl["subject"], sn["train_step"], sn["eval_counter"], len(sn["x_data"]), f["train_step"], f["eval_counter"], f["predict_counter"],
                          len(f["x_data"]), tuple(t[0] for t in f["train_log"]))
                         for sl, sn, f in zip(case["slots"], obs["snapshot"], fin))), nontrivial=(n > 1))
        mixed = any(f["predict_counter"] > 0 and f["eval_counter"] > 0 for f in fin)
        if mixed and n <= 10 and (case["stream"] == "session") == (len(ctx.samples) % 2 == 1):
            ctx.sample(meta[-1])

    # corpus: boundary cases read off the code
    def plain(subject="scikit", train_step=2, requests=(), has_hook=True, trained0=False, via_job=False,
              train_script=None, warmup=(), events=None, slots=None, cur=0, stats0=True):
        sl = {"subject": subject, "train_step": train_step, "trained0": trained0, "eval_stats0": stats0,
              "train_script": train_script or [True] * 70, "scores": [0.3] * 70}
        return {"stream": "corpus", "has_hook": has_hook, "via_job": via_job, "cur": cur, "slots": slots or [sl],
                "warmup": list(warmup), "events": list(events) if events is not None else list(requests)}

    def slot(subject, train_step, trained0=False, train_script=None, stats0=True):
        return {"subject": subject, "train_step": train_step, "trained0": trained0, "eval_stats0": stats0,
                "train_script": train_script or [True] * 70, "scores": [0.3] * 70}

    R = lambda v, h, t: ["req", [float(v)], None if h is None else [float(h)], [float(t)]]
    I = lambda v, c=None, st="EVALUATED": [[float(v)], [] if c is None else [float(c)], st]
    doe = lambda k: ["seed", [I(-1 - j, (1 + j) ** 2) for j in range(k)]]
    corpus = [
        plain("eval", 1, [R(1, 9, 10), R(1, 9, 10), R(2, None, 20)]),
        plain("scikit", 2, [R(1, None, 10), R(2, 99, 20), R(3, 77, 30), R(4, None, 40), R(5, None, 50)]),
        plain("scikit", 1, [R(1, 5, 10), R(2, 5, 20), R(3, None, 30), R(4, 5, 40)]),
        plain("scikit", -1, [R(i, 5, i * 10) for i in range(12)]),
        plain("scikit", -1, [R(i, 5 if i % 2 else None, i * 10) for i in range(12)], trained0=True),
        plain("scikit", 0, [R(1, 5, 10), R(2, 5, 20)]),
        plain("scikit", -2, [R(i, None, i) for i in range(6)]),
        plain("scikit", 3, [R(i, 5, i) for i in range(10)], has_hook=False),
        plain("scikit", 10, [R(i, 7, i) for i in range(31)]),
        plain("scikit", 60, [R(i, 7, i) for i in range(60)]),
        plain("scripted", 2, [R(i, 7 if i % 3 else None, i) for i in range(30)], train_script=[True, False, True, False] * 20),
        plain("scripted", 1, [R(i, 7, i) for i in range(8)], train_script=[False] * 70),
        plain("scikit", 2, [R(1, None, 10), R(2, 99, 20), R(3, 77, 30), R(4, None, 40)], via_job=True),
        plain("eval", 1, [R(1, 9, 10), R(2, None, 20)], via_job=True),
        plain("scikit", 1, [["req", [1.0], [], [10.0]], ["req", [2.0], [], [20.0]], ["req", [3.0], [0.0], [30.0]]]),
        # seeded training set (earlier design-of-experiments copied by read_from_data_store), hook declines: the model must be
        # retrained at true evaluations 5, 10 (4, 8), whatever the size of the training set is
        plain("scripted", 5, events=[doe(3)] + [R(i, None, i * i) for i in range(12)]),
        plain("scikit", 5, events=[doe(3)] + [R(i, None, i * i) for i in range(12)]),
        plain("scikit", 4, events=[doe(7)] + [R(i, None, i * i) for i in range(9)]),
        plain("scikit", 5, events=[doe(5)] + [R(i, None, i * i) for i in range(11)]),
        plain("scikit", -1, events=[doe(3)] + [R(i, None, i * i) for i in range(12)]),
        plain("scikit", 3, events=[doe(3)] + [R(i, 7, i) for i in range(12)], via_job=True),
        # the same, but the seeding happened before the observed part: the model starts with |x_data| = 3, eval_counter = 0
        plain("scikit", 5, warmup=[doe(3)], events=[R(i, None, i * i) for i in range(12)]),
        plain("scikit", 3, warmup=[doe(2)] + [R(i, None, i) for i in range(4)], events=[R(i, 7, i) for i in range(4, 12)]),
        # individuals that were never evaluated are copied too, with their empty cost list; an empty store; seeding twice
        plain("scikit", 2, events=[["seed", [I(1, 10), I(2, None, "EMPTY"), I(3, None, "FAILED"), I(4, None, "IN_PROGRESS"), I(5, 50)]]] +
              [R(i, None, i) for i in range(5)]),
        plain("scikit", 2, events=[["seed", []]] + [R(i, None, i) for i in range(5)]),
        plain("scikit", 3, events=[doe(2), R(1, None, 1), doe(2), R(2, None, 2), ["seed", [I(-1, 1), I(-2, 4), I(9, 81)]], R(3, None, 3), R(4, None, 4)]),
        # user calls of train() and a changed train_step do not shift the counter-based schedule
        plain("scikit", 4, events=[R(1, None, 1), R(2, None, 2), ["train"], R(3, 7, 3), R(4, None, 4), R(5, None, 5), R(6, None, 6),
                                   ["set_step", 3], R(7, None, 7), R(8, None, 8), ["set_step", 4], R(9, None, 9), R(10, None, 10)]),
        plain("scripted", 2, events=[["set_trained", True], R(1, 7, 1), R(2, None, 2), ["set_trained", False], R(3, 7, 3), ["train"], R(4, 7, 4)],
              train_script=[False, True, False, True] * 20),
        # the surrogate of a problem is replaced mid-way: pass-through first, then a seeded predicting wrapper, and back
        plain(slots=[slot("eval", -1), slot("scikit", 3)],
              events=[R(1, None, 1), R(2, None, 2), ["use", 1], doe(3), R(3, None, 3), R(4, None, 4), ["train"], R(5, 77, 5), ["set_step", 2],
                      R(6, None, 6), ["use", 0], R(7, 78, 7), ["use", 1], R(8, None, 8)]),
        plain(slots=[slot("scikit", 2), slot("scripted", 2, trained0=True), slot("eval", -1)], cur=1,
              events=[R(1, 7, 1), R(2, None, 2), ["use", 0], R(3, None, 3), R(4, None, 4), R(5, 7, 5), ["use", 1], R(6, None, 6), ["use", 2],
                      R(7, 7, 7), ["use", 0], R(8, None, 8), R(9, None, 9)]),
    ]
    # hook answers of every shape the wrapper accepts (it only tests `is not None`), one per request on a trained wrapper,
    # with declines in between: finite / falsy / NaN / infinite / huge values in lists, tuples, Python and numpy scalars,
    # 0-d, 1-d, (1, n) and (n, 1) numpy arrays, lists of numpy scalars and of ints  (red team round 2)
    nan_, inf_ = "nan", "inf"
    ANSWERS = [[0.0], [-0.0], [], [0.0, 0.0], [nan_], [1.5, nan_], [nan_, nan_], [inf_], ["-inf"], [inf_, "-inf"], [1e308], [-1.7976931348623157e308, 5e-324],
               [1000.5], [2.0 ** 53, 1e-300]]
    for t_, vs in [("scalar", [[0.0], [-0.0], [nan_], [inf_], ["-inf"], [1e308], [1000.5]]),
                   ("npscalar", [[0.0], [nan_], [inf_], ["-inf"], [1e308], [1000.5]]),
                   ("np0", [[0.0], [nan_], ["-inf"], [1e308], [1000.5]]),
                   ("np1", [[], [0.0], [-0.0], [0.0, 0.0], [nan_], [1.5, nan_], [inf_, 2.0], ["-inf"], [1e308, -1e308], [1000.5, 7.0], [1000.5]]),
                   ("np2", [[0.0], [nan_], [nan_, 2.0], [inf_], [1000.5], [1000.5, 3.0], []]),
                   ("npcol", [[0.0], [nan_], [2.0, nan_], ["-inf"], [1000.5, 3.0]]),
                   ("tuple", [[], [0.0], [nan_], [1.5, inf_], [1000.5]]),
                   ("listnp", [[0.0], [nan_], [inf_, 1.0], [1000.5, 2.0]]),
                   ("intlist", [[0.0], [0.0, 0.0], [7.0], [1000000.0, -3.0]])]:
        ANSWERS += [{"t": t_, "v": v} for v in vs]
    A = lambda v, h, t: ["req", [float(v)], h, [float(t)]]
    for subject, ts, via in (("scripted", -1, False), ("scikit", 2, False), ("scikit", 3, True), ("scripted", 1, True)):
        answers = [h for h in ANSWERS if answer_iterable(h)] if via else ANSWERS
        for k0 in range(0, len(answers), 12):
            evs = []
            for j, h in enumerate(answers[k0:k0 + 12]):
                evs.append(A(j, h, 100 + j))
                if j % 3 == 2:
                    evs.append(A(j + 0.5, None, 200 + j))
            corpus.append(plain(subject, ts, evs, trained0=True, via_job=via))
    # the same answers while the model is NOT trained (the hook is not asked) and on a problem without a hook
    corpus.append(plain("scikit", -1, [A(j, h, 100 + j) for j, h in enumerate(ANSWERS[:20])], trained0=False))
    corpus.append(plain("scikit", 4, [A(j, h, 100 + j) for j, h in enumerate(ANSWERS[14:40])], trained0=True, has_hook=False))
    corpus.append(plain("eval", 1, [A(j, h, 100 + j) for j, h in enumerate(ANSWERS[30:50])]))
    # red team round 3, a: the Individual object of a request in every state, with costs left on it, the same object again after its
    # vector was assigned anew, objects that went through Job.evaluate before (state EVALUATED, costs = the old value) - the request
    # is (vector, hook answer, objective value) and nothing else, for the pass-through and for the predicting wrappers
    def P(v, h, t, **o):
        return ["req", [float(v)], None if h is None else [float(h)], t if isinstance(t, dict) else [float(x) for x in (t if isinstance(t, list) else [t])], o]
    def tour(h):
        return [P(1, h, 10, state="EMPTY"), P(2, h, 20, state="IN_PROGRESS"), P(3, h, 30, state="EVALUATED", stale=[-555.5]),
                P(4, h, 40, state="FAILED", stale=[-555.5]), P(5, h, 50, state="EVALUATED", stale=[50.0]), P(6, h, 60, state="EVALUATED", stale=[]),
                P(7, h, 70, via="job"), P(8, h, 80, ind="reuse"), P(9, h, 90, ind="reuse"), P(9, h, 91, ind="reuse"),
                P(10, h, 100, ind="reuse", via="job", state="FAILED"), P(11, h, 110, ind="reuse"), P(12, h, 120, ind="reuse", state="IN_PROGRESS"),
                P(13, h, 130, ind="reuse", state="EVALUATED", stale=["nan"]), P(14, h, 140, ind="reuse", state="EMPTY", stale=[-555.5, 444.25]),
                P(14, h, 141, ind="fresh", state="EVALUATED", stale=[140.0])]
    corpus += [plain("eval", 1, tour(None)), plain("eval", 1, tour(7), via_job=True),
               plain("scikit", 2, tour(None), trained0=True), plain("scikit", 3, tour(7), trained0=False),
               plain("scripted", -1, tour(None), trained0=True, via_job=True), plain("scripted", 1, tour(7), train_script=[False, True] * 35),
               plain("scikit", 2, [e if j % 3 else e[:2] + [[7.0]] + e[3:] for j, e in enumerate(tour(None))], trained0=True),
               plain(slots=[slot("eval", -1), slot("scikit", 2, trained0=True)],
                     events=tour(None)[:8] + [["use", 1]] + tour(None)[8:12] + [["use", 0]] + tour(None)[12:])]
    # b: objective VALUES of every shape the unchanged code hands through untouched (rule 11): list, tuple, Python / numpy scalar, 0-d,
    # 1-d, (1, n), (n, 1) arrays, lists of numpy scalars / ints; through Job.evaluate only the iterable ones (calc_signed_costs maps)
    TRUES = [[10.5], [10.5, -3.0], [], {"t": "tuple", "v": [10.5]}, {"t": "tuple", "v": [10.5, -3.0]}, {"t": "tuple", "v": []},
             {"t": "np1", "v": [10.5]}, {"t": "np1", "v": [10.5, -3.0]}, {"t": "np1", "v": []}, {"t": "np1", "v": [nan_, inf_]},
             {"t": "npscalar", "v": [10.5]}, {"t": "npscalar", "v": [0.0]}, {"t": "scalar", "v": [10.5]}, {"t": "scalar", "v": [0.0]},
             {"t": "scalar", "v": [nan_]}, {"t": "np0", "v": [10.5]}, {"t": "np2", "v": [10.5, -3.0]}, {"t": "np2", "v": [10.5]},
             {"t": "npcol", "v": [10.5, -3.0]}, {"t": "npcol", "v": [10.5]}, {"t": "listnp", "v": [10.5]}, {"t": "listnp", "v": [10.5, -3.0]},
             {"t": "intlist", "v": [7.0]}, {"t": "intlist", "v": [0.0, -3.0]}, [inf_], ["-inf", 1e308], [nan_]]
    for subject, ts, via, tr0 in (("eval", 1, False, False), ("scikit", 2, False, False), ("scikit", 5, False, True), ("scripted", 1, False, False),
                                  ("eval", 1, True, False), ("scikit", 3, True, False), ("scripted", -1, True, True)):
        trues = [t for t in TRUES if answer_iterable(t)] if via else TRUES
        corpus.append(plain(subject, ts, [["req", [float(j)], [7.0] if (tr0 and j % 4 == 3) else None, t] for j, t in enumerate(trues)],
                            trained0=tr0, via_job=via))
    # red team round 5: the eval_stats switch (rule 5 / 9) off from the start, switched off / on in the middle of the stream, per wrapper
    # object of a session; the schedule of the unchanged code (train at evaluations 3, 6, 9 ...) and the counters do not depend on it
    S = lambda b: ["set_stats", b]
    mix = lambda n: [R(i, 7 if i % 4 == 3 else None, i * i) for i in range(n)]
    corpus += [plain("eval", 1, [R(1, 9, 10), R(1, 9, 10), R(2, None, 20)], stats0=False),
               plain("eval", 1, events=[R(1, 9, 10), S(False), R(1, 9, 10), R(2, None, 20), S(True), R(3, None, 30)], via_job=True),
               plain("scikit", 3, mix(14), stats0=False),
               plain("scikit", 1, mix(8), stats0=False, trained0=True),
               plain("scikit", -1, mix(8), stats0=False, trained0=True),
               plain("scripted", 3, mix(14), stats0=False, train_script=[True, False] * 35),
               plain("scikit", 3, events=mix(4) + [S(False)] + mix(7) + [S(True)] + mix(4) + [S(False), ["train"]] + mix(4)),
               plain("scripted", 2, events=[S(False)] + mix(5) + [S(True)] + mix(5), stats0=False, via_job=True),
               plain("scikit", 4, warmup=[doe(3), S(False)] + mix(3), events=mix(9) + [S(True)] + mix(3)),
               plain(slots=[slot("eval", -1, stats0=False), slot("scikit", 2, stats0=True), slot("scripted", 3, stats0=False)],
                     events=mix(3) + [["use", 1]] + mix(5) + [S(False)] + mix(4) + [["use", 2]] + mix(7) + [["use", 0], S(True)] + mix(2) + [["use", 1]] + mix(3))]
    # red team round 6: requests that overlap in time (threads sharing problem.surrogate, as Evaluator.evaluate_parallel does): three
    # sequential requests, k requests inside the objective at the same time and let out one by one, two sequential requests
    def G(mode, reqs, release=None):
        return ["group", {"mode": mode, "reqs": reqs, "release": list(release) if release is not None else list(range(len(reqs)))}]
    seq3, seq2 = [R(11, None, 121), R(12, None, 144), R(13, None, 169)], [R(14, None, 196), R(15, None, 225)]
    grp = lambda n, h=None: [R(i, h if i % 2 else None, i * i + 0.5) for i in range(1, n + 1)]
    overlap_corpus = [
        plain("scripted", -1, events=seq3 + [G("threads", grp(2))] + seq2),
        plain("scikit", 2, events=seq3 + [G("threads", grp(2))] + seq2),
        plain("scripted", 5, events=seq3 + [G("threads", grp(8))] + seq2, train_script=[False] * 70),
        plain("scikit", 5, events=seq3 + [G("threads", grp(8), release=[7, 6, 5, 4, 3, 2, 1, 0])] + seq2, trained0=True),
        plain("scikit", 3, events=seq3 + [G("threads", grp(6, 7), release=[3, 1, 5, 0, 2, 4])] + seq2, trained0=True),
        plain("scripted", 1, events=[G("threads", grp(4))] + seq2, train_script=[False] * 70),
        plain("scikit", 2, events=[G("job_threads", grp(5))] + seq2 + [G("job_threads", grp(3)), G("threads", grp(2))], trained0=True),
        plain("scikit", 3, events=seq3 + [G("joblib", grp(4))] + seq2, has_hook=False),
        plain("scripted", 2, events=seq3 + [G("joblib", grp(8), release=[1, 0, 3, 2, 5, 4, 7, 6])] + seq2, trained0=True),
        plain("scikit", -1, events=[G("joblib", grp(3))] + seq2),
        plain("scikit", 5, events=[doe(3)] + seq2 + [G("threads", grp(7))] + seq3, trained0=True),
        plain("scikit", 3, warmup=[doe(2)] + seq2 + [G("threads", grp(3))], events=seq3 + [G("joblib", grp(5))], trained0=True),
        plain("eval", 1, events=seq3 + [G("threads", grp(4), release=[2, 0, 3, 1])] + seq2),
        plain("eval", 1, events=[G("job_threads", grp(8))] + seq2),
        plain(slots=[slot("eval", -1), slot("scikit", 2, trained0=True)],
              events=seq3 + [G("threads", grp(3)), ["use", 1], G("threads", grp(4, 7)), ["set_step", 3], G("joblib", grp(3)), ["use", 0], G("threads", grp(2))]),
    ]
    for case in overlap_corpus:
        case["stream"] = "overlap corpus"
        if not overlap_consistent(case) and case["has_hook"]:
            raise RuntimeError("harness/c19.py: overlap corpus case is not a sequential history: %r" % (case["events"],))
    corpus += overlap_corpus
    for case in corpus:
        add(case)
    for k in range(ctx.pick(110, 2000)):
        add(gen_overlap(rng))
    for k in range(n_plain):
        add(gen_plain(rng))
    for k in range(n_session):
        add(gen_session(rng))

    ctx.coq_compare("c19", HEADER, "c19_case", "c19_obs", "c19_run", "c19_obs_eqb", cases, expected, meta, shard=ctx.pick(50, 200))
    ctx.rule = ("three streams plus a corpus. overlap: sequential histories (requests, read_from_data_store(), train(), train_step / trained / "
                "problem.surrogate assignments; 0..13 requests before, 0..8 between / after) with 1..3 groups of 2..8 requests that overlap in time: "
                "plain threads on problem.surrogate.evaluate or Job.evaluate, or Algorithm.evaluate with max_processes = k (joblib threads); the objective is a "
                "gate, all requests of a group are inside it at once and are released one at a time in a drawn order, each returning completely before "
                "the next release (train_step from [-1, 1, 2, 3, 4, 5, 7], hooks answering / declining / absent, trained / untrained, all three subjects; "
                "joblib groups only of requests that reach the objective); the model runs the group as the sequential history in release order. plain: request sequences of length 1..60 on one fresh wrapper (three subjects, train_step from %r, "
                "hook present/absent, accept probability 0/0.3/0.5/0.8/1, hook answers as lists of floats and - in half of the cases, 30%% or 70%% of the "
                "answers - as Python / numpy scalars, tuples, 0-d / 1-d / (1,n) / (n,1) numpy arrays, lists of numpy scalars or ints, with zeros / "
                "empty (falsy), NaN, infinities and huge values inside (the returned object is compared by type, shape and bit pattern), "
                "trained or untrained start, train() leaving trained True or False, "
                "~40%% through Job.evaluate). session: 4..40 requests on 1..3 wrapper objects interleaved with read_from_data_store() "
                "(0..9 individuals in all four states, sometimes the same individuals again), user train() calls, assignments of train_step "
                "(from %r), trained and problem.surrogate; in ~40%% of the sessions a prefix is a warm-up run on the real objects only and the "
                "model starts from the observed snapshot. Every wrapper starts with eval_stats True (1/3) or False (2/3) and the switch is "
                "assigned again in the middle of half of the plain streams and of the sessions (the model has no such field). A case is non-trivial when it has more than one event; distinct = distinct "
                "(stream, hook, length, per wrapper: subject, starting and final train_step / eval_counter / training-set size, "
                "predict_counter, train-call counters)") % (sorted(set(TRAIN_STEPS)), sorted(set(SESSION_STEPS)))
    ctx.extra.update({"overlapping_requests": ov, "eval_stats_switch": stats, "individual_objects_presented_to_the_wrapper": pres, "objective_value_kinds": truekinds, "distribution": hist, "look_alike_quantities_at_retrain_decisions": sep})


LEVEL_TEXT = ("Machine-checked Coq theorems over a state-machine model of SurrogateModelEval.evaluate, SurrogateModelPredict.evaluate / "
              "evaluate_individual and SurrogateModel.read_from_data_store, for every request sequence, every accept/decline pattern of the "
              "predict hook, every integer train_step, every train() oracle and every starting state (so also after the training set was "
              "seeded, where its size differs from the evaluation counter): pass-through exactness, prediction only (and exactly) when trained "
              "and the hook answers, true evaluation exactly once / returned unchanged / counted / recorded once in order, the retraining "
              "schedule (train() exactly when train_step is not -1 and divides the new evaluation counter; never for -1), its independence "
              "of the training set (seeding changes nothing but x_data / y_data), counters adding up to the number of requests, alignment of "
              "the training set, and sessions (requests interleaved with read_from_data_store(), user train() calls, assignments of "
              "train_step / trained / problem.surrogate over several wrapper objects: each request is one step of the per-request theorems, "
              "other wrappers are untouched). The model is tied to surrogate.py and surrogate_scikit.py on every run by evaluating it in Coq "
              "on generated sessions, started from fresh wrappers and from snapshots of the real objects taken mid-way, and comparing returned "
              "values, counters, train_step, training data, train/objective/hook call logs of every wrapper exactly.")
LEVEL_NOTE = ("Trusted: Coq kernel + vm_compute; the hand-written model and the Python harness; train()'s effect on `trained`, the objective, "
              "the hook and the regressor are oracles. train_step = 0 raises in the code (modelled; 'returned unchanged' is stated for "
              "train_step <> 0). read_from_data_store copies every stored individual whatever its state (modelled as it is). "
              "SurrogateModelSMT shares the modelled base-class code but its own train() is not run. "
              "Correspondence is sampled, the theorems are unbounded. Two functions are also translated from surrogate.py on every run and proved equal to the model (the retrain guard of evaluate_individual; SurrogateModelPredict.evaluate).")
